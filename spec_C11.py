# C11 "Construction validates" -- harness/C11_construct.cpp + harness/c11_common.h
# Shard parameters per entry:
#   harness_c11_edge_nobu : 0 = base, 1 = an edge (E0) was deleted before under deferred deletion (0/1); selector: allowDuplicates
#   harness_c11_edge_bu   : 0 = base, 1 = cfg (bit0 allowDuplicates, bit1 E0 deleted before (deferred)), 2 = chunk of the ordered vertex pairs
#   harness_c11_face_sym  : 0 = base, 1 = list length 1..5
#   harness_c11_face_bu   : 0 = base, 1 = family, 2 = chunk
#   harness_c11_cell      : 0 = base, 1 = family, 2 = chunk
#   harness_c11_empty_*   : 0 = base
def _c11_chunks(n, per):
    return range((n + per - 1) // per)
def _c11_edge_bu(bases_cfgs, per=8):
    return [{0: b, 1: cfg, 2: ch} for (b, cfgs) in bases_cfgs for cfg in cfgs for ch in _c11_chunks(BASE_COUNTS[b][0] * (BASE_COUNTS[b][0] - 1), per)]
def _c11_face_bu(base, fam, per=8, only_first_face=False):
    nv, ne, nf, nc = BASE_COUNTS[base]; maxn = 4 if base in (B_HEX, B_HEX2) else 3
    n = nf * (3 * maxn + 2) if fam == 0 else (1 if only_first_face else nf) * maxn * 2 * ne
    return [{0: base, 1: fam, 2: ch} for ch in _c11_chunks(n, per)]
def _c11_cell(base, fam, per=8, limit=None):
    nv, ne, nf, nc = BASE_COUNTS[base]; L = {B_TET2_FACE: 6, B_HEX: 6, B_PRISM_PYR: 5}.get(base, 4); nhf = 2 * nf
    n = [L * nhf, 3 * L + 1, nhf + nhf * nhf, nf * nf][fam]
    if limit: n = min(n, limit)
    return [{0: base, 1: fam, 2: ch} for ch in _c11_chunks(n, per)]

_C11_OBS = "observed: returned handle, full snapshot of the stored definitions/deleted flags before and after, entity counters incl. n_logical_*"
PROPS["C11"] = dict(
  jobs=[
    # ---- add_edge
    dict(name="c11-edge-nobu", harness="C11_construct.cpp", entries=["harness_c11_edge_nobu"], units=CORE, unwind=30, checks="none", object_bits=13,
         shards={"quick": [{0: b, 1: 0} for b in (B_LOWDIM, B_TET, B_TET2_FACE)], "thorough": [{0: b, 1: 0} for b in (B_LOWDIM, B_TET, B_TET2_FACE, B_HEX, B_PRISM_PYR)]},
         timeout=300, mem_gb=4,
         bounds="add_edge(a,b,dup) with vertex bottom-up incidences DISABLED: a, b FREE symbolic live vertices (a != b, all ordered pairs), dup by selector; bases B_LOWDIM (has a duplicate edge, an isolated vertex), B_TET, B_TET2_FACE (thorough: + B_HEX, B_PRISM_PYR); " + _C11_OBS),
    dict(name="c11-edge-nobu-deleted", harness="C11_construct.cpp", entries=["harness_c11_edge_nobu"], units=CORE, unwind=30, checks="none", object_bits=13,
         shards=[{0: b, 1: 1} for b in (B_LOWDIM, B_TET)], timeout=300, mem_gb=4,
         bounds="as c11-edge-nobu, after delete_edge(E0) under deferred deletion (E0's definition stays stored, flagged deleted) -- FAILS: notes/C11-findings.md F-C11-1"),
    dict(name="c11-edge-bu", harness="C11_construct.cpp", entries=["harness_c11_edge_bu"], units=CORE, unwind=30, checks="none", object_bits=13,
         shards={"quick": _c11_edge_bu([(B_LOWDIM, [0, 2]), (B_TET, [0, 1, 2, 3])]), "thorough": _c11_edge_bu([(B_LOWDIM, [0, 1, 2, 3]), (B_TET, [0, 1, 2, 3]), (B_TET2_FACE, [0, 1, 2, 3])])},
         timeout=300, mem_gb=4,
         bounds="add_edge(a,b,dup) with all bottom-up incidences on: EVERY ordered pair of live vertices a != b by symbolic selector (8 per query); cfg = dup x (nothing | E0 deleted before under deferred deletion); "
                "quick: B_LOWDIM (dup=false), B_TET (all cfg); thorough: + B_TET2_FACE, all cfg; " + _C11_OBS),
    # ---- add_face
    dict(name="c11-face-sym", harness="C11_construct.cpp", entries=["harness_c11_face_sym"], units=CORE, unwind=30, checks="none", object_bits=13,
         shards={"quick": [{0: b, 1: n} for b in (B_LOWDIM, B_TET, B_TET2_FACE) for n in range(1, 6)],
                 "thorough": [{0: b, 1: n} for b in (B_LOWDIM, B_TET, B_TET2_FACE, B_HEX, B_PRISM_PYR, B_TRI2) for n in range(1, 6)]}, timeout=300, mem_gb=4,
         bounds="add_face(list, topologyCheck=true), list length 1..5 (one per query), EVERY element a FREE symbolic halfedge of the base (all nHE^len lists: open, closed, repeated, both orientations, duplicate edges); "
                "edge bottom-up incidences disabled before the call (the accepted path indexes them with the symbolic handles); bases B_LOWDIM, B_TET, B_TET2_FACE (thorough: + B_HEX, B_PRISM_PYR, B_TRI2); " + _C11_OBS),
    dict(name="c11-face-sym-mem", harness="C11_construct.cpp", entries=["harness_c11_face_sym"], units=CORE, unwind=30, checks="mem", object_bits=13,
         shards={"quick": [{0: B_LOWDIM, 1: n} for n in (1, 2, 3)], "thorough": [{0: b, 1: n} for b in (B_LOWDIM, B_TET) for n in range(1, 6)]}, timeout={"quick": 300, "thorough": 1200}, mem_gb=5,
         bounds="as c11-face-sym with CBMC's pointer/bounds checks on every dereference (memory safety of accepted and rejected calls); quick: B_LOWDIM, lengths 1..3; thorough: B_LOWDIM, B_TET, lengths 1..5"),
    dict(name="c11-face-bu", harness="C11_construct.cpp", entries=["harness_c11_face_bu"], units=CORE, unwind=30, checks="none", object_bits=13,
         shards={"quick": _c11_face_bu(B_TET, 0) + _c11_face_bu(B_LOWDIM, 0) + _c11_face_bu(B_TET, 1, only_first_face=True),
                 "thorough": _c11_face_bu(B_TET, 0) + _c11_face_bu(B_LOWDIM, 0) + _c11_face_bu(B_TET, 1) + _c11_face_bu(B_LOWDIM, 1) + _c11_face_bu(B_HEX, 0)}, timeout=300, mem_gb=4,
         bounds="add_face(list, true) with ALL bottom-up incidences on, concrete lists by symbolic selector (8 per query): family 0 = for every face: every rotation of its halfedge list, every rotation of the opposite orientation, "
                "every list with one element dropped, first element doubled, single element; family 1 = for a face: every position replaced by EVERY halfedge of the mesh (quick: face 0 of B_TET; thorough: every face of B_TET, B_LOWDIM); " + _C11_OBS),
    # ---- add_cell
    dict(name="c11-cell-tet", harness="C11_construct.cpp", entries=["harness_c11_cell"], units=CORE, unwind=30, checks="none", object_bits=13,
         shards={"quick": _c11_cell(B_TET, 0) + _c11_cell(B_TET, 1) + _c11_cell(B_TET, 2, limit=16) + _c11_cell(B_TET, 3),
                 "thorough": _c11_cell(B_TET, 0) + _c11_cell(B_TET, 1) + _c11_cell(B_TET, 2) + _c11_cell(B_TET, 3)}, timeout=300, mem_gb=4,
         bounds="add_cell(list, topologyCheck=true) on B_TET, all bottom-up on, concrete halfface lists by symbolic selector (8 per query). V = halffaces of the tet (closed). family 0: V with EVERY position replaced by EVERY halfface (32 lists, "
                "incl. V itself and flipped faces); family 1: V minus one (missing face), V plus a doubled element, every rotation of V, V with all halffaces flipped (other orientation); family 2: every single halfface, "
                "ordered pairs (quick: pairs (0,y); thorough: all 64); family 3: both halffaces of f plus both of f' for all (f,f') (two disconnected closed 'pillow' surfaces; f=f' repeats halffaces). "
                "Symbolic list CONTENTS are intractable (measured: length 2, free symbolic halffaces, face bottom-up off: no verdict in 300 s -- the check copies the halfedge vector of a symbolically selected face); " + _C11_OBS),
    dict(name="c11-cell-tet2", harness="C11_construct.cpp", entries=["harness_c11_cell"], units=CORE, unwind=30, checks="none", object_bits=13, defines=["C11_PER=4"],
         shards={"quick": _c11_cell(B_TET2_FACE, 1, per=4), "thorough": _c11_cell(B_TET2_FACE, 1, per=4) + _c11_cell(B_TET2_FACE, 0, per=4) + _c11_cell(B_TET2_FACE, 3, per=4)}, timeout=300, mem_gb=4,
         bounds="add_cell(list, true) on B_TET2_FACE, V = the 6 outer halffaces of the two tets (closed surface of length 6), 4 lists per query: family 1 (missing/doubled/rotated/flipped; lengths 5, 6, 7); thorough: + family 0 (every position x every halfface), family 3; " + _C11_OBS),
    dict(name="c11-cell-big", harness="C11_construct.cpp", entries=["harness_c11_cell"], units=CORE, unwind=30, checks="none", object_bits=13, defines=["C11_PER=2"], tiers=["thorough"],
         shards=_c11_cell(B_HEX, 1, per=2) + _c11_cell(B_HEX, 0, per=2) + _c11_cell(B_PRISM_PYR, 1, per=2), timeout=900, mem_gb=6,
         bounds="add_cell(list, true) on B_HEX (V = 6 quads) families 0 and 1, B_PRISM_PYR (V = prism, 5 mixed faces) family 1; 2 lists per query; " + _C11_OBS),
    dict(name="c11-cell-dirs", harness="C11_cell_dirs.cpp", entries=["harness_c11_cell_dirs"], units=CORE, unwind=30, checks="none", object_bits=13,
         shards=[{0: k} for k in range(4)], timeout=300, mem_gb=3,
         bounds="add_cell(list, true) on ONE quad face whose 4 edges were each created along or against the loop direction (all 16 patterns by symbolic selector: the face's halfedge indices are any mix "
                "of even/odd), list = {hf0} | {hf1} (open: rejected, mesh unchanged) | {hf0,hf1} | {hf1,hf0} (closed pillow: accepted) -- acceptance must not depend on the numbering of the halfedges"),
    # ---- the empty list (covered by the property text: 'every argument list of live handles: empty, ...') -- FAILS: notes/C11-findings.md F-C11-2, F-C11-3
    dict(name="c11-empty", harness="C11_construct.cpp", entries=["harness_c11_empty_face", "harness_c11_empty_cell"], units=CORE, unwind=30, checks="mem", object_bits=13, tiers=["thorough"],
         shards=[{0: B_TET}], timeout=900, mem_gb=6,
         bounds="add_face({}, true) (edge bottom-up off) and add_cell({}, true) on B_TET with CBMC's pointer/bounds checks: no symbolic input. Thorough tier only: every failed pointer check is traced and replayed separately (~25 traces)"),
  ],
  assumptions=[
    "C11: TopologyKernel (polyhedral) only; the valence guards of TetrahedralMeshTopologyKernel/HexahedralMeshTopologyKernel are outside these jobs (units CORE)",
    "C11: argument handles are live (documented precondition, assert-ed in debug builds); add_edge with a == b is not exercised",
    "C11 add_cell: acceptance = multiset condition of the code's documented check (each halfedge of the listed halffaces occurs once and its opposite occurs too); connectedness of the surface is NOT required "
    "(two disjoint closed surfaces are accepted, family 3) -- this is the reading 'every halfedge is matched exactly once by its opposite' of the property text",
    "C11: list lengths: add_face 1..5, add_cell 1..7; length 0 only in job c11-empty (thorough)",
  ],
)
