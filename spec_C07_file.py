# C07 reader level (chunk readers through OVMVerifAccess; merged into PROPS["C07"] by the owner of spec_C07.py)
if "FILE_JOB" not in globals():
    import os as _os7
    _p7 = _os7.path.join(_os7.path.dirname(_os7.path.abspath(_f)), "spec_C18.py")
    exec(compile(open(_p7).read(), _p7, "exec"), globals())
C07_FILE_JOBS = [
    dict(name="reader-cell-chunk-sym", harness="C07_file.cpp", entries=["harness_cell_chunk_sym"], shards=[{1: 0}], timeout=600,
         bounds="reader state after VERT (4) + EDGES (6) + one accepted FACE chunk; CELL chunk with two SYMBOLIC 1-byte halfface handles and a SYMBOLIC 64-bit handle_offset (bottom-up incidences off as in the reader): "
                "no memory error; accepted => exactly one cell whose halfface handles are the file values + handle_offset and designate existing halffaces", **FILE_JOB),
    dict(name="reader-edge-chunk-enum", harness="C07_file.cpp", entries=["harness_edge_chunk_enum"], shards=[{1: 1, 2: b} for b in range(8)], timeout=300,
         bounds="read_topo_chunk on a one-edge TOPO chunk (U8 handles), 4 vertices read so far; the two vertex handle bytes a, b from {0, 3, 4, 255} and handle_offset from {0, 1, 4, 2^64-1}: all 64 "
                "combinations ENUMERATED through a symbolic selector (8 per query): accepted exactly when both a+handle_offset and b+handle_offset (mod 2^64) are < 4, then exactly one edge with those vertices; "
                "no memory error. (The variants with symbolic bytes/offset give no verdict: read_edges formats the symbolic handles into its error message.)", **FILE_JOB),
    dict(name="reader-edge-chunk", harness="C07_file.cpp", entries=["harness_edge_chunk"], shards=[{0: 1, 1: 1}, {0: 2, 1: 1}, {0: 4, 1: 1}], timeout=600, tiers=["thorough"],
         bounds="read_topo_chunk on a one-edge TOPO chunk, 4 vertices read so far: symbolic span.first, handle_encoding byte, handle_offset (64 bit) and handle bytes: "
                "no memory error; accepted => exactly one edge whose vertex handles are < 4", **FILE_JOB),
    dict(name="reader-face-then-cell", harness="C07_file.cpp", entries=["harness_face_then_cell"], shards=[{1: 1}, {1: 0}], timeout=900, tiers=["thorough"],
         bounds="reader state after VERT (4) + EDGES (6) of a tetrahedron; FACE chunk with one triangle of three SYMBOLIC 1-byte halfedge handles and symbolic 64-bit handle_offset, "
                "then a CELL chunk referring to halffaces 0,1 of that face; topology_check on / off: no memory error, faces counted as read == faces in the mesh, "
                "stored handles designate existing entities (a kernel-rejected add_face must not leave later handle validation too weak)", **FILE_JOB),
]
