#!/usr/bin/env python3
"""ovm-bmc: solver-based checking of the real OpenVolumeMesh code.

Pipeline (everything regenerated from /repo's working tree on every run):
  repo .cc units + harness + models --clang++-14 -O1 -emit-llvm--> bitcode --llvm-link/opt-->
  one module --ll2c--> C --goto-cc--> goto binary --cbmc (+SAT/SMT back end)--> per-property verdicts
  counterexample --trace--> nondet values --native g++/ASan build of the real sources--> replay.
See DESIGN.md.  Exit codes: 0 held on everything explored, 1 VIOLATION, 2 tool error.
"""
import os, sys, json, subprocess, hashlib, time, shutil, re, threading, resource, signal
import concurrent.futures as cf

VERIF = os.path.dirname(os.path.abspath(__file__))
REPO = os.environ.get("OVM_REPO", "/repo")
SRC = os.path.join(REPO, "src")
WORK = os.environ.get("OVM_WORK", os.path.join(VERIF, "work"))
NCPU = int(os.environ.get("OVM_JOBS", str(os.cpu_count() or 8)))
MEM_TOTAL_GB = float(os.environ.get("OVM_MEM_GB", "52"))
CLANG = "clang++-14"
CXXFLAGS = ["-std=c++17", "-O1", "-fno-vectorize", "-fno-slp-vectorize", "-fno-unroll-loops",
            "-DNDEBUG", "-DOVM_VERIF", "-Wno-everything"]

def log(*a):
    print(*a, file=sys.stderr, flush=True)

def run(cmd, **kw):
    return subprocess.run(cmd, stdout=subprocess.PIPE, stderr=subprocess.PIPE, text=True, **kw)

def sha(s):
    return hashlib.sha256(s.encode() if isinstance(s, str) else s).hexdigest()[:16]

# ----------------------------------------------------------------------------- config headers
def gen_config(dst):
    """Version.hh / DeprecationConfig.hh from the repository's .in templates, Export.hh as CMake's
    GenerateExportHeader writes it for the static library the test-suite builds."""
    cfg = os.path.join(dst, "OpenVolumeMesh", "Config")
    os.makedirs(cfg, exist_ok=True)
    top = open(os.path.join(REPO, "CMakeLists.txt")).read()
    m = re.search(r"VERSION\s+(\d+)\.(\d+)\.(\d+)", top)
    ver = m.groups() if m else ("0", "0", "0")
    t = open(os.path.join(SRC, "OpenVolumeMesh/Config/Version.hh.in")).read()
    t = (t.replace("@OpenVolumeMesh_VERSION@", ".".join(ver)).replace("@OpenVolumeMesh_VERSION_MAJOR@", ver[0])
          .replace("@OpenVolumeMesh_VERSION_MINOR@", ver[1]).replace("@OpenVolumeMesh_VERSION_PATCH@", ver[2]))
    _write_if_changed(os.path.join(cfg, "Version.hh"), t)
    t = open(os.path.join(SRC, "OpenVolumeMesh/Config/DeprecationConfig.hh.in")).read()
    t = re.sub(r"#cmakedefine01\s+(\w+)", r"#define \1 0", t)
    _write_if_changed(os.path.join(cfg, "DeprecationConfig.hh"), t)
    _write_if_changed(os.path.join(cfg, "Export.hh"),
        "#pragma once\n#define OVM_EXPORT\n#define OVM_NO_EXPORT\n"
        "#define CMAKE_OVM_DEPRECATED __attribute__((__deprecated__))\n"
        "#define CMAKE_OVM_DEPRECATED_EXPORT OVM_EXPORT CMAKE_OVM_DEPRECATED\n"
        "#define CMAKE_OVM_DEPRECATED_NO_EXPORT OVM_NO_EXPORT CMAKE_OVM_DEPRECATED\n")
    return dst

def _write_if_changed(p, t):
    if os.path.exists(p) and open(p).read() == t:
        return
    open(p, "w").write(t)

_tree_hash = None
def tree_hash():
    """content hash of every file under /repo/src: the key of the per-run bitcode cache (a cache hit is
    only possible when the whole source tree is byte-identical)."""
    global _tree_hash
    if _tree_hash is None:
        h = hashlib.sha256()
        h.update(repr(CXXFLAGS).encode())
        for d, dn, fn in sorted(os.walk(SRC)):
            dn.sort()
            for f in sorted(fn):
                p = os.path.join(d, f)
                h.update(p.encode()); h.update(open(p, "rb").read())
        extra = ["tools/ll2c.cpp"] + sorted("models/" + f for f in os.listdir(os.path.join(VERIF, "models"))) \
            + sorted("harness/" + f for f in os.listdir(os.path.join(VERIF, "harness")) if f.endswith(".h")) \
            + sorted("rt/" + f for f in os.listdir(os.path.join(VERIF, "rt")))
        for f in extra:
            p = os.path.join(VERIF, f)
            if os.path.exists(p): h.update(open(p, "rb").read())
        _tree_hash = h.hexdigest()[:16]
    return _tree_hash

# ----------------------------------------------------------------------------- build steps
_ll2c_lock = threading.Lock()
def ensure_ll2c():
    with _ll2c_lock:
        return _ensure_ll2c()

def _ensure_ll2c():
    out = os.path.join(VERIF, "build", "ll2c")
    src = os.path.join(VERIF, "tools", "ll2c.cpp")
    if os.path.exists(out) and os.path.getmtime(out) >= os.path.getmtime(src):
        return out
    os.makedirs(os.path.dirname(out), exist_ok=True)
    fl = subprocess.check_output(["llvm-config-14", "--cxxflags", "--ldflags", "--libs", "core", "irreader", "support"], text=True).split()
    tmp = out + ".tmp%d" % os.getpid()
    r = run([CLANG, "-O1", src] + fl + ["-o", tmp])
    if r.returncode != 0:
        log(r.stderr); raise SystemExit(2)
    os.replace(tmp, out)
    return out

class ToolError(Exception):
    pass

def compile_bc(src, out, inc, extra=()):
    cmd = [CLANG] + CXXFLAGS + list(extra) + ["-emit-llvm", "-c", src, "-o", out] + ["-I" + i for i in inc]
    r = run(cmd, cwd=os.path.dirname(src))
    if r.returncode != 0:
        raise ToolError("compile failed: %s\n%s" % (" ".join(cmd), r.stderr[-4000:]))
    return out

def unit_bc(unit, cachedir, inc):
    """bitcode of one of the repository's own translation units (unedited)."""
    src = os.path.join(SRC, "OpenVolumeMesh", unit)
    out = os.path.join(cachedir, unit.replace("/", "__") + ".bc")
    if not os.path.exists(out):
        compile_bc(src, out + ".tmp.bc", inc)
        os.replace(out + ".tmp.bc", out)
    return out

_build_lock = threading.Lock()
_unit_locks = {}

_pregen_lock = threading.Lock()

def run_pregen(job, cachedir, cfg):
    """optional job key pregen=[generator sources relative to /verif]: each generator is compiled NATIVELY (g++, no sanitizers)
    against the repository's current sources (job key pregen_units, default: the job's units) and run with one argument, the
    output directory <cfg>/gen, which is on the include path of both the symbolic and the native harness build
    (harnesses write #include "gen/<file>").  cachedir is keyed by tree_hash(), so the step re-runs whenever /repo/src changes;
    a stamp keyed by the generator source re-runs it when the generator changes.  Nothing is written outside WORK.
    -> string that becomes part of the job's cache key"""
    gens = job.get("pregen") or []
    if not gens:
        return ""
    keypart = ""
    outdir = os.path.join(cfg, "gen")
    units = job.get("pregen_units", job.get("units", []))
    with _pregen_lock:
        os.makedirs(outdir, exist_ok=True)
        for g in gens:
            gsrc = os.path.join(VERIF, g)
            gkey = sha(open(gsrc, "rb").read().decode() + repr(units))
            keypart += gkey
            stamp = os.path.join(outdir, os.path.basename(g) + ".stamp")
            if os.path.exists(stamp) and open(stamp).read() == gkey:
                continue
            gd = os.path.join(cachedir, "pregen-" + gkey)
            os.makedirs(gd, exist_ok=True)
            inc = ["-I" + SRC, "-I" + cfg, "-I" + os.path.join(VERIF, "harness")]
            fl = ["-std=c++17", "-O1", "-DNDEBUG", "-DOVM_VERIF", "-w"]
            srcs = [os.path.join(SRC, "OpenVolumeMesh", u) for u in units] + [gsrc]
            def cc(s_):
                o = os.path.join(gd, sha(s_) + ".o")
                if not os.path.exists(o):
                    r = run(["g++"] + fl + inc + ["-c", s_, "-o", o + ".tmp.o"], cwd=os.path.dirname(s_))
                    if r.returncode != 0:
                        raise ToolError("pregen compile failed: " + r.stderr[-3000:])
                    os.replace(o + ".tmp.o", o)
                return o
            with cf.ThreadPoolExecutor(max_workers=8) as ex:
                objs = list(ex.map(cc, srcs))
            exe = os.path.join(gd, "gen")
            r = run(["g++"] + objs + ["-o", exe])
            if r.returncode != 0:
                raise ToolError("pregen link failed: " + r.stderr[-3000:])
            r = run([exe, outdir])
            if r.returncode != 0:
                raise ToolError("pregen run failed (%s): %s" % (g, (r.stdout + r.stderr)[-3000:]))
            open(stamp, "w").write(gkey)
    return keypart

def build_job(job, tier):
    """-> path of the goto binary (without runtime) for this job; also .c and meta"""
    th = tree_hash()
    cachedir = os.path.join(WORK, "cache-" + th)
    os.makedirs(cachedir, exist_ok=True)
    cfg = gen_config(os.path.join(cachedir, "cfg"))
    inc = [SRC, cfg, os.path.join(VERIF, "harness")]
    hsrc = os.path.join(VERIF, "harness", job["harness"])
    defs = ["-D" + d for d in job.get("defines", [])]
    key = sha(open(hsrc, "rb").read().decode() + repr(sorted(job.get("defines", []))) + repr(job.get("units")) +
              repr(job.get("eh")) + repr(job.get("entries")) + repr(job.get("ll2c_flags")) + repr(job.get("models", True)) +
              (repr(job.get("extra_models")) if job.get("extra_models") else "") + (repr(job.get("drop_functions")) if job.get("drop_functions") else "") +
              run_pregen(job, cachedir, cfg))
    jd = os.path.join(cachedir, "job-%s-%s" % (job["name"], key))
    gb = os.path.join(jd, "job.gb")
    if os.path.exists(gb):
        return jd
    os.makedirs(jd, exist_ok=True)
    bcs = []
    for u in job.get("units", []):
        with _build_lock:
            lk = _unit_locks.setdefault(u, threading.Lock())
        with lk:
            bcs.append(unit_bc(u, cachedir, inc))
    if job.get("models", True):
        with _build_lock:
            lk = _unit_locks.setdefault("@models", threading.Lock())
        with lk:
            mo = os.path.join(cachedir, "models.bc")
            if not os.path.exists(mo):
                compile_bc(os.path.join(VERIF, "models", "models.cpp"), mo + ".tmp.bc", inc)
                os.replace(mo + ".tmp.bc", mo)
        bcs.append(mo)
    for em in job.get("extra_models") or []:   # optional job key: further model files under /verif/models (e.g. stream_model.cpp)
        with _build_lock:
            lk = _unit_locks.setdefault("@models/" + em, threading.Lock())
        with lk:
            mo = os.path.join(cachedir, "models-" + em.replace("/", "__") + ".bc")
            if not os.path.exists(mo):
                compile_bc(os.path.join(VERIF, "models", em), mo + ".tmp.bc", inc)
                os.replace(mo + ".tmp.bc", mo)
        bcs.append(mo)
    hbc = compile_bc(hsrc, os.path.join(jd, "harness.bc"), inc, defs)
    allbc = os.path.join(jd, "all.bc")
    r = run(["llvm-link-14", hbc] + bcs + ["-o", allbc])
    if r.returncode != 0:
        raise ToolError("llvm-link: " + r.stderr[-3000:])
    if job.get("drop_functions"):
        # optional job key: bodies of the named IR functions are deleted before dead-code elimination (used to leave out a unit's
        # static initialiser, e.g. _GLOBAL__sub_I_PropertyCodecs.cc which instantiates all 30 default codecs x 7 entity kinds;
        # the globals it would initialise must then not be used by the harness -- stated in the job's bounds/assumptions)
        cut = os.path.join(jd, "cut.bc")
        r = run(["llvm-extract-14", "--delete"] + ["--func=" + f for f in job["drop_functions"]] + [allbc, "-o", cut])
        if r.returncode != 0:
            raise ToolError("llvm-extract: " + r.stderr[-3000:])
        allbc = cut
    red = os.path.join(jd, "red.bc")
    passes = ["-internalize", "-internalize-public-api-list=" + ",".join(job["entries"]), "-globaldce", "-lower-expect"]
    if not job.get("keep_atomics"):
        passes.append("-loweratomic")
    r = run(["opt-14", "-enable-new-pm=0"] + passes + [allbc, "-o", red])
    if r.returncode != 0:
        raise ToolError("opt: " + r.stderr[-3000:])
    cfile = os.path.join(jd, "job.c")
    flags = (["--eh"] if job.get("eh") else []) + list(job.get("ll2c_flags", []))
    r = run([ensure_ll2c()] + flags + [red])
    open(os.path.join(jd, "ll2c.log"), "w").write(r.stderr)
    if r.returncode != 0:
        raise ToolError("ll2c: " + r.stderr[-3000:])
    bad = [l for l in r.stderr.splitlines() if l.startswith("unsupported") or l.startswith("unknown") or l.startswith("bad ") or "unnamed value" in l]
    if bad:
        raise ToolError("ll2c reported unsupported constructs in %s:\n%s" % (job["name"], "\n".join(bad[:20])))
    open(cfile, "w").write(r.stdout)
    r = run(["goto-cc", "-I", os.path.join(VERIF, "rt"), "-c", cfile, "-o", gb + ".tmp"])
    if r.returncode != 0:
        raise ToolError("goto-cc: " + (r.stderr + r.stdout)[-3000:])
    os.replace(gb + ".tmp", gb)
    return jd

def link_shard(jd, job, params):
    tag = "_".join("%d-%d" % (k, v) for k, v in sorted(params.items())) or "p"
    out = os.path.join(jd, "shard-%s.gb" % tag)
    with _build_lock:
        lk = _unit_locks.setdefault(out, threading.Lock())
    with lk:
        return _link_shard_locked(jd, job, params, out)

def _link_shard_locked(jd, job, params, out):
    if os.path.exists(out):
        return out
    defs = ["-DV_PARAM%d=%d" % (k, v) for k, v in params.items()]
    if job.get("eh"):
        defs.append("-DV_EH")
    defs += ["-D" + d for d in job.get("rt_defines", [])]
    rts = [os.path.join(VERIF, "rt", "rt.c")] + [os.path.join(VERIF, "rt", f) for f in job.get("rt_extra", [])]
    r = run(["goto-cc", "-I", os.path.join(VERIF, "rt")] + defs + [os.path.join(jd, "job.gb")] + rts + ["-o", out + ".tmp"])
    if r.returncode != 0:
        raise ToolError("goto-cc link: " + (r.stderr + r.stdout)[-3000:])
    os.replace(out + ".tmp", out)
    return out

# ----------------------------------------------------------------------------- cbmc
SOLVER_FLAGS = {
    "minisat": [], "cadical": ["--sat-solver", "cadical"], "kissat": ["--external-sat-solver", "kissat"],
    "cvc5": ["--cvc5"], "z3": ["--z3"],
}

def cbmc_cmd(gb, entry, job, solver, extra=()):
    cmd = ["cbmc", gb, "--function", entry, "--json-ui", "--verbosity", "8", "--no-standard-checks",
           "--unwind", str(job.get("unwind", 8)), "--unwinding-assertions",
           "--object-bits", str(job.get("object_bits", 12)), "--drop-unused-functions"]
    if job.get("slice", True):
        cmd.append("--slice-formula")
    for us in job.get("unwindset", []):
        cmd += ["--unwindset", us]
    if job.get("checks") == "mem":
        cmd += ["--bounds-check", "--pointer-check"]
    cmd += list(job.get("cbmc_flags", []))   # optional job key: further cbmc options (e.g. --max-field-sensitivity-array-size 512)
    cmd += SOLVER_FLAGS[solver]
    cmd += list(extra)
    return cmd

def _limit(mem_gb):
    def f():
        os.setsid()
        b = int(mem_gb * (1 << 30))
        resource.setrlimit(resource.RLIMIT_AS, (b, b))
    return f

def run_cbmc_once(cmd, timeout, mem_gb, env=None):
    t0 = time.time()
    p = subprocess.Popen(cmd, stdout=subprocess.PIPE, stderr=subprocess.PIPE, text=True, preexec_fn=_limit(mem_gb), env=env)
    try:
        out, err = p.communicate(timeout=timeout)
        status = "done"
    except subprocess.TimeoutExpired:
        try: os.killpg(p.pid, signal.SIGKILL)
        except Exception: pass
        out, err = p.communicate()
        status = "timeout"
    ru = resource.getrusage(resource.RUSAGE_CHILDREN)
    return dict(status=status, out=out, err=err, rc=p.returncode, wall=time.time() - t0, maxrss_mb=ru.ru_maxrss // 1024)

def parse_cbmc(out):
    """-> dict(results=[{property,description,status,function}], stats, error)"""
    res = dict(results=[], messages=[], error=None, verdict=None)
    try:
        data = json.loads(out)
    except Exception:
        # truncated output (killed): try to salvage
        res["error"] = "unparsable cbmc output"
        return res
    for el in data:
        if "result" in el:
            for r in el["result"]:
                res["results"].append(dict(property=r.get("property"), description=r.get("description", ""), status=r.get("status"),
                                           function=(r.get("sourceLocation") or {}).get("function", ""), trace=r.get("trace")))
        if "cProverStatus" in el:
            res["verdict"] = el["cProverStatus"]
        if el.get("messageType") == "ERROR":
            res["error"] = (res["error"] or "") + el.get("messageText", "") + "\n"
        if el.get("messageType") == "STATUS-MESSAGE":
            res["messages"].append(el.get("messageText", ""))
    return res

def stats_from_messages(msgs):
    st = {}
    for m in msgs:
        mm = re.search(r"(\d+) variables, (\d+) clauses", m)
        if mm: st["variables"] = int(mm.group(1)); st["clauses"] = int(mm.group(2))
        mm = re.search(r"Generated (\d+) VCC\(s\), (\d+) remaining", m)
        if mm: st["vccs"] = int(mm.group(1)); st["vccs_remaining"] = int(mm.group(2))
        mm = re.search(r"Runtime Symex: ([\d.e+-]+)s", m)
        if mm: st["symex_s"] = float(mm.group(1))
        mm = re.search(r"Runtime Solver: ([\d.e+-]+)s", m)
        if mm: st["solver_s"] = st.get("solver_s", 0) + float(mm.group(1))
        mm = re.search(r"Runtime decision procedure: ([\d.e+-]+)s", m)
        if mm: st["decision_s"] = float(mm.group(1))
        mm = re.search(r"size of program expression: (\d+) steps", m)
        if mm: st["steps"] = int(mm.group(1))
    return st

def extract_nondets(trace):
    """nondet values in call order: rt.c logs every v_nondet_* result into v_trace_vals[k]; the (unsliced) trace contains
    one assignment per logged value."""
    vals = {}
    def num(v):
        d = v.get("data")
        if d is None: d = v.get("binary")
        if isinstance(d, str):
            if d in ("TRUE", "true"): return 1
            if d in ("FALSE", "false"): return 0
            try: return int(d)
            except ValueError:
                try: return int(v.get("binary", "0"), 2)
                except Exception: return 0
        return int(d or 0)
    for s in trace or []:
        if s.get("stepType") != "assignment": continue
        m = re.match(r"v_trace_vals\[(\d+)l*\]$", s.get("lhs", "") or "")
        if m:
            vals[int(m.group(1))] = num(s.get("value", {})) & ((1 << 64) - 1)
    if not vals:
        return []
    return [vals.get(k, 0) for k in range(max(vals) + 1)]

# ----------------------------------------------------------------------------- native replay
_native_lock = threading.Lock()

def build_native(job, tier, sanitize=True):
    """g++ build of the harness against the REAL sources (no translation involved); ASan+UBSan for counterexample replay,
    plain -O1 for translation validation. Unit objects are cached per source-tree hash and shared by all jobs."""
    th = tree_hash()
    cachedir = os.path.join(WORK, "cache-" + th)
    cfg = gen_config(os.path.join(cachedir, "cfg"))
    hsrc = os.path.join(VERIF, "harness", job["harness"])
    os.makedirs(cachedir, exist_ok=True)
    san = ["-fsanitize=address,undefined", "-fno-sanitize=vptr", "-fno-sanitize-recover=undefined"] if sanitize else []   # vptr check off: OVM's Tracked<> downcasts in its base constructor (benign, aborts every property-creating replay)
    fl = ["-std=c++17", "-O1", "-g", "-fno-omit-frame-pointer"] + san + ["-DNDEBUG", "-DOVM_VERIF", "-DV_NATIVE", "-w"] + list(job.get("native_flags", []))
    key = sha(open(hsrc, "rb").read().decode() + repr(sorted(job.get("defines", []))) + repr(job.get("units")) + run_pregen(job, cachedir, cfg) + repr(fl))
    nd = os.path.join(cachedir, "native-%s-%s" % (job["name"], key))
    od = os.path.join(cachedir, "nobj-" + sha(repr(fl)))
    exe = os.path.join(nd, "replay")
    inc = ["-I" + SRC, "-I" + cfg, "-I" + os.path.join(VERIF, "harness")]
    def cc_unit(u):
        o = os.path.join(od, u.replace("/", "__") + ".o")
        with _build_lock:
            lk = _unit_locks.setdefault(o, threading.Lock())
        with lk:
            if not os.path.exists(o):
                src = os.path.join(SRC, "OpenVolumeMesh", u)
                r = run(["g++"] + fl + inc + ["-c", src, "-o", o + ".tmp.o"], cwd=os.path.dirname(src))
                if r.returncode != 0:
                    raise ToolError("native compile failed: " + r.stderr[-3000:])
                os.replace(o + ".tmp.o", o)
        return o
    with _build_lock:
        lk = _unit_locks.setdefault(exe, threading.Lock())
    with lk:
        if os.path.exists(exe):
            return exe
        os.makedirs(nd, exist_ok=True); os.makedirs(od, exist_ok=True)
        with cf.ThreadPoolExecutor(max_workers=8) as ex:
            objs = list(ex.map(cc_unit, job.get("units", [])))
        for s_ in (hsrc, os.path.join(VERIF, "rt", "rt_native.cpp")):
            o = os.path.join(nd, sha(s_) + ".o")
            r = run(["g++"] + fl + inc + ["-D" + d for d in job.get("defines", [])] + ["-c", s_, "-o", o], cwd=os.path.dirname(s_))
            if r.returncode != 0:
                raise ToolError("native compile failed: " + r.stderr[-3000:])
            objs.append(o)
        r = run(["g++"] + san + ["-rdynamic"] + objs + ["-ldl", "-o", exe + ".tmp"])
        if r.returncode != 0:
            raise ToolError("native link failed: " + r.stderr[-3000:])
        os.replace(exe + ".tmp", exe)
    return exe

def build_gen_native(job, jd, entry):
    """gcc build of the GENERATED C (the translator's output) with the native runtime."""
    exe = os.path.join(jd, "gen_native_" + entry)
    with _build_lock:
        lk = _unit_locks.setdefault(exe, threading.Lock())
    with lk:
        if os.path.exists(exe):
            return exe
        defs = ["-DV_NATIVE", "-DV_ENTRY_FN=" + entry] + (["-DV_EH"] if job.get("eh") else [])
        r = run(["gcc", "-O0", "-w"] + defs + ["-I", os.path.join(VERIF, "rt"), os.path.join(jd, "job.c"), os.path.join(VERIF, "rt", "rt_gen_native.c"),
                 "-lstdc++", "-lm", "-o", exe + ".tmp"])
        if r.returncode != 0:
            raise ToolError("gcc on generated C failed: " + r.stderr[-2000:])
        os.replace(exe + ".tmp", exe)
    return exe

def _norm_log(out):
    keep = []
    for l in out.splitlines():
        if l.startswith(("ASSERT-OK", "ASSERT-FAIL", "WITNESS", "ASSUME-FALSE", "UNCAUGHT", "DONE")):
            keep.append(re.sub(r"\s+$", "", l))
    return keep

def translation_validate(job, jd, entry, params, seed, nvec):
    """Serval-style safeguard: the same value vectors through (a) the harness compiled by g++ against the real sources and
    (b) the translator's C compiled by gcc; the recorded (assertion, outcome) traces must be identical."""
    import random
    rnd = random.Random(seed * 7919 + hash(job["name"] + entry) % 100003)
    exe_real = build_native(job, "quick", sanitize=False)
    exe_gen = build_gen_native(job, jd, entry)
    res = dict(programs=0, disagreements=[], samples=[])
    for k in range(nvec):
        if k == 0: vals = [0] * 48
        elif k == 1: vals = [1] * 48
        else: vals = [rnd.choice([0, 1, 2, 3, 4, 5, 6, 7, rnd.randrange(0, 12), rnd.randrange(0, 1 << 32)]) for _ in range(48)]
        a = native_run(exe_real, entry, params, vals, timeout=120)
        env = dict(os.environ); env["V_VALUES"] = ",".join(str(v) for v in vals)
        for kk, vv in params.items(): env["V_PARAM%d" % kk] = str(vv)
        try:
            b = subprocess.run([exe_gen], stdout=subprocess.PIPE, stderr=subprocess.PIPE, text=True, env=env, timeout=120)
            bout, brc = b.stdout, b.returncode
        except subprocess.TimeoutExpired:
            bout, brc = "TIMEOUT", -999
        la, lb = _norm_log(a["out"]), _norm_log(bout)
        res["programs"] += 1
        early = any(l.startswith(("ASSUME-FALSE", "UNCAUGHT")) for l in la + lb) or a["rc"] not in (0, 1) or brc not in (0, 1)
        ca = [l for l in la if l.startswith(("ASSERT", "WITNESS"))]; cb = [l for l in lb if l.startswith(("ASSERT", "WITNESS"))]
        if early:   # a path ended by assume(false) / a throw in a job without exception modelling: compare the common prefix
            n = min(len(ca), len(cb)); ca, cb = ca[:n], cb[:n]
        def _same(x, y):
            # same kind of event; texts equal unless the translator could not recover a constant message (clang merged two call sites)
            kx, _, tx = x.partition(": "); ky, _, ty = y.partition(": ")
            return kx == ky and (tx == ty or tx == "harness property" or ty == "harness property" or kx == "WITNESS" and (tx == "w" or ty == "w"))
        if len(ca) != len(cb) or not all(_same(x, y) for x, y in zip(ca, cb)):
            res["disagreements"].append(dict(values=vals[:16], real=la[-3:], generated=lb[-3:], real_rc=a["rc"], gen_rc=brc))
        if len(res["samples"]) < 2:
            res["samples"].append(dict(values=vals[:12], trace_len=len(la), last=la[-1:] ))
    return res

def native_run(exe, entry, params, vals, timeout=60):
    env = dict(os.environ)
    env["V_ENTRY"] = entry
    for k, v in params.items():
        env["V_PARAM%d" % k] = str(v)
    env["V_VALUES"] = ",".join(str(v) for v in vals)
    env["ASAN_OPTIONS"] = "detect_leaks=0:abort_on_error=0:exitcode=77"
    env["UBSAN_OPTIONS"] = "halt_on_error=1:exitcode=78"
    try:
        r = subprocess.run([exe], stdout=subprocess.PIPE, stderr=subprocess.PIPE, text=True, env=env, timeout=timeout)
        return dict(rc=r.returncode, out=r.stdout, err=r.stderr[-6000:], timeout=False)
    except subprocess.TimeoutExpired as e:
        return dict(rc=-999, out=(e.stdout or b"").decode(errors="replace") if isinstance(e.stdout, bytes) else (e.stdout or ""), err="TIMEOUT", timeout=True)

def reproduces(nr, desc):
    """does the native run show the failure CBMC reported?"""
    if nr["timeout"]:
        return "unwinding" in desc or "termination" in desc
    if "ASSERT-FAIL" in nr["out"]:
        return True
    if nr["rc"] in (77, 78) or nr["rc"] < 0 or "AddressSanitizer" in nr["err"] or "runtime error" in nr["err"]:
        return True
    return False

# ----------------------------------------------------------------------------- scheduling
class MemSched:
    def __init__(self, total, ncpu):
        self.total = total; self.used = 0.0; self.n = 0; self.ncpu = ncpu
        self.cv = threading.Condition()
    def acquire(self, gb, cpus=1):
        with self.cv:
            while (self.used + gb > self.total and self.n > 0) or self.n + cpus > self.ncpu and self.n > 0:
                self.cv.wait()
            self.used += gb; self.n += cpus
    def release(self, gb, cpus=1):
        with self.cv:
            self.used -= gb; self.n -= cpus
            self.cv.notify_all()

SCHED = MemSched(MEM_TOTAL_GB, NCPU)

def is_witness(r):
    return r["description"].startswith("WITNESS")

def is_unwind(r):
    return "unwinding assertion" in r["description"] or ".unwind." in (r["property"] or "")

def run_shard(job, tier, entry, params, jd):
    """one solver query (or a portfolio racing on the same query). -> shard result dict"""
    name = "%s/%s%s" % (job["name"], entry, "".join("/p%d=%d" % kv for kv in sorted(params.items())))
    res = dict(name=name, job=job["name"], entry=entry, params=params, status=None)
    timeout = job.get("timeout", {}).get(tier, 600 if tier == "quick" else 3600) if isinstance(job.get("timeout"), dict) else job.get("timeout", 600 if tier == "quick" else 3600)
    if os.environ.get("OVM_TIMEOUT"): timeout = int(os.environ["OVM_TIMEOUT"])
    mem = job.get("mem_gb", 6)
    solvers = job.get("solvers", ["minisat"])
    SCHED.acquire(mem, len(solvers))
    try:
        gb = link_shard(jd, job, params)
        if len(solvers) == 1:
            r = run_cbmc_once(cbmc_cmd(gb, entry, job, solvers[0]), timeout, job.get("mem_limit_gb", max(3 * mem, 10)))   # mem_gb = scheduling weight, limit is separate
            r["solver"] = solvers[0]
        else:
            r = race(gb, entry, job, solvers, timeout, job.get("mem_limit_gb", max(3 * mem, 10)))
    finally:
        SCHED.release(mem, len(solvers))
    res["wall_s"] = round(r["wall"], 2); res["solver"] = r.get("solver"); res["rss_mb"] = r.get("maxrss_mb")
    if r["status"] == "timeout":
        res["status"] = "timeout"; return res
    pr = parse_cbmc(r["out"])
    res.update(stats_from_messages(pr["messages"]))
    if pr["verdict"] is None:
        oom = r["rc"] in (-9, -6, 134, 137) or "bad_alloc" in r["err"] or "Out of memory" in r["err"] or "std::bad_alloc" in (pr["error"] or "") or "out of memory" in (pr["error"] or "")
        res["status"] = "oom" if oom else "error"
        res["detail"] = ((pr["error"] or "") + r["err"][-1500:] + r["out"][-1500:])
        return res
    results = pr["results"]
    wit = [x for x in results if is_witness(x)]
    res["witness_total"] = len(wit)
    res["witness_reached"] = sorted(x["description"] for x in wit if x["status"] == "FAILURE")
    res["witness_unreached"] = sorted(x["description"] for x in wit if x["status"] != "FAILURE")
    res["properties"] = len([x for x in results if not is_witness(x)])
    failed = [x for x in results if x["status"] == "FAILURE" and not is_witness(x)]
    res["failed"] = [dict(property=x["property"], description=x["description"], function=x["function"]) for x in failed]
    unknown = [x for x in results if x["status"] not in ("SUCCESS", "FAILURE")]
    res["unknown"] = len(unknown)
    if unknown and not failed:
        res["status"] = "error"; res["detail"] = "property status " + unknown[0]["status"]; return res
    res["status"] = "failed" if failed else "ok"
    res["gb"] = gb
    return res

def race(gb, entry, job, solvers, timeout, mem):
    """back-end portfolio: same query on several back ends, first verdict wins."""
    procs = []
    t0 = time.time()
    for s in solvers:
        p = subprocess.Popen(cbmc_cmd(gb, entry, job, s), stdout=subprocess.PIPE, stderr=subprocess.PIPE, text=True, preexec_fn=_limit(mem))
        procs.append((s, p))
    outs = {}
    def reader(s, p):
        o, e = p.communicate()
        outs[s] = (o, e, p.returncode)
    ths = [threading.Thread(target=reader, args=sp, daemon=True) for sp in procs]
    for t in ths: t.start()
    winner = None
    while time.time() - t0 < timeout:
        for s, p in procs:
            if s in outs:
                o, e, rc = outs[s]
                pr = parse_cbmc(o)
                if pr["verdict"] is not None and not any(x["status"] not in ("SUCCESS", "FAILURE") for x in pr["results"]):
                    winner = s; break
        if winner or len(outs) == len(procs):
            break
        time.sleep(0.2)
    for s, p in procs:
        if p.poll() is None:
            try: os.killpg(p.pid, signal.SIGKILL)
            except Exception: pass
    for t in ths: t.join(5)
    if winner is None:
        for s in solvers:
            if s in outs and parse_cbmc(outs[s][0])["verdict"] is not None:
                winner = s
    if winner is None:
        if time.time() - t0 >= timeout:
            return dict(status="timeout", out="", err="", rc=-1, wall=time.time() - t0, maxrss_mb=0)
        s = solvers[0]
        o, e, rc = outs.get(s, ("", "", -1))
        return dict(status="done", out=o, err=e, rc=rc, wall=time.time() - t0, maxrss_mb=0, solver=s)
    o, e, rc = outs[winner]
    return dict(status="done", out=o, err=e, rc=rc, wall=time.time() - t0, maxrss_mb=resource.getrusage(resource.RUSAGE_CHILDREN).ru_maxrss // 1024, solver=winner)

def get_trace(job, tier, shard, prop):
    timeout = 900
    mem = max(job.get("mem_gb", 6), 8)
    tjob = dict(job); tjob["slice"] = False   # the unsliced trace contains every logged nondet value
    cmd = cbmc_cmd(shard["gb"], shard["entry"], tjob, "minisat" if shard.get("solver") in (None, "cvc5", "z3") else shard["solver"], ["--trace", "--property", prop, "--stop-on-fail"])
    r = run_cbmc_once(cmd, timeout, mem)
    pr = parse_cbmc(r["out"])
    for x in pr["results"]:
        if x["property"] == prop and x.get("trace"):
            return x["trace"]
    # some cbmc versions put the trace in a top-level element when --stop-on-fail is given
    try:
        for el in json.loads(r["out"]):
            if "trace" in el: return el["trace"]
            for rr in el.get("result", []) if isinstance(el, dict) else []:
                if rr.get("trace"): return rr["trace"]
    except Exception:
        pass
    return None

# ----------------------------------------------------------------------------- known findings
def load_known():
    p = os.path.join(VERIF, "known_findings.json")
    if not os.path.exists(p):
        return []
    return json.load(open(p)).get("findings", [])

def match_known(known, prop_id, shard, desc):
    for k in known:
        if k.get("status") != "known" or k.get("property") != prop_id:
            continue
        if k.get("job") and k["job"] != shard["job"]: continue
        if k.get("entry") and k["entry"] != shard["entry"]: continue
        if "params" in k and {int(a): b for a, b in k["params"].items()} != shard["params"]: continue
        if k.get("assertion") and k["assertion"] not in desc: continue
        return k
    return None

# ----------------------------------------------------------------------------- main per property
def check_property(prop_id, tier, spec, seed):
    t0 = time.time()
    jobs = [j for j in spec["jobs"] if tier in j.get("tiers", ["quick", "thorough"])]
    known = load_known()
    shards = []
    tool_errors = []
    built = {}
    lock = threading.Lock()
    def do_build(j):
        try:
            return j["name"], build_job(j, tier)
        except ToolError as e:
            return j["name"], e
    with cf.ThreadPoolExecutor(max_workers=min(NCPU, 8)) as ex:
        for name, jd in ex.map(do_build, jobs):
            built[name] = jd
    tasks = []
    for j in jobs:
        jd = built[j["name"]]
        if isinstance(jd, Exception):
            tool_errors.append("%s: build: %s" % (j["name"], jd)); continue
        for entry in j["entries"]:
            plist = j.get("shards", {}).get(tier) if isinstance(j.get("shards"), dict) else j.get("shards")
            if callable(plist): plist = plist(entry)
            for params in (plist or [{}]):
                tasks.append((j, entry, dict(params), jd))
    violations = []; known_hits = []; not_covered = []
    tv_total = dict(programs=0, disagreements=[], samples=[], jobs=0)
    tv_tasks = []
    if os.environ.get("OVM_NO_TV") != "1":
        seen_jobs = set()
        for (j, e, p, jd) in tasks:
            if j["name"] in seen_jobs or j.get("no_tv"): continue
            seen_jobs.add(j["name"]); tv_tasks.append((j, e, p, jd))
        if tier == "quick": tv_tasks = tv_tasks[:2]
    with cf.ThreadPoolExecutor(max_workers=NCPU) as ex:
        tv_futs = {ex.submit(translation_validate, j, jd, e, p, seed, 4 if tier == "quick" else 12): (j, e, p) for (j, e, p, jd) in tv_tasks}
        futs = {ex.submit(run_shard, j, tier, e, p, jd): (j, e, p) for (j, e, p, jd) in tasks}
        for f in cf.as_completed(tv_futs):
            j, e, p = tv_futs[f]
            try:
                r = f.result()
            except Exception as ex_:
                tool_errors.append("%s/%s: translation validation could not run: %s" % (j["name"], e, str(ex_)[:500])); continue
            tv_total["programs"] += r["programs"]; tv_total["jobs"] += 1
            tv_total["samples"] += [dict(job=j["name"], entry=e, **x) for x in r["samples"][:1]]
            for d in r["disagreements"]:
                tv_total["disagreements"].append(dict(job=j["name"], entry=e, params=p, **d))
                tool_errors.append("%s/%s: TRANSLATION-MISMATCH real sources vs generated C on values %s: real=%s generated=%s" % (j["name"], e, d["values"], d["real"], d["generated"]))
            log("  [%s] translation validation %s/%s: %d vectors, %d disagreements" % (prop_id, j["name"], e, r["programs"], len(r["disagreements"])))
        for f in cf.as_completed(futs):
            j, e, p = futs[f]
            try:
                s = f.result()
            except ToolError as ex_:
                tool_errors.append("%s/%s: %s" % (j["name"], e, ex_)); continue
            shards.append(s)
            log("  [%s] %-60s %-8s %6.1fs %s" % (prop_id, s["name"], s["status"], s.get("wall_s", 0),
                ("wit %d/%d" % (len(s.get("witness_reached", [])), s.get("witness_total", 0))) if s["status"] in ("ok", "failed") else s.get("detail", "")[:300]))
    jobmap = {j["name"]: j for j in jobs}
    def _process_shard(s):
        j = jobmap[s["job"]]
        if s["status"] in ("timeout", "oom"):
            not_covered.append("%s (%s after %.0fs)" % (s["name"], s["status"], s.get("wall_s", 0)))
            return
        if s["status"] == "error":
            tool_errors.append("%s: %s" % (s["name"], s.get("detail", "")[:2000])); return
        # per-case completion witnesses ("case returned" in CaseW<I>::run): every dispatched case must complete normally
        case_unreached = [w for w in s["witness_unreached"] if w.startswith("WITNESS:case returned")]
        for w in case_unreached[:2]:
            mm = re.search(r"ILj(\d+)E", w)
            if not mm:
                tool_errors.append("%s: VACUOUS case witness %s" % (s["name"], w)); continue
            ci = int(mm.group(1))
            try:
                exe = build_native(j, tier)
            except ToolError as e_:
                tool_errors.append("%s: %s" % (s["name"], e_)); continue
            vals = [ci] + [0] * 40
            nr = native_run(exe, s["entry"], s["params"], vals, timeout=120)
            desc = "dispatched case %d does not complete normally (all its paths are cut in symbolic execution)" % ci
            rdir = os.path.join(VERIF, "replays", prop_id); os.makedirs(rdir, exist_ok=True)
            rpath = os.path.join(rdir, re.sub(r"[^A-Za-z0-9_.=-]", "_", s["name"] + "__case%d" % ci) + ".json")
            json.dump(dict(property=prop_id, job=s["job"], harness=j["harness"], entry=s["entry"], params=s["params"], nondet_values=vals, cbmc_property=w, assertion=desc,
                           native=dict(rc=nr["rc"], out=nr["out"][-3000:], err=nr["err"][-3000:]), units=j.get("units", []), defines=j.get("defines", [])), open(rpath, "w"), indent=1)
            if nr["timeout"] or nr["rc"] in (77, 78) or nr["rc"] < 0 or "AddressSanitizer" in nr["err"] or "runtime error" in nr["err"] or "ASSERT-FAIL" in nr["out"]:
                k = match_known(known, prop_id, s, desc)
                if k: known_hits.append((k, s, desc))
                else: violations.append((s, desc + "; native run: rc=%s %s" % (nr["rc"], (nr["err"] or "").strip().splitlines()[-1:] ), rpath))
            else:
                tool_errors.append("%s: VACUOUS - %s, but the native run of that case is clean (values %s)" % (s["name"], desc, vals[:4]))
        if j.get("witness_any"):
            if not [w for w in s["witness_reached"] if not w.startswith("WITNESS:case returned")] and not s["witness_reached"]:
                tool_errors.append("%s: VACUOUS - no witness reachable" % s["name"])
        elif s["witness_unreached"] and not j.get("allow_unreached"):
            tool_errors.append("%s: VACUOUS - witness not reachable: %s" % (s["name"], s["witness_unreached"][:5]))
        if s["witness_total"] == 0:
            tool_errors.append("%s: no reachability witness in harness" % s["name"])
        flist = s.get("failed", [])
        # replay at most 3 distinct failures per query: harness assertions first, then one per (function, kind of memory error)
        flist = sorted(flist, key=lambda f: (0 if ".assertion." in (f["property"] or "") else 1, f["property"] or ""))
        seen_keys = set(); sel = []
        for fprop in flist:
            key = (fprop["function"], re.sub(r" in .*", "", fprop["description"]))
            if key in seen_keys: continue
            seen_keys.add(key); sel.append(fprop)
        for fprop in sel[:3]:
            desc = fprop["description"]
            if desc.startswith("no body for callee"):
                tool_errors.append("%s: MISSING-MODEL %s" % (s["name"], desc)); continue
            if is_unwind(fprop) and not j.get("unwind_is_property"):
                tool_errors.append("%s: BOUND-TOO-SMALL %s (%s)" % (s["name"], fprop["property"], desc)); continue
            # counterexample -> replay against the real code
            trace = get_trace(j, tier, s, fprop["property"])
            if trace is None:
                tool_errors.append("%s: could not obtain trace for %s" % (s["name"], fprop["property"])); continue
            vals = extract_nondets(trace)
            try:
                exe = build_native(j, tier)
            except ToolError as e_:
                tool_errors.append("%s: %s" % (s["name"], e_)); continue
            nr = native_run(exe, s["entry"], s["params"], vals)
            rdir = os.path.join(VERIF, "replays", prop_id)
            os.makedirs(rdir, exist_ok=True)
            rpath = os.path.join(rdir, re.sub(r"[^A-Za-z0-9_.=-]", "_", s["name"] + "__" + (fprop["property"] or "p")) + ".json")
            rep = dict(property=prop_id, job=s["job"], harness=j["harness"], entry=s["entry"], params=s["params"], nondet_values=vals,
                       cbmc_property=fprop["property"], assertion=desc, native=dict(rc=nr["rc"], out=nr["out"][-3000:], err=nr["err"][-3000:]),
                       units=j.get("units", []), defines=j.get("defines", []))
            json.dump(rep, open(rpath, "w"), indent=1)
            if reproduces(nr, desc):
                k = match_known(known, prop_id, s, desc)
                if k:
                    known_hits.append((k, s, desc))
                else:
                    violations.append((s, desc, rpath))
            else:
                tool_errors.append("%s: ENCODING-MISMATCH: CBMC counterexample for '%s' does not reproduce natively (values %s; native rc=%s out=%s)" % (s["name"], desc, vals[:12], nr["rc"], nr["out"][-300:]))
    with cf.ThreadPoolExecutor(max_workers=8) as ex:
        list(ex.map(_process_shard, shards))
    # const-API reachability (C20): const member functions of the named classes defined in the linked units vs. those that
    # survive dead-code elimination from the harness entry (= are reachable from the harness)
    const_cov = None
    for j in jobs:
        if j.get("const_coverage") and not isinstance(built.get(j["name"]), Exception):
            jd = built[j["name"]]
            pat = re.compile(r"_ZNK\d+OpenVolumeMesh(?:" + "|".join(j["const_coverage"]) + r")")
            def syms(bc):
                r = run(["llvm-nm-14", "--defined-only", bc])
                return set(l.split()[-1] for l in r.stdout.splitlines() if l.strip() and pat.search(l.split()[-1]))
            allc = syms(os.path.join(jd, "all.bc")); reach = syms(os.path.join(jd, "red.bc"))
            const_cov = dict(classes=j["const_coverage"], const_members_in_linked_units=len(allc), reachable_from_harness=len(reach),
                             unreached=sorted(allc - reach)[:40])
    wall = time.time() - t0
    # ---------------- evidence
    ok = [s for s in shards if s["status"] in ("ok", "failed")]
    reached = set()
    for s in ok:
        for w in s["witness_reached"]:
            reached.add((s["job"], s["entry"], tuple(sorted(s["params"].items())), w))
    samples = []
    for s in sorted(ok, key=lambda x: x["name"])[:6]:
        samples.append(dict(query=s["name"], harness=jobmap[s["job"]]["harness"], entry=s["entry"], shard_params=s["params"],
                            bounds=jobmap[s["job"]].get("bounds", ""), unwind=jobmap[s["job"]].get("unwind", 8),
                            properties_checked=s.get("properties"), witnesses_reached=len(s["witness_reached"]),
                            vccs=s.get("vccs"), variables=s.get("variables"), clauses=s.get("clauses"),
                            symex_s=s.get("symex_s"), solver_s=s.get("solver_s"), solver=s.get("solver"), wall_s=s.get("wall_s"), rss_mb=s.get("rss_mb")))
    for (s, desc, rpath) in violations[:3]:
        samples.append(dict(violation=s["name"], assertion=desc, replay=rpath))
    units = sorted(set(u for j in jobs for u in j.get("units", [])))
    ev = dict(property_id=prop_id, tier=tier, seed=seed, level="model_checking",
              coverage=dict(
                  evaluations=len(shards),
                  distinct_nontrivial=len(reached),
                  rule="one evaluation = one bounded solver query (CBMC symbolic execution of the real functions lowered from LLVM IR + SAT/SMT) over all values of the harness's symbolic inputs for one shard; distinct_nontrivial counts distinct reachability witnesses (per job/entry/shard/call-site) that the solver proved reachable, i.e. harness paths that demonstrably reach the end of the property code (vacuity guard)",
                  samples=samples,
                  exhaustive=False,
                  queries_discharged=len(ok), queries_not_covered=not_covered,
                  properties_checked=sum(s.get("properties", 0) for s in ok),
                  functions_encoded=units, harnesses=sorted(set(j["harness"] for j in jobs)),
                  bounds={j["name"]: j.get("bounds", "") for j in jobs},
                  solver_time_s=round(sum((s.get("solver_s") or 0) for s in ok), 2),
                  symex_time_s=round(sum((s.get("symex_s") or 0) for s in ok), 2),
                  max_rss_mb=max([s.get("rss_mb") or 0 for s in shards] + [0]),
                  translation_validation=dict(programs=tv_total["programs"], jobs=tv_total["jobs"], disagreements=len(tv_total["disagreements"]), samples=tv_total["samples"][:3],
                                              what="same nondet value vectors through the harness built by g++ against the real sources and through the translator's C built by gcc; (assertion, outcome) traces compared"),
                  const_api_coverage=const_cov,
                  known_findings_hit=[k.get("what", "") for (k, s, d) in known_hits],
                  tool_errors=tool_errors[:20],
                  source_tree_hash=tree_hash(),
              ),
              assumptions=spec.get("assumptions", []) + COMMON_ASSUMPTIONS,
              wall_s=round(wall, 2), violations=len(violations))
    evdir = os.environ.get("OVM_EVIDENCE_DIR", os.path.join(VERIF, "evidence"))   # development runs on scratch trees write elsewhere
    os.makedirs(evdir, exist_ok=True)
    json.dump(ev, open(os.path.join(evdir, prop_id + ".json"), "w"), indent=1)
    # ---------------- report
    for (k, s, desc) in known_hits:
        print("KNOWN-FINDING: property=%s %s [%s: %s]" % (prop_id, k.get("what", ""), s["name"], desc))
    for n in not_covered:
        print("NOT-COVERED: property=%s %s" % (prop_id, n))
    for (s, desc, rpath) in violations:
        print("VIOLATION property=%s replay=%s" % (prop_id, rpath))
        print("  query=%s assertion=%s" % (s["name"], desc))
    for t in tool_errors:
        print("TOOL-ERROR: property=%s %s" % (prop_id, t))
    print("%s %s: %d queries, %d discharged, %d witnesses reached, %d violations, %d known, %d not covered, %d tool errors, %.0fs" %
          (prop_id, tier, len(shards), len(ok), len(reached), len(violations), len(known_hits), len(not_covered), len(tool_errors), wall))
    if violations:
        return 1
    if tool_errors:
        return 2
    return 0

COMMON_ASSUMPTIONS = [
    "bounded claim: holds for all values of the symbolic inputs within the bounds listed in coverage.bounds; nothing is claimed outside them",
    "real code = the repository's own translation units compiled by clang 14 at -O1 -DNDEBUG to LLVM IR and lowered to C by /verif/tools/ll2c.cpp (trusted translator; validated by native replay of counterexamples and by the translation-validation runs)",
    "operator new never fails (allocation failure out of scope); libstdc++.so entry points (_Rb_tree_* as an unbalanced BST with identical ordering semantics, __throw_*, iostream formatting as no-ops) are models in /verif/models",
    "std::vector<bool> word storage is modelled as zero-initialised",
    "CBMC 6.11 and its SAT/SMT back ends are trusted",
]

def replay_file(path):
    rep = json.load(open(path))
    import specs
    spec = specs.PROPS[rep["property"]]
    job = [j for j in spec["jobs"] if j["name"] == rep["job"]][0]
    exe = build_native(job, "quick")
    nr = native_run(exe, rep["entry"], {int(k): v for k, v in rep["params"].items()}, rep["nondet_values"])
    print(nr["out"]); print(nr["err"], file=sys.stderr)
    print("native rc=%s reproduces=%s" % (nr["rc"], reproduces(nr, rep["assertion"])))
    return 1 if reproduces(nr, rep["assertion"]) else 0

def main():
    import argparse
    ap = argparse.ArgumentParser()
    ap.add_argument("prop", nargs="?")
    ap.add_argument("--tier", default=os.environ.get("VERIF_TIER", "quick"))
    ap.add_argument("--replay")
    ap.add_argument("--job", help="only jobs whose name matches this regex")
    ap.add_argument("--no-evidence", action="store_true")
    ap.add_argument("--max-shards", type=int, default=0, help="development: only the first N shards of every job")
    ap.add_argument("--shard-filter", help="development: only shards whose parameters match, e.g. 0=12,2=3")
    a = ap.parse_args()
    if a.no_evidence: os.environ["OVM_EVIDENCE_DIR"] = os.path.join(WORK, "evidence-dev")
    sys.path.insert(0, VERIF)
    if a.replay:
        sys.exit(replay_file(a.replay))
    import specs
    seed = int(os.environ.get("VERIF_SEED", "0") or 0)
    spec = specs.PROPS[a.prop]
    if a.job:
        spec = dict(spec); spec["jobs"] = [j for j in spec["jobs"] if re.search(a.job, j["name"])]
    if a.shard_filter:
        flt = {int(kv.split("=")[0]): int(kv.split("=")[1]) for kv in a.shard_filter.split(",")}
        keep = lambda sh: [x for x in sh if all(x.get(k) == v for k, v in flt.items())]
        spec = dict(spec); js = []
        for j in spec["jobs"]:
            j = dict(j); sh = j.get("shards")
            if isinstance(sh, dict): j["shards"] = {k: keep(v) for k, v in sh.items()}
            elif isinstance(sh, list): j["shards"] = keep(sh)
            else: continue
            if (j["shards"].get(a.tier) if isinstance(j["shards"], dict) else j["shards"]): js.append(j)
        spec["jobs"] = js
    if a.max_shards:
        spec = dict(spec); js = []
        for j in spec["jobs"]:
            j = dict(j); sh = j.get("shards")
            if isinstance(sh, dict): j["shards"] = {k: v[:a.max_shards] for k, v in sh.items()}
            elif isinstance(sh, list): j["shards"] = sh[:a.max_shards]
            js.append(j)
        spec["jobs"] = js
    os.makedirs(WORK, exist_ok=True)
    # drop caches of other source trees (disk hygiene) -- only stale ones, another check may still be using a recent one
    for d in os.listdir(WORK):
        pth = os.path.join(WORK, d)
        if d.startswith("cache-") and d != "cache-" + tree_hash():
            try:
                if time.time() - os.path.getmtime(pth) > 3 * 3600: shutil.rmtree(pth, ignore_errors=True)
            except OSError: pass
    sys.exit(check_property(a.prop, a.tier, spec, seed))

if __name__ == "__main__":
    main()
