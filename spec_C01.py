PROPS["C01"] = dict(
  jobs=[
    dict(name="c01-k1", harness="C01_bottom_up.cpp", entries=["harness_c01"], units=CORE, unwind=26, checks="none", object_bits=13,
         shards={"quick": op_shards([B_TET], [0], [OP_DEL_E]), "thorough": []},
         timeout=900, mem_gb=6,
         bounds="K=1 operation; symbolic selector over the operation's argument tuples (8 per query), symbolic probe handles"),
  ],
)
