ALL_MODES = [0, 1, 2, 3]
_c01_common = dict(harness="C01_bottom_up.cpp", entries=["harness_c01"], units=CORE, unwind=26, checks="none", object_bits=13, witness_any=True,
                   timeout={"quick": 900, "thorough": 2400}, mem_gb=3)
_DELS = [OP_DEL_V, OP_DEL_E, OP_DEL_F, OP_DEL_C]
_SWAPS = [OP_SWAP_V, OP_SWAP_E, OP_SWAP_F, OP_SWAP_C]
_C01_BOUNDS = ("K=0 (the base as built by add_vertex/add_edge/add_face/add_cell) and K=1 operation from {delete_vertex/edge/face/cell, swap_*_indices, add_vertex, add_n_vertices, add_edge(dup on/off), add_face(3 vertices), "
               "set_edge, set_face (rotated / reversed list), set_cell (rotated / reversed list), clear, bottom-up off/on in every subset and order} with the argument tuples of the base mesh chosen by a symbolic selector, "
               "the (deferred x fast) modes for deletions; symbolic target probes (vertex, halfedge, halfface, cell); bases quick: one tetrahedron, low-dimensional mesh (triangle + dangling edge + isolated vertex + duplicate edge), two triangles, empty mesh; "
               "quick tier: all deletions, the first 8 pairs of each swap kind, first argument chunks of the other operations; thorough: every argument tuple, and two tets sharing face/edge/vertex, 3-tet ring and fan, "
               "prism+pyramid, hexahedra, the two-shared-faces base")
PROPS["C01"] = dict(
  jobs=[
    dict(name="c01-k1", **_c01_common,   # 8 argument tuples per query
         shards={"quick": op_shards([B_TET], [0, 1], _DELS) + op_shards([B_TET], [2], [OP_DEL_E, OP_DEL_F]) + op_shards([B_LOWDIM], [0], _DELS)
                        + op_shards([B_TET, B_LOWDIM, B_TRI2, B_EMPTY], [1], [OP_NONE]) + op_shards([B_TET], [1], [OP_ADD_V, OP_ADD_NV, OP_CLEAR]),
                 "thorough": op_shards([B_TET, B_LOWDIM], [3], _DELS) + op_shards([B_TET], [2], [OP_DEL_V, OP_DEL_C]) + op_shards([B_LOWDIM], [1, 2], _DELS)
                        + op_shards([B_TET2_FACE, B_TET2_EDGE, B_TET2_VERTEX, B_TET3_RING, B_PRISM_PYR, B_TRI2], ALL_MODES, _DELS) + op_shards([B_HEX], [0, 3], _DELS)
                        + op_shards([B_TET2_FACE, B_TET2_EDGE, B_TET2_VERTEX, B_TET3_RING, B_TET3_FAN, B_HEX, B_HEX2, B_PRISM_PYR, B_TWOFACE, B_TET_ODD], [1], [OP_NONE]) + op_shards([B_TWOFACE], [1, 3], [OP_DEL_C])},
         bounds=_C01_BOUNDS),
    dict(name="c01-k1s", defines=["NCASES=4"], **_c01_common,   # heavier operations: 4 argument tuples per query
         shards={"quick": op_shards([B_TET], [1], [OP_SWAP_V], per=4)[1:2] + op_shards([B_TET], [1], [OP_SWAP_E], per=4)[4:5] + op_shards([B_TET], [1], [OP_SWAP_F], per=4)[1:2]
                        + op_shards([B_TET], [1], [OP_SWAP_C, OP_SET_C, OP_SET_F], per=4) + op_shards([B_TET], [1], [OP_ADD_E, OP_ADD_E_DUP], per=4)[1:2] + op_shards([B_TET], [1], [OP_BU_TOGGLE], per=4)[0:2]
                        + op_shards([B_LOWDIM], [1], [OP_SET_E], per=4)[19:20] + op_shards([B_LOWDIM], [1], [OP_ADD_F], per=4)[1:2] + op_shards([B_LOWDIM], [0], [OP_SWAP_V, OP_SWAP_E], per=4)[0:1],   # trimmed to keep the quick tier well below 900 s
                 "thorough": op_shards([B_TET], [1], _SWAPS + [OP_ADD_E, OP_ADD_E_DUP, OP_BU_TOGGLE, OP_SET_F, OP_SET_C], per=4) + op_shards([B_LOWDIM], [0], [OP_SWAP_V, OP_SWAP_E, OP_ADD_E, OP_ADD_E_DUP, OP_BU_TOGGLE], per=4)
                        + op_shards([B_LOWDIM], [1], [OP_SET_E, OP_ADD_F], per=4) + op_shards([B_TRI2], [1], [OP_SET_E], per=4)[:40]
                        + op_shards([B_TET2_FACE, B_TRI2], [1], _SWAPS + [OP_ADD_E, OP_BU_TOGGLE, OP_SET_F, OP_SET_C], per=4)},
         bounds=_C01_BOUNDS),
    dict(name="c01-k2", **_c01_common,
         shards={"quick": op2_shards([B_TET], [1], OP_DEL_E, OP_GC, 0) + op2_shards([B_TET], [3], OP_DEL_V, OP_GC, 0) + op2_shards([B_LOWDIM], [1], OP_DEL_E, OP_GC, 0)
                        + _with(op2_shards([B_TET], [1], OP_DEL_C, OP_READD_C, 0), {7: OP_GC}),
                 "thorough": [s for op1 in _DELS for s in op2_shards([B_TET, B_LOWDIM], [1, 3], op1, OP_GC, 0)] + op2_shards([B_TET], [1, 3], OP_DEL_C, OP_READD_C, 0) + _with(op2_shards([B_TET], [3], OP_DEL_C, OP_READD_C, 0), {7: OP_GC})
                        + [s for op1 in _DELS for op2 in (OP_ADD_E, OP_DEL_E, OP_DEL_V, OP_SWAP_E, OP_SWAP_V, OP_BU_TOGGLE) for s in op2_shards([B_TET], [0, 1], op1, op2, 1, fixed_range=[0, 2])]
                        + [s for op1 in _SWAPS for op2 in _DELS for s in op2_shards([B_TET], [0, 3], op1, op2, 1, fixed_range=[1, 6])]
                        + [s for op1 in _DELS for s in op2_shards([B_TET2_FACE], [1, 3], op1, OP_GC, 0)]
                        + _with(op2_shards([B_TET2_FACE, B_TET3_RING], [1, 3], OP_DEL_C, OP_READD_C, 0), {7: OP_GC}) + _with(op2_shards([B_TET2_FACE], [1, 3], OP_DEL_F, OP_READD_C, 0), {7: OP_GC})},
         bounds="K=2..3 operations: quick = delete_edge/delete_vertex followed by collect_garbage in deferred mode, delete_cell -> re-add a cell on the halffaces of the not yet collected cell -> collect_garbage; "
                "thorough adds every deletion -> collect_garbage on more bases, deletion->{add_edge, delete, swap, bottom-up toggle}, swap->delete with a symbolic selector over the second operation's arguments"),
  ],
  assumptions=["precondition assumed: operation arguments are live handles; meshes in which a halfface is used by two live cells are skipped by the oracle (outside the property)",
               "the queried centre entity is enumerated in the harness; the compared target entity is a free symbolic handle"],
)
