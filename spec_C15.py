# C15  Tetrahedral kernel: shape invariants, vertex-order contracts, edge collapse   (harness/C15_*.cpp, harness/c15_*.h)
_C15_UNITS = CORE + ["Mesh/TetrahedralMeshTopologyKernel.cc", "Mesh/TetrahedralMeshIterators.cc",
                     "Unstable/Topology/TetTopology.cc", "Unstable/Topology/TriangleTopology.cc"]
_C15_UNITS_PROPS = _C15_UNITS + ["FileManager/TypeNames.cc"]   # int properties reference typeName<int>() (needed by the native replay link)
# bases of harness/c15_common.h (built with the tetrahedral kernel's own add_cell): id -> (nV, nE, nF, nC)
_T_ONE, _T_FACE, _T_RING, _T_EDGE, _T_VERTEX = range(5)
_C15_COUNTS = {_T_ONE: (4, 6, 4, 1), _T_FACE: (5, 9, 7, 2), _T_RING: (5, 10, 9, 3), _T_EDGE: (6, 11, 8, 2), _T_VERTEX: (7, 12, 8, 2)}
_C15_BASES = "bases: 1 tet; 2 tets sharing a face; 3 tets closed around an edge; 2 tets sharing only an edge; 2 tets sharing only a vertex"
_C15_CPQ = 4      # collapse cases per query (C15_collapse.cpp)

def _c15_order(bases, preops):
    # one tet: one query; larger bases: N queries (part 0 = cells + first range of halffaces, the others = further ranges of halffaces)
    out = []
    for b in bases:
        n = 1 if b == _T_ONE else (4 if b == _T_RING else 2)
        out += [{0: b, 1: p, 2: part, 3: n} for p in preops for part in range(n)]
    return out

def _c15_labels(cells, kinds, hs=(1, 2, 3, 4)):
    # kinds with a free symbolic start vertex a (0, 2) are the expensive ones: one query per halfface abc; the others: all four in one
    out = []
    for (b, c) in cells:
        for k in kinds:
            out += [{0: b, 1: c, 2: k, 3: h} for h in (list(hs) if k in (0, 2) else [0])]
    return out

def _c15_all_cells():
    return [(b, c) for b in sorted(_C15_COUNTS) for c in range(_C15_COUNTS[b][3])]

def _c15_adds(bases):
    # 24 cases; 8 per query on the single tet, 4 per query on the larger bases
    out = []
    for b in bases:
        per = 8 if b == _T_ONE else 4
        out += [{0: b, 1: ch, 2: per} for ch in range(24 // per)]
    return out

def _c15_ops(bases, modes, ops):
    out = []
    for b in bases:
        nv, ne, nf, nc = _C15_COUNTS[b]
        cnt = {OP_DEL_V: nv, OP_DEL_E: ne, OP_DEL_F: nf, OP_DEL_C: nc, OP_SWAP_V: nv * nv, OP_SWAP_E: ne * ne, OP_SWAP_F: nf * nf, OP_SWAP_C: nc * nc, OP_GC: 1}
        for md in modes:
            for op in ops:
                for ch in range((cnt[op] + CASES_PER_QUERY - 1) // CASES_PER_QUERY):
                    out.append({0: b, 1: md, 2: op, 3: ch})
    return out

def _c15_collapse(bases, modes, chunks=None, per=_C15_CPQ):
    out = []
    for b in bases:
        n = (2 * _C15_COUNTS[b][1] + per - 1) // per
        for md in modes:
            for ch in (chunks if chunks is not None else range(n)):
                if ch < n: out.append({0: b, 1: md, 2: ch, 3: 0, 4: per})
    return out

def _c15_deep(bases, modes, hes=None):
    return [{0: b, 1: md, 2: he, 3: 1} for b in bases for md in modes for he in (hes if hes is not None else range(2 * _C15_COUNTS[b][1]))]

PROPS["C15"] = dict(
  jobs=[
    dict(name="c15-order", harness="C15_order.cpp", entries=["harness_c15_order"], units=_C15_UNITS, unwind=40, checks="none", object_bits=13,
         shards={"quick": _c15_order(range(5), [0]) + _c15_order([_T_FACE], [1, 4, 6]),
                 "thorough": _c15_order(range(5), range(8))},
         timeout={"quick": 300, "thorough": 900}, mem_gb=4,
         bounds=_C15_BASES + ", optionally after one swap_{cell,face,edge,vertex}_indices(first,last) or delete_cell(0) in immediate / deferred / fast mode; "
                "EVERY live cell and EVERY halfface of the mesh is queried (enumerated, constant; larger bases split over 2-4 shards by halfface range); free symbolic: the vertex argument vh (any vertex index of the mesh) of "
                "get_cell_vertices(ch,vh) / vertex_opposite_halfface / get_halfface_vertices(hfh,vh) and the halfedge argument heh (any halfedge index) of "
                "get_cell_vertices(hfh,heh) / get_halfface_vertices(hfh,heh); tv_iter / tet_vertices compared element-wise with the brute-force tuple"),
    dict(name="c15-labels", harness="C15_labels.cpp", entries=["harness_c15_labels"], units=_C15_UNITS, unwind=40, checks="none", object_bits=13,
         shards={"quick": _c15_labels([(_T_ONE, 0)], range(6)) + _c15_labels([(_T_FACE, 1)], [0, 4], hs=(1, 3)) + _c15_labels([(_T_RING, 2)], [2], hs=(2, 4)),
                 "thorough": _c15_labels(_c15_all_cells(), range(6))},
         timeout={"quick": 300, "thorough": 900}, mem_gb=6,
         bounds=_C15_BASES + "; shard = (base, cell, constructor kind of TetTopology: (ch,abc,a) (ch,abc) (abc,a) (abc) (ch,a) (ch)); all 4 halffaces abc of the cell enumerated (one per shard for the kinds with a symbolic start vertex); "
                "free symbolic: vertex a among the 3 vertices of abc, halfedge label index 0..11, halfface label index 0..23 (+ the 8 start-less labels through them), "
                "probe vertex / halfedge / halfface of get_label over all indices of the mesh, start vertex of TriangleTopology(mesh,hfh,a); "
                "constexpr label algebra (hel, hel_from/to, hfl_vl, hfl_hel, opposite, inner/outer) for all 12 + 32 labels"),
    dict(name="c15-adds", harness="C15_shape.cpp", entries=["harness_c15_adds"], units=_C15_UNITS, unwind=40, checks="none", object_bits=13,
         shards={"quick": _c15_adds([_T_ONE, _T_FACE]), "thorough": _c15_adds(range(5))},
         timeout={"quick": 300, "thorough": 900}, mem_gb=4,
         bounds=_C15_BASES + "; symbolic selector over 24 constant add_face / add_cell / add_halfface / add_halfedge calls (4-8 per query): wrong valence (2,4 / 3,5), failing topology "
                "check (open loop, open surface, halfface twice, halfface already taken, repeated vertex), accepted vertex- and handle-based adds across a boundary face"),
    dict(name="c15-ops", harness="C15_shape.cpp", entries=["harness_c15_ops"], units=_C15_UNITS, unwind=40, checks="none", object_bits=13,
         shards={"quick": _c15_ops([_T_ONE], [0], [OP_DEL_V]) + _c15_ops([_T_ONE], [1], [OP_DEL_E]) + _c15_ops([_T_ONE], [2], [OP_DEL_F]) + _c15_ops([_T_FACE], [0], [OP_SWAP_C, OP_DEL_C]),
                 "thorough": _c15_ops([_T_ONE, _T_FACE], range(4), [OP_DEL_V, OP_DEL_E, OP_DEL_F, OP_DEL_C]) + _c15_ops([_T_ONE], [0], [OP_SWAP_V, OP_SWAP_E, OP_SWAP_F]) + _c15_ops([_T_FACE], [0], [OP_SWAP_C])},
         timeout={"quick": 300, "thorough": 900}, mem_gb=4,
         bounds="K=1 inherited operation (delete_vertex/edge/face/cell for every entity, swap_*_indices for every ordered pair; then collect_garbage in deferred mode) chosen by a symbolic "
                "selector (8 constant argument tuples per query) on 1 tet / 2 tets sharing a face; afterwards every stored face has valence 3, every stored cell valence 4, every live cell 4 distinct vertices"),
    dict(name="c15-collapse", harness="C15_collapse.cpp", entries=["harness_c15_collapse"], units=_C15_UNITS_PROPS, unwind=64, checks="none", object_bits=13, witness_any=True,
         shards={"quick": _c15_collapse([_T_ONE], [0, 1, 2]) + _c15_collapse([_T_FACE], [0, 1], [2, 3, 6, 7], per=2) + _c15_collapse([_T_FACE], [2], [4, 5, 6, 7, 12, 13, 14, 15], per=1) + _c15_collapse([_T_FACE], [3], [3], per=2) + _c15_deep([_T_FACE], [0], [6]),
                 "thorough": _c15_collapse([_T_ONE], range(4)) + _c15_collapse([_T_FACE], range(4), per=2) + _c15_collapse([_T_RING, _T_EDGE, _T_VERTEX], [0, 1, 2], per=2)
                             + _c15_deep([_T_FACE], [0, 1]) + _c15_deep([_T_RING], [0]) + _c15_deep([_T_EDGE], [3])},
         timeout={"quick": 300, "thorough": 900}, mem_gb=5,
         bounds=_C15_BASES + "; collapse_edge(he) for the halfedges of the shard's chunk (1-4 per query, symbolic selector; quick: all 12 halfedges of the single tet in 3 modes, halfedges 4-7 and 12-15 of the "
                "face-sharing pair in immediate / deferred / fast mode, 6-7 in fast+deferred; thorough: every halfedge of every base in the deletion modes immediate, deferred, fast; fast+deferred only on the two small bases - collapse_edge never collects garbage in deferred mode, so it coincides with deferred) that satisfy the simplicial link condition Lk(a) n Lk(b) = Lk(ab) "
                "(brute force in the harness); int cell-property values free symbolic; 'deep' shards (one halfedge per query) additionally run the vertex-order contracts with free symbolic "
                "vertex / halfedge arguments on the collapsed mesh"),
  ],
  assumptions=[
    "C15: mesh-mutating calls take constant arguments selected by a symbolic selector (selector dispatch); the centre cell / halfface of the read-only queries is enumerated, their vertex / halfedge / label arguments are free symbolic (a free symbolic centre gave no verdict in 300 s: symbolic loop bounds inside halfface_vertices())",
    "C15: the link condition of collapse_edge (not documented in the sources) is taken to be the simplicial one, Lk(a) n Lk(b) = Lk(ab), on the live complex without a boundary dummy vertex",
    "C15: get_cell_vertices(ch,vh) for vh = apex of the first halfface is only required to start with vh and to be an even permutation of get_cell_vertices(ch) (the header says 'in a specific order, starting with vh')",
    "C15: TriangleTopology's stored halfface handle is private and not observable; only a(),b(),c(),ab(),bc(),ca() and operator== are checked",
    "C15 outside the bound: meshes larger than the five bases, histories longer than one operation before the queried call, add_cell with deleted or out-of-range vertex handles, split_edge / split_face (protected, unreachable through the public API)",
  ],
)
