_C04_UNITS = CORE_PROPS + ["Attribs/StatusAttrib.cc", "Attribs/OpenVolumeMeshStatus.cc"]
_c04_common = dict(harness="C04_gc.cpp", units=_C04_UNITS, unwind=26, object_bits=13, witness_any=True, checks="none", unwindset=["strlen.0:80"],
                   timeout={"quick": 900, "thorough": 2400}, mem_gb=3)
def _c04_equiv(bases, fast1s, fast2s, seconds):
    out = []
    for b in bases:
        nv, ne, nf, nc = BASE_COUNTS[b]
        for f1 in fast1s:
            for f2 in fast2s:
                for k1, n in enumerate((nv, ne, nf, nc)):
                    for ch in range((n + 3) // 4):
                        for (k2p, i2) in seconds:
                            out.append({0: b, 1: f1, 2: k1, 3: ch, 4: k2p, 5: i2, 6: f2})
    return out
def _c04_status(bases, modes, seconds, manifolds, trackeds):
    out = []
    for b in bases:
        nv, ne, nf, nc = BASE_COUNTS[b]
        for md in modes:
            for k1, n in enumerate((nv, ne, nf, nc)):
                for ch in range((n + 3) // 4):
                    for (k2p, i2) in seconds:
                        for mf in manifolds:
                            for tr in trackeds:
                                out.append({0: b, 1: md, 2: k1, 3: ch, 4: k2p, 5: i2, 6: mf, 7: tr})
    return out
PROPS["C04"] = dict(
  jobs=[
    dict(name="c04-equiv", entries=["harness_c04_equiv"], **_c04_common,
         shards={"quick": _c04_equiv([B_TET], [0, 1], [0], [(0, 0), (2, 3)]) + _c04_equiv([B_LOWDIM], [1], [1], [(1, 1)]) + _c04_equiv([B_LOWDIM], [0, 1], [0], [(0, 0)]),
                 "thorough": _c04_equiv([B_TET, B_LOWDIM], [0, 1], [0, 1], [(0, 0), (1, 0), (2, 3), (3, 1), (4, 0)]) + _c04_equiv([B_TET2_FACE], [0, 1], [0], [(0, 0), (3, 5), (4, 1)])},
         bounds="two real meshes: deferred mode (fast on/off) + 1..2 deletions + collect_garbage vs. the same deletions performed immediately (fast on/off); every first victim (symbolic selector, 4 per query), "
                "selected second victims; compared through int tag properties at symbolic probe indices: same survivors, same definitions up to renumbering, no pending deletions"),
    dict(name="c04-status", entries=["harness_c04_status"], **_c04_common,
         shards={"quick": _c04_status([B_TET], [1], [(0, 0)], [0, 1], [1]) + _c04_status([B_LOWDIM], [1 | (7 << 2)], [(0, 0)], [1], [0]), "thorough": _c04_status([B_TET], [1, 3, 0], [(0, 0), (2, 1)], [0, 1], [0, 1]) + _c04_status([B_LOWDIM, B_TET2_FACE], [1], [(0, 0)], [0, 1], [1])
                                      + _c04_status([B_LOWDIM, B_TET], [1 | (7 << 2), 1 | (2 << 2), 3 | (4 << 2)], [(0, 0)], [1], [0])},
         bounds="StatusAttrib::garbage_collection (both overloads): 1..2 status-marked entities (first by symbolic selector), both values of the manifoldness flag, fast deletion on/off, mesh initially deferred or not, also with bottom-up incidence kinds switched off beforehand; "
                "tracked handles of all four kinds with SYMBOLIC values; compared with the reference closure/manifold pass/renumbering"),
  ],
  assumptions=["collect_garbage and leaving deferred mode against the documented renumbering: C02 (job c02-k2); property values through garbage collection: C03",
               "c04-status needs the translator's per-allocation-site typed recovery of make_shared control blocks (two same-size property storages in one module)"],
)
