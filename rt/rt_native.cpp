// Native runtime for replaying CBMC counterexamples (and for translation validation) against a
// g++ build of the REAL sources: v_nondet_* read the recorded values, v_assert records outcomes.
#include <cstdio>
#include <cstdlib>
#include <cstring>
#include <cstdint>
#include <string>
#include <vector>
#include <dlfcn.h>
static std::vector<uint64_t> g_vals; static size_t g_pos = 0; static int g_fail = 0;
static uint64_t next() { if (g_pos < g_vals.size()) return g_vals[g_pos++]; ++g_pos; return 0; }
extern "C" {
void v_assume(bool c) { if (!c) { printf("ASSUME-FALSE after %zu values\n", g_pos); fflush(stdout); _Exit(g_fail ? 1 : 0); } }
void v_assert(bool c, const char *msg) { printf("%s: %s\n", c ? "ASSERT-OK" : "ASSERT-FAIL", msg); fflush(stdout); if (!c) g_fail = 1; }
void v_witness(const char *name) { printf("WITNESS: %s\n", name); fflush(stdout); }
uint8_t v_nondet_u8() { return (uint8_t)next(); }
uint32_t v_nondet_u32() { return (uint32_t)next(); }
uint64_t v_nondet_u64() { return next(); }
bool v_nondet_bool() { return next() & 1; }
uint32_t v_param(uint32_t k) { char n[32]; snprintf(n, sizeof n, "V_PARAM%u", k); const char *e = getenv(n); return e ? (uint32_t)strtoul(e, 0, 10) : 0; }
double v_sqrt_uf(double x) { return __builtin_sqrt(x); }
}
int main() {
  const char *vs = getenv("V_VALUES");
  if (vs) { const char *p = vs; while (*p) { char *e; unsigned long long v = strtoull(p, &e, 10); if (e == p) break; g_vals.push_back(v); p = (*e == ',') ? e + 1 : e; } }
  const char *entry = getenv("V_ENTRY");
  if (!entry) { fprintf(stderr, "V_ENTRY not set\n"); return 3; }
  void (*fn)() = (void (*)())dlsym(RTLD_DEFAULT, entry);
  if (!fn) { fprintf(stderr, "no such entry %s\n", entry); return 3; }
  try { fn(); } catch (const std::exception &e) { printf("UNCAUGHT-EXCEPTION: %s\n", e.what()); g_fail = 1; } catch (...) { printf("UNCAUGHT-EXCEPTION\n"); g_fail = 1; }
  printf("DONE values_used=%zu of %zu\n", g_pos, g_vals.size());
  return g_fail ? 1 : 0;
}
