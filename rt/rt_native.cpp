// Native runtime for replaying CBMC counterexamples (and for translation validation) against a
// g++ build of the REAL sources: v_nondet_* read the recorded values, v_assert records outcomes.
#include <cstdio>
#include <cstdlib>
#include <cstring>
#include <cstdint>
#include <string>
#include <vector>
#include <dlfcn.h>
static std::vector<uint64_t> g_vals; static size_t g_pos = 0; static int g_fail = 0;
static uint64_t next() { if (g_pos < g_vals.size()) return g_vals[g_pos++]; ++g_pos; return 0; }
extern "C" {
void v_assume(bool c) { if (!c) { printf("ASSUME-FALSE after %zu values\n", g_pos); fflush(stdout); _Exit(g_fail ? 1 : 0); } }
void v_assert(bool c, const char *msg) { printf("%s: %s\n", c ? "ASSERT-OK" : "ASSERT-FAIL", msg); fflush(stdout); if (!c) g_fail = 1; }
void v_witness(const char *name) { printf("WITNESS: %s\n", name); fflush(stdout); }
uint8_t v_nondet_u8() { return (uint8_t)next(); }
uint32_t v_nondet_u32() { return (uint32_t)next(); }
uint64_t v_nondet_u64() { return next(); }
bool v_nondet_bool() { return next() & 1; }
void v_alloc_order_reset() {}   // symbolic build only: allocation-order model of std::less<T*> (rt.c)
uint32_t v_param(uint32_t k) { char n[32]; snprintf(n, sizeof n, "V_PARAM%u", k); const char *e = getenv(n); return e ? (uint32_t)strtoul(e, 0, 10) : 0; }
double v_sqrt_uf(double x) { return __builtin_sqrt(x); }
// C20 native confirmation: byte snapshot of the registered object and of every heap block allocated before the epoch;
// at the end of the epoch any changed byte (or a block freed meanwhile) is a write to shared state by a read-only operation.
void v_register_shared(const void *p, unsigned long n);
void v_register_scratch(const void *p, unsigned long n);
void v_epoch_mark();
void v_epoch_end();
}
#include <new>
extern "C" char __data_start, _end;   // static storage of the executable (.data + .bss): function-local statics and globals of the real sources live here
namespace {
struct Blk { void *p; size_t n; bool freed; };
// all state of this runtime that changes during an epoch lives in ONE object so that it can be excluded from the static-storage comparison
struct RtState {
  Blk blk[100000]; size_t nblk = 0; bool epoch = false; size_t epoch_n = 0;
  const void *sh[8]; size_t shn[8]; size_t nsh = 0;
  const void *scratch[8]; size_t scratchn[8]; size_t nscratch = 0;
  unsigned char *copy = nullptr; unsigned char *statics = nullptr; size_t statics_n = 0;
};
RtState g_rt;
#define g_blk g_rt.blk
#define g_nblk g_rt.nblk
#define g_epoch g_rt.epoch
#define g_epoch_n g_rt.epoch_n
#define g_sh g_rt.sh
#define g_shn g_rt.shn
#define g_nsh g_rt.nsh
#define g_copy g_rt.copy
}
void *operator new(size_t n) { void *p = malloc(n ? n : 1); if (!p) abort(); if (!g_epoch && g_nblk < 100000) g_blk[g_nblk++] = Blk{p, n, false}; return p; }
void *operator new[](size_t n) { return operator new(n); }
static void v_del(void *p) {
  if (!p) return;
  for (size_t i = 0; i < g_nblk; ++i) if (g_blk[i].p == p && !g_blk[i].freed) { if (g_epoch && i < g_epoch_n) { printf("ASSERT-FAIL: C20 read-only operation frees shared memory\n"); g_fail = 1; } g_blk[i].freed = true; break; }
  free(p);
}
void operator delete(void *p) noexcept { v_del(p); }
void operator delete[](void *p) noexcept { v_del(p); }
void operator delete(void *p, size_t) noexcept { v_del(p); }
void operator delete[](void *p, size_t) noexcept { v_del(p); }
// reads across the redzones between globals: not instrumented, no intercepted libc calls
__attribute__((no_sanitize("address", "undefined"))) static void raw_copy(unsigned char *d, const unsigned char *s, size_t n) { for (size_t i = 0; i < n; ++i) d[i] = s[i]; }
__attribute__((no_sanitize("address", "undefined"))) static long raw_diff(const unsigned char *a, const unsigned char *b, size_t n, bool (*skip)(const unsigned char *)) {
  for (size_t i = 0; i < n; ++i) if (a[i] != b[i] && !skip(a + i)) return (long)i;
  return -1;
}
static bool statics_skipped(const unsigned char *a) {
  if (a >= (const unsigned char *)&g_rt && a < (const unsigned char *)(&g_rt + 1)) return true;
  if (a >= (const unsigned char *)&g_vals && a < (const unsigned char *)(&g_vals + 1)) return true;
  if (a >= (const unsigned char *)&g_pos && a < (const unsigned char *)(&g_pos + 1)) return true;
  if (a >= (const unsigned char *)&g_fail && a < (const unsigned char *)(&g_fail + 1)) return true;
  for (size_t i = 0; i < g_rt.nscratch; ++i) if (a >= (const unsigned char *)g_rt.scratch[i] && a < (const unsigned char *)g_rt.scratch[i] + g_rt.scratchn[i]) return true;
  return false;
}
extern "C" {
void v_register_shared(const void *p, unsigned long n) { if (g_nsh < 8) { g_sh[g_nsh] = p; g_shn[g_nsh++] = n; } }
void v_register_scratch(const void *p, unsigned long n) { if (g_rt.nscratch < 8) { g_rt.scratch[g_rt.nscratch] = p; g_rt.scratchn[g_rt.nscratch++] = n; } }
void v_epoch_mark() {
  g_epoch_n = g_nblk; size_t tot = 0;
  for (size_t i = 0; i < g_nsh; ++i) tot += g_shn[i];
  for (size_t i = 0; i < g_epoch_n; ++i) if (!g_blk[i].freed) tot += g_blk[i].n;
  g_copy = (unsigned char *)malloc(tot ? tot : 1); size_t o = 0;
  for (size_t i = 0; i < g_nsh; ++i) { memcpy(g_copy + o, g_sh[i], g_shn[i]); o += g_shn[i]; }
  for (size_t i = 0; i < g_epoch_n; ++i) if (!g_blk[i].freed) { memcpy(g_copy + o, g_blk[i].p, g_blk[i].n); o += g_blk[i].n; }
  // static storage of the executable (the harness' registered scratch objects and this runtime's own state are skipped when comparing)
  g_rt.statics_n = (size_t)(&_end - &__data_start);
  g_rt.statics = (unsigned char *)malloc(g_rt.statics_n);
  raw_copy(g_rt.statics, (const unsigned char *)&__data_start, g_rt.statics_n);
  g_epoch = true;
}
void v_epoch_end() {
  g_epoch = false; size_t o = 0; bool changed = false;
  for (size_t i = 0; i < g_nsh; ++i) { if (memcmp(g_copy + o, g_sh[i], g_shn[i])) changed = true; o += g_shn[i]; }
  for (size_t i = 0; i < g_epoch_n; ++i) { if (g_blk[i].freed) continue; if (memcmp(g_copy + o, g_blk[i].p, g_blk[i].n)) changed = true; o += g_blk[i].n; }
  {
    long off = raw_diff((const unsigned char *)&__data_start, g_rt.statics, g_rt.statics_n, statics_skipped);
    if (off >= 0) { changed = true; printf("static storage modified at offset %ld of .data/.bss\n", off); }
  }
  if (changed) { printf("ASSERT-FAIL: C20 read-only operation writes shared mesh state\n"); g_fail = 1; }
}
}
extern "C" {
int v_unused_c20_anchor;
}
int main() {
  const char *vs = getenv("V_VALUES");
  if (vs) { const char *p = vs; while (*p) { char *e; unsigned long long v = strtoull(p, &e, 10); if (e == p) break; g_vals.push_back(v); p = (*e == ',') ? e + 1 : e; } }
  const char *entry = getenv("V_ENTRY");
  if (!entry) { fprintf(stderr, "V_ENTRY not set\n"); return 3; }
  void (*fn)() = (void (*)())dlsym(RTLD_DEFAULT, entry);
  if (!fn) { fprintf(stderr, "no such entry %s\n", entry); return 3; }
  try { fn(); } catch (const std::exception &e) { printf("UNCAUGHT-EXCEPTION: %s\n", e.what()); g_fail = 1; } catch (...) { printf("UNCAUGHT-EXCEPTION\n"); g_fail = 1; }
  printf("DONE values_used=%zu of %zu\n", g_pos, g_vals.size());
  return g_fail ? 1 : 0;
}
