/* C20 runtime: shared-write detection.  Every heap object allocated before the epoch mark and every object
 * registered by the harness is "shared"; after the epoch any store / memcpy destination / atomic RMW / free
 * that designates a shared object violates the premise of the sequential reduction (DESIGN.md C20). */
#include "v_rt.h"
#define V_MAX_ALLOCS 600
static u8* v_allocs[V_MAX_ALLOCS]; static u32 v_nalloc; static u32 v_epoch_n; static u1 v_epoch;
static u8* v_shared[8]; static u32 v_nshared;
void v_alloc_hook(u8* p) { if (!v_epoch) { __CPROVER_assert(v_nalloc < V_MAX_ALLOCS, "C20 allocation table large enough"); if (v_nalloc < V_MAX_ALLOCS) v_allocs[v_nalloc++] = p; } }
void v_register_shared(u8* p, u64 n) { if (v_nshared < 8) v_shared[v_nshared++] = p; }
void v_epoch_mark(void) { v_epoch_n = v_nalloc; v_epoch = 1; }
void v_epoch_end(void) { v_epoch = 0; }
static u1 v_is_shared(u8* p) {
  if (p == (u8*)0) return 0;
  for (u32 i = 0; i < v_nshared; ++i) if (__CPROVER_same_object(p, v_shared[i])) return 1;
  for (u32 i = 0; i < V_MAX_ALLOCS; ++i) if (i < v_epoch_n && __CPROVER_same_object(p, v_allocs[i])) return 1;
  return 0;
}
void v_store_hook(u8* p) { if (v_epoch) __CPROVER_assert(!v_is_shared(p), "C20 read-only operation writes shared mesh state"); }
void v_atomic_hook(u8* p) { if (v_epoch) __CPROVER_assert(!v_is_shared(p), "C20 read-only operation performs an atomic read-modify-write on shared state"); }
void v_free_hook(u8* p) { if (v_epoch) __CPROVER_assert(!v_is_shared(p), "C20 read-only operation frees shared memory"); }
