/* CBMC-side runtime of ovm-bmc: allocation, harness primitives, C++ ABI stubs. */
#include "v_rt.h"
u1 v_exc; u8* v_exc_obj; u8* v_exc_ti; u32 v_exc_caught;
int nondet_int(void); unsigned nondet_uint(void); _Bool nondet_bool(void); unsigned char nondet_uchar(void); unsigned long long nondet_ull(void);
/* operator new: never the may-fail malloc model (allocation failure is out of scope) */
u8* _Znwm(u64 n) { return (u8*)__CPROVER_allocate(n, 0); }
u8* _Znam(u64 n) { return (u8*)__CPROVER_allocate(n, 0); }
#ifdef V_C20
void v_free_hook(u8* p);
#define FREE_HOOK(p) v_free_hook(p)
#else
#define FREE_HOOK(p)
#endif
void _ZdlPv(u8* p) { if (p) { FREE_HOOK(p); free(p); } }
void _ZdaPv(u8* p) { if (p) { FREE_HOOK(p); free(p); } }
void _ZdlPvm(u8* p, u64 n) { if (p) { FREE_HOOK(p); free(p); } }
void _ZdaPvm(u8* p, u64 n) { if (p) { FREE_HOOK(p); free(p); } }
void v_assume(u1 c) { __CPROVER_assume(c); }
void v_assert(u1 c, u8* msg) { __CPROVER_assert(c, "harness property (uninlined)"); }
void v_witness(u8* msg) { __CPROVER_assert(0, "WITNESS (uninlined)"); }
/* every symbolic input is also logged in call order: counterexample extraction reads v_trace_vals[] from the trace */
u64 v_trace_vals[512]; u32 v_trace_n;
static void v_trace_log(u64 v) { if (v_trace_n < 512) v_trace_vals[v_trace_n] = v; v_trace_n++; }
u8  v_nondet_u8(void)  { u8 r = nondet_uchar(); v_trace_log(r); return r; }
u32 v_nondet_u32(void) { u32 r = nondet_uint(); v_trace_log(r); return r; }
u64 v_nondet_u64(void) { u64 r = nondet_ull(); v_trace_log(r); return r; }
u1  v_nondet_bool(void) { u1 r = nondet_bool(); v_trace_log(r); return r; }
#ifndef V_PARAM0
#define V_PARAM0 0
#endif
#ifndef V_PARAM1
#define V_PARAM1 0
#endif
#ifndef V_PARAM2
#define V_PARAM2 0
#endif
#ifndef V_PARAM3
#define V_PARAM3 0
#endif
#ifndef V_PARAM4
#define V_PARAM4 0
#endif
#ifndef V_PARAM5
#define V_PARAM5 0
#endif
#ifndef V_PARAM6
#define V_PARAM6 0
#endif
#ifndef V_PARAM7
#define V_PARAM7 0
#endif
u32 v_param(u32 k) { switch (k) { case 0: return V_PARAM0; case 1: return V_PARAM1; case 2: return V_PARAM2; case 3: return V_PARAM3; case 4: return V_PARAM4; case 5: return V_PARAM5; case 6: return V_PARAM6; case 7: return V_PARAM7; default: return 0; } }
void __cxa_pure_virtual(void) { __CPROVER_assert(0, "pure virtual call"); __CPROVER_assume(0); }
void _ZSt9terminatev(void) { __CPROVER_assert(0, "std::terminate"); __CPROVER_assume(0); }
void abort(void) { __CPROVER_assert(0, "abort"); __CPROVER_assume(0); }
void _ZNSt8ios_base4InitC1Ev(u8* p) {}
void _ZNSt8ios_base4InitD1Ev(u8* p) {}
u32 __cxa_atexit(fnptr_t f, u8* a, u8* d) { return 0; }
u32 __cxa_guard_acquire(u64* g) { return *(u8*)g == 0; }
void __cxa_guard_release(u64* g) { *(u8*)g = 1; }
void __cxa_guard_abort(u64* g) {}
/* sqrt: an UNINTERPRETED FUNCTION (equal arguments give equal results; a body-less C function would be a fresh
 * nondet per call) shared by implementation and oracle.  libm's sqrt/sqrtf (math-errno builds call them instead
 * of llvm.sqrt) are routed to the same symbol so that CBMC's expensive library model is not pulled in. */
double __CPROVER_uninterpreted_v_sqrt(double);
double v_sqrt(double x) { return __CPROVER_uninterpreted_v_sqrt(x); }
double sqrt(double x) { return v_sqrt(x); }
float sqrtf(float x) { return (float)v_sqrt((double)x); }
/* bcmp: what clang makes of std::equal over trivially comparable ranges */
u32 bcmp(u8* a, u8* b, u64 n) { for (u64 i = 0; i < n; ++i) if (a[i] != b[i]) return 1; return 0; }
double v_fabs(double x) { return x < 0 ? -x : (x == 0 ? 0.0 : x); }
/* exceptions */
u8* __cxa_allocate_exception(u64 n) { return (u8*)__CPROVER_allocate(n, 1); }
void __cxa_free_exception(u8* o) {}
#ifdef V_EH
void __cxa_throw(u8* o, u8* ti, u8* d) { v_exc = 1; v_exc_obj = o; v_exc_ti = ti; }
u8* __cxa_begin_catch(u8* p) { v_exc_caught++; return p; }
void __cxa_end_catch(void) { if (v_exc_caught) v_exc_caught--; }
void __cxa_rethrow(void) { v_exc = 1; }
#else
void __cxa_throw(u8* o, u8* ti, u8* d) { __CPROVER_assume(0); }
u8* __cxa_begin_catch(u8* p) { return p; }
void __cxa_end_catch(void) {}
void __cxa_rethrow(void) { __CPROVER_assume(0); }
#endif
void v_throw_std(u32 kind) { __CPROVER_assume(0); }   /* std::__throw_* without --eh: the path ends (stated) */
/* glibc's flag read by libstdc++'s shared_ptr refcount dispatch (__is_single_threaded): harnesses are single-threaded; without a
 * definition CBMC treats the extern as nondet and forks on every refcount operation (both branches are equivalent after -loweratomic) */
u8 __libc_single_threaded = 1;
/* allocation-order model for relational pointer comparison across distinct heap objects (see v_rt.h).  No loops: the rank lookup is
 * unrolled so that it needs no unwinding bound; every test is a __CPROVER_same_object of two concrete addresses, folded by symex. */
#define V_ALLOC_MAX 192
u8* v_alloc_t0[64]; u8* v_alloc_t1[64]; u8* v_alloc_t2[64]; u32 v_alloc_n;
void v_alloc_note(u8* p) { u32 n = v_alloc_n; if (n < 64) v_alloc_t0[n] = p; else if (n < 128) v_alloc_t1[n - 64] = p; else if (n < 192) v_alloc_t2[n - 128] = p; if (n < V_ALLOC_MAX) v_alloc_n = n + 1; }
void v_alloc_order_reset(void) { v_alloc_n = 0; }   /* harness: call at the start of a selector-dispatched case (keeps the counter concrete) */
#define V_RK1(T, base, k) if ((base) + (k) < n) { if (ra == V_ALLOC_MAX && __CPROVER_same_object(a, T[k])) ra = (base) + (k); if (rb == V_ALLOC_MAX && __CPROVER_same_object(b, T[k])) rb = (base) + (k); }
#define V_RK4(T, base, k) V_RK1(T, base, k) V_RK1(T, base, (k) + 1) V_RK1(T, base, (k) + 2) V_RK1(T, base, (k) + 3)
#define V_RK16(T, base, k) if ((base) + (k) < n) { V_RK4(T, base, k) V_RK4(T, base, (k) + 4) V_RK4(T, base, (k) + 8) V_RK4(T, base, (k) + 12) }
#define V_RK64(T, base) if ((base) < n) { V_RK16(T, base, 0) V_RK16(T, base, 16) V_RK16(T, base, 32) V_RK16(T, base, 48) }
u1 v_plt(u8* a, u8* b) {
  if (__CPROVER_same_object(a, b)) return a < b;
  u32 n = v_alloc_n, ra = V_ALLOC_MAX, rb = V_ALLOC_MAX;
  V_RK64(v_alloc_t0, 0) V_RK64(v_alloc_t1, 64) V_RK64(v_alloc_t2, 128)
  if (ra == V_ALLOC_MAX || rb == V_ALLOC_MAX) return a < b;
  return ra < rb;
}
