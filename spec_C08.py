PROPS["C08"] = dict(
  jobs=[
    dict(name="handles", harness="C08_handles.cpp", entries=["harness_handles"], units=["Core/Handles.cc"],
         unwind=4, solvers=["minisat"], timeout=300, mem_gb=2,
         bounds="every edge/face index in [0,2^30), every non-negative half-entity index (full int range)"),
  ],
  assumptions=[],
)

