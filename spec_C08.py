# C08: orientation algebra.  (i) handle conversions (C08_handles.cpp), (ii) mirror relation of the two sides of edges and faces (C08_mirror.cpp).
def _c08_vlist_shards(specs_):   # specs_: [(L, NV)] -> one shard per chunk of 8 vertex lists
    out = []
    for (L, NV) in specs_:
        for ch in range((NV ** L + CASES_PER_QUERY - 1) // CASES_PER_QUERY):
            out.append({0: L, 1: NV, 2: ch})
    return out
_C08_NONE = lambda bases: [{0: b, 1: 0, 2: OP_NONE, 3: 0} for b in bases]
_c08_ops_common = dict(harness="C08_mirror.cpp", entries=["harness_mirror_ops"], units=CORE, unwind=26, checks="none", object_bits=13, witness_any=True, mem_gb=6)
_C08_OPS_BOUNDS = ("every live face of the base mesh after ONE operation chosen by selector dispatch (8 argument tuples per query; shard = base, deletion mode, operation kind, chunk): "
    "halfface(hf) of both sides vs the stored definition (side 1 = reversed list of opposite halfedges), opposite of opposite = identity, closed loop, "
    "halfface_vertices/halfedges/edges of both sides and face_vertices/halfedges/edges (one lap, elements, the two sides enumerate the same cycle in opposite directions), "
    "next/prev_halfedge_in_halfface (for halfedges occurring once in the face) with a free symbolic position in the cycle; halfedge(h^1) swaps from/to for a free symbolic halfedge probe; ")

PROPS["C08"] = dict(
  jobs=[
    dict(name="handles", harness="C08_handles.cpp", entries=["harness_handles"], units=["Core/Handles.cc"],
         unwind=4, solvers=["minisat"], timeout=300, mem_gb=2,
         bounds="every edge/face index in [0,2^30), every non-negative half-entity index (full int range)"),
    dict(name="mirror-vlist", harness="C08_mirror.cpp", entries=["harness_mirror_vlist"], units=CORE, unwind=26, checks="none", object_bits=13, witness_any=True,
         shards={"quick": _c08_vlist_shards([(1, 5), (2, 5), (3, 3), (4, 2), (5, 2)]),
                 "thorough": _c08_vlist_shards([(1, 5), (2, 5), (3, 4), (4, 3), (5, 3)])},
         timeout={"quick": 300, "thorough": 900}, mem_gb=6,
         bounds="face built by add_face(vertex list) on a 5-vertex mesh that already holds edge (1,0): EVERY vertex list of length L over the first NV vertices (loops, 2-gons, repeated "
                "vertices included), selector dispatch, 8 lists per query; quick (L,NV) = (1,5) (2,5) (3,3) (4,2) (5,2), thorough (1,5) (2,5) (3,4) (4,3) (5,3); checked: the face visits "
                "the given vertices in order, is a closed loop, halfface(hf^1) = reversed opposite halfedges, double opposite = identity, the six circulators of both sides, next/prev "
                "(halfedges occurring once in the face), halfedge(h^1) swaps from/to (free symbolic halfedge probe and position in the cycle); outside: valence > 5, larger vertex sets"),
    dict(name="mirror-accept", harness="C08_mirror.cpp", entries=["harness_mirror_accept"], units=CORE, unwind=26, checks="none", object_bits=13,
         shards=[{0: L} for L in (1, 2, 3, 4, 5)], timeout=300, mem_gb=4,
         bounds="add_face(halfedge list, topologyCheck=true) with a FREE SYMBOLIC halfedge list of length L = 1..5 over the 14 halfedges of a fixed edge set on 4 vertices (triangle, "
                "chord stored in reverse, duplicate edge, loop edge), edge bottom-up incidences off: an accepted list is a closed loop and is stored unchanged"),
    dict(name="mirror-helist", harness="C08_mirror.cpp", entries=["harness_mirror_helist"], units=CORE, unwind=26, checks="none", object_bits=13,
         shards=[{0: L} for L in (1, 2, 3, 4, 5)], timeout={"quick": 300, "thorough": 900}, mem_gb=4,
         bounds="EVERY closed halfedge loop of length L = 1..5 over the same 14 halfedges (free symbolic list, assumed closed, stored by add_face without the check; edge bottom-up "
                "incidences off): all mirror obligations of mirror-vlist for the resulting face"),
    dict(name="mirror-base", shards=_C08_NONE([B_LOWDIM, B_TRI2, B_TET, B_TET2_FACE]), timeout={"quick": 300, "thorough": 900},
         bounds=_C08_OPS_BOUNDS + "here: no operation, bases: triangle+dangling/duplicate edge, two triangles, tetrahedron, two tetrahedra sharing a face",
         **_c08_ops_common),
    dict(name="mirror-base-big", tiers=["thorough"], shards=_C08_NONE([B_HEX, B_PRISM_PYR, B_TET2_EDGE, B_TET3_RING, B_HEX2]), timeout=1500,
         bounds=_C08_OPS_BOUNDS + "here: no operation, bases: hexahedron, prism+pyramid (mixed valences), two tetrahedra sharing an edge, three tetrahedra around an edge, two hexahedra",
         **_c08_ops_common),
    dict(name="mirror-ops-tri2", shards=op_shards([B_TRI2], [0], [OP_SWAP_V, OP_SWAP_E, OP_SWAP_F, OP_DEL_V, OP_DEL_E, OP_DEL_F]) + op_shards([B_TRI2], [3], [OP_DEL_V, OP_DEL_E]),
         timeout={"quick": 300, "thorough": 900}, bounds=_C08_OPS_BOUNDS + "here: two triangles sharing an edge; every swap_vertex/edge/face_indices pair, every delete_vertex/edge/face (immediate deletion), "
         "delete_vertex/edge with deferred+fast deletion", **_c08_ops_common),
    dict(name="mirror-ops-tet", tiers=["thorough"],
         shards=op_shards([B_TET], [0], [OP_SWAP_V, OP_SWAP_E, OP_SWAP_F, OP_SWAP_C, OP_DEL_V, OP_DEL_E, OP_DEL_F, OP_DEL_C, OP_GC, OP_ADD_E])
                + op_shards([B_TET], [1, 2, 3], [OP_DEL_V, OP_DEL_E, OP_DEL_F]) + op_shards([B_LOWDIM], [0, 2], [OP_DEL_V, OP_DEL_E, OP_SWAP_E]),
         timeout=1500, bounds=_C08_OPS_BOUNDS + "here: one tetrahedron with every swap pair / deletion (all four deletion modes) / collect_garbage / add_edge, and the low-dimensional "
         "base with deletions and edge swaps", **_c08_ops_common),
  ],
  assumptions=[
    "next/prev_halfedge_in_halfface are asserted only for halfedges that occur exactly once in the face (the interface identifies the position by the halfedge handle)",
    "the face circulators are compared as cyclic sequences (the rotation at which a circulator starts is not prescribed by the property)",
  ],
)
