#!/usr/bin/env python3
"""Markdown table of seeded/RESULTS.json for DESIGN.md section 8."""
import json, os
V = os.path.dirname(os.path.dirname(os.path.abspath(__file__)))
res = json.load(open(os.path.join(V, "seeded", "RESULTS.json")))
print("| change | property | what it does / needs | quick check | thorough / targeted | ")
print("|---|---|---|---|---|")
for n in sorted(os.listdir(os.path.join(V, "seeded"))):
    mp = os.path.join(V, "seeded", n, "meta.json")
    if not os.path.exists(mp): continue
    m = json.load(open(mp)); r = res.get(n, {})
    prop = m["property"]
    def cell(tier):
        out = []
        for k, v in sorted(r.items()):
            if not isinstance(v, dict) or len(k.split(":")) < 2 or k.split(":")[1] != tier: continue
            c = k.split(":")[0]
            if v.get("caught"):
                q = [l for l in v.get("violations", []) if l.strip().startswith("query=")]
                job = q[0].split("query=")[1].split("/")[0] if q else ""
                tgt = (" [only %s %s]" % (v.get("job") or "", v.get("shard_filter") or "")) if (v.get("job") or v.get("shard_filter")) else ""
                out.append("**caught** by %s (`%s`)%s, %ds" % (c, job, tgt, v.get("wall_s", 0)))
            else:
                extra = ""
                if v.get("not_covered"): extra = ", %d queries not covered" % v["not_covered"]
                if v.get("tool_errors"): extra += ", tool errors"
                out.append("missed by %s%s" % (c, extra))
        return "; ".join(out) or "-"
    summ = (m.get("summary") or "").replace("|", "/").replace("\n", " ")
    print("| %s | %s | %s | %s | %s |" % (n, prop, summ[:230] + ("…" if len(summ) > 230 else ""), cell("quick"), cell("thorough")))
