// ll2c: LLVM-14 IR (typed pointers) -> C for CBMC.  Prototype.
#include "llvm/IR/LLVMContext.h"
#include "llvm/IR/Module.h"
#include "llvm/IR/Instructions.h"
#include "llvm/IR/IntrinsicInst.h"
#include "llvm/IR/Constants.h"
#include "llvm/IR/DataLayout.h"
#include "llvm/IR/CFG.h"
#include "llvm/IR/Operator.h"
#include "llvm/IRReader/IRReader.h"
#include "llvm/Support/SourceMgr.h"
#include "llvm/Support/raw_ostream.h"
#include "llvm/ADT/SmallString.h"
#include "llvm/Demangle/Demangle.h"
#include "llvm/IR/LegacyPassManager.h"
#include "llvm/Pass.h"
#include "llvm/Transforms/IPO.h"
#include <map>
#include <set>
#include <string>
#include <vector>
#include <sstream>
#include <algorithm>
using namespace llvm;

static bool EH = false;       // model exceptions
static bool UBARITH = false;  // assert on nsw/nuw overflow
static bool STOREHOOK = false; // instrument stores (C20)
static bool NULLGUARD = false; // end a path with a failed assertion at the first access through a pointer into the null object
static bool BYTELOOPS = false; // opt-in (IO byte-level jobs): i8 memcpy/memmove/memset that cannot be resolved to typed leaves -> inline byte loops instead of CBMC's array_replace/array_set models

static std::map<Type*, std::string> tname;
static std::vector<StructType*> structOrder;
static std::vector<ArrayType*> arrOrder;
static std::vector<FixedVectorType*> vecOrder;
static std::vector<FunctionType*> fnOrder;
static std::map<FunctionType*, std::string> fnTypeName;
static std::string typedefs_fn;
static const DataLayout *DL;
static std::vector<std::string> stubbed;

static std::string san(StringRef s) {
  std::string r;
  for (char c : s) r += (isalnum((unsigned char)c) || c == '_') ? c : '_';
  if (r.empty() || isdigit((unsigned char)r[0])) r = "_" + r;
  return r;
}

static std::string ctype(Type *T);

static std::string structName(StructType *S) {
  auto it = tname.find(S);
  if (it != tname.end()) return it->second;
  std::string n = "struct S" + std::to_string(structOrder.size());
  if (S->hasName()) n += "_" + san(S->getName()).substr(0, 40);
  tname[S] = n;
  structOrder.push_back(S);
  return n;
}

static std::string ctype(Type *T) {
  auto it = tname.find(T);
  if (it != tname.end()) return it->second;
  std::string r;
  if (T->isVoidTy()) r = "void";
  else if (auto *I = dyn_cast<IntegerType>(T)) {
    unsigned b = I->getBitWidth();
    if (b == 1) r = "u1";
    else if (b <= 8) r = "u8";
    else if (b <= 16) r = "u16";
    else if (b <= 32) r = "u32";
    else if (b <= 64) r = "u64";
    else if (b <= 128) r = "u128";
    else { errs() << "unsupported int width " << b << "\n"; r = "u128"; }
  } else if (T->isFloatTy()) r = "float";
  else if (T->isDoubleTy()) r = "double";
  else if (T->isX86_FP80Ty()) r = "long double";
  else if (auto *P = dyn_cast<PointerType>(T)) {
    Type *E = P->getPointerElementType();
    if (E->isFunctionTy()) r = "fnptr_t";
    else if (E->isVoidTy()) r = "u8*";
    else r = ctype(E) + "*";
  } else if (auto *S = dyn_cast<StructType>(T)) {
    return structName(S);
  } else if (auto *A = dyn_cast<ArrayType>(T)) {
    // force element first
    std::string e = ctype(A->getElementType());
    (void)e;
    r = "struct A" + std::to_string(arrOrder.size());
    tname[T] = r;
    arrOrder.push_back(A);
    return r;
  } else if (T->isFunctionTy()) {
    r = "void";
  } else if (T->isMetadataTy() || T->isLabelTy() || T->isTokenTy()) {
    r = "int";
  } else if (auto *V = dyn_cast<FixedVectorType>(T)) {
    // ABI-coerced small aggregates (e.g. VectorT<float,4> passed as two <2 x float>): a struct with the same bytes; only
    // whole-value load/store/call-argument uses are supported (any vector arithmetic is reported as unsupported instruction)
    std::string e = ctype(V->getElementType());
    (void)e;
    r = "struct VV" + std::to_string(vecOrder.size());
    tname[T] = r;
    vecOrder.push_back(V);
    return r;
  } else if (T->isVectorTy()) {
    errs() << "vector type unsupported\n";
    r = "u128";
  } else {
    errs() << "unknown type\n"; T->print(errs()); errs() << "\n";
    r = "int";
  }
  tname[T] = r;
  return r;
}

static std::string fnTypedef(FunctionType *FT) {
  auto it = fnTypeName.find(FT);
  if (it != fnTypeName.end()) return it->second;
  std::string n = "FT" + std::to_string(fnOrder.size());
  fnTypeName[FT] = n;
  fnOrder.push_back(FT);
  std::string s = "typedef " + ctype(FT->getReturnType()) + " (*" + n + ")(";
  bool first = true;
  for (Type *P : FT->params()) { if (!first) s += ", "; s += ctype(P); first = false; }
  if (FT->isVarArg()) s += first ? "void" : ", ...";
  else if (first) s += "void";
  s += ");\n";
  typedefs_fn += s;
  return n;
}

// Typed storage override (C13/C14): libstdc++'s __gnu_cxx::__aligned_buffer<T> (the object slot of make_shared's control block) is
// { [sizeof(T) x i8] } in the IR; as a C byte array CBMC cannot constant-fold the pointers/vptr stored in it (arrays > 64 elements are not
// field-sensitive).  When the module's bitcasts identify a unique struct T of exactly that size, the C struct is emitted as { T f0; } and
// every path through it (GEP / constant-offset typed paths / leaves) is resolved inside T by byte offset.  Same layout, same bytes.
static std::map<StructType*, Type*> ovT;
static Type *ovElem(Type *S) { auto it = ovT.find(dyn_cast_or_null<StructType>(S)); return it == ovT.end() ? nullptr : it->second; }
static bool typedPath(Type *T, uint64_t off, Type *want, std::string &path);
static Type *g_foundTy;
// continue designator e (an lvalue of overridden struct type S) by the remaining GEP indices idxV[i..] (idxV[i] indexes S itself)
static bool ovGepTail(StructType *S, std::string &e, ArrayRef<Value*> idxV, unsigned i, Type *&cur) {
  SmallVector<Value*, 8> ix; ix.push_back(ConstantInt::get(Type::getInt64Ty(S->getContext()), 0));
  for (unsigned k = i; k < idxV.size(); ++k) { if (!isa<ConstantInt>(idxV[k])) { errs() << "unsupported gep: symbolic index through typed-storage override\n"; return false; } ix.push_back(idxV[k]); }
  int64_t off = DL->getIndexedOffsetInType(S, ix);
  std::string p;
  if (off >= 0 && typedPath(ovElem(S), (uint64_t)off, nullptr, p)) { e += ".f0" + p; cur = g_foundTy; return true; }
  e = "(*((u8*)&" + e + " + " + std::to_string(off) + "))"; cur = Type::getInt8Ty(S->getContext());
  return true;
}

// Several same-size candidates for one __aligned_buffer type (llvm-link unifies the isomorphic buffer/control-block types of e.g.
// make_shared<PropertyStorageT<int>> and make_shared<PropertyStorageT<OpenVolumeMeshStatus>>): the C struct stays a byte buffer, but each
// ALLOCATION of an enclosing control block gets its own synthesized C struct type in which the buffer is { T f0; } for the T of that
// allocation site (chosen from the demangled names of the enclosing function and of the callees receiving the new pointer).  The dynamic
// object is then typed and field-sensitive; accesses through the byte-typed pointers are resolved by CBMC by offset (same layout).
static std::map<StructType*, std::set<Type*>> ovAmbig;      // buffer type -> candidate element types
static std::map<Type*, std::string> ovClassName;            // candidate -> demangled class name (from its constructors/destructors)
static std::string synthDefs; static unsigned synthCount = 0;
static std::map<std::pair<Type*, Type*>, std::string> synthNames;
static bool containsType(Type *X, StructType *S) {
  if (X == S) return true;
  if (auto *ST = dyn_cast<StructType>(X)) { if (ST->isOpaque()) return false; for (Type *E : ST->elements()) if (containsType(E, S)) return true; }
  return false;
}
static StructType *findAmbigIn(Type *X) {
  auto *ST = dyn_cast<StructType>(X); if (!ST || ST->isOpaque()) return nullptr;
  if (ovAmbig.count(ST)) return ST;
  for (Type *E : ST->elements()) if (StructType *r = findAmbigIn(E)) return r;
  return nullptr;
}
// C type of X with the buffer type S replaced by { T f0; } (structs on the path are cloned; everything else keeps its type)
static std::string synthType(Type *X, StructType *S, Type *T) {
  if (!containsType(X, S)) return ctype(X);
  auto key = std::make_pair(X, T);
  auto it = synthNames.find(key); if (it != synthNames.end()) return it->second;
  auto *ST = cast<StructType>(X);
  std::string n = "struct VT" + std::to_string(synthCount++);
  synthNames[key] = n;
  std::string d;
  if (ST == S) d = n + " { " + ctype(T) + " f0; };\n";
  else {
    std::string body; unsigned i = 0;
    for (Type *E : ST->elements()) body += " " + synthType(E, S, T) + " f" + std::to_string(i++) + ";";
    d = n + " {" + body + " }" + (ST->isPacked() ? " __attribute__((packed))" : "") + ";\n";
  }
  synthDefs += d;
  return n;
}
static std::string demangled(StringRef n) {
  std::string s = n.str(); char *d = itaniumDemangle(s.c_str(), nullptr, nullptr, nullptr);
  if (!d) return s; std::string r(d); std::free(d); return r;
}

// emit struct/array definitions in dependency order
static std::set<Type*> emitted, visiting;
static void emitTypeDef(Type *T, raw_ostream &O) {
  if (auto *S = dyn_cast<StructType>(T)) {
    if (emitted.count(S)) return;
    if (S->isOpaque()) { emitted.insert(S); return; }
    if (visiting.count(S)) return;
    if (Type *OT = ovElem(S)) {
      visiting.insert(S); emitTypeDef(OT, O); visiting.erase(S); emitted.insert(S);
      O << structName(S) << " { " << ctype(OT) << " f0; };\n";
      return;
    }
    visiting.insert(S);
    for (Type *E : S->elements()) emitTypeDef(E, O);
    visiting.erase(S);
    emitted.insert(S);
    O << structName(S) << " {";
    unsigned i = 0;
    for (Type *E : S->elements()) { O << " " << ctype(E) << " f" << i++ << ";"; }
    if (S->getNumElements() == 0) O << " u8 _empty[0];";
    O << " }" << (S->isPacked() ? " __attribute__((packed))" : "") << ";\n";
  } else if (auto *A = dyn_cast<ArrayType>(T)) {
    if (emitted.count(A)) return;
    emitTypeDef(A->getElementType(), O);
    emitted.insert(A);
    uint64_t n = A->getNumElements();
    O << ctype(A) << " { " << ctype(A->getElementType()) << " e[" << n << "]; };\n";
  }
}

struct FnEmitter;
static std::string constExpr(Constant *C, bool inInit);

static std::string gname(GlobalValue *G) { return san(G->getName()); }

static std::string intLit(const APInt &v, Type *T) {
  unsigned b = v.getBitWidth();
  SmallString<40> s;
  v.toStringUnsigned(s);
  if (b > 64) {
    // split
    uint64_t lo = v.extractBitsAsZExtValue(64, 0);
    uint64_t hi = v.extractBitsAsZExtValue(b - 64, 64);
    return "((((u128)" + std::to_string(hi) + "ULL)<<64)|(u128)" + std::to_string(lo) + "ULL)";
  }
  return "((" + ctype(T) + ")" + s.str().str() + "ULL)";
}

static std::string fpLit(const APFloat &f, Type *T) {
  APInt bits = f.bitcastToAPInt();
  if (T->isFloatTy()) return "u2f(" + std::to_string((uint32_t)bits.getZExtValue()) + "U)";
  if (T->isDoubleTy()) return "u2d(" + std::to_string(bits.getZExtValue()) + "ULL)";
  return "0.0L";
}

static std::string gepExpr(Type *srcElemTy, const std::string &base, ArrayRef<std::string> idx, ArrayRef<Value*> idxV, Type **outTy = nullptr) {
  // base is expression of type srcElemTy*
  std::string e;
  Type *cur = srcElemTy;
  bool zero0 = false;
  if (auto *CI = dyn_cast<ConstantInt>(idxV[0])) zero0 = CI->isZero();
  if (idx.size() == 1) {
    if (outTy) *outTy = cur;
    if (zero0) return base;
    return "(" + base + " + (s64)" + idx[0] + ")";
  }
  if (zero0) e = "(*" + base + ")";
  else e = "(" + base + ")[(s64)" + idx[0] + "]";
  for (unsigned i = 1; i < idx.size(); ++i) {
    if (ovElem(cur)) { ovGepTail(cast<StructType>(cur), e, idxV, i, cur); break; }
    if (auto *S = dyn_cast<StructType>(cur)) {
      auto *CI = cast<ConstantInt>(idxV[i]);
      unsigned k = CI->getZExtValue();
      e += ".f" + std::to_string(k);
      cur = S->getElementType(k);
    } else if (auto *A = dyn_cast<ArrayType>(cur)) {
      e += ".e[(s64)" + idx[i] + "]";
      cur = A->getElementType();
    } else if (auto *VT = dyn_cast<FixedVectorType>(cur)) {   // element of an ABI-coerced <N x T> temporary (struct VV { T e[N]; })
      e += ".e[(s64)" + idx[i] + "]";
      cur = VT->getElementType();
    } else {
      errs() << "bad gep\n";
    }
  }
  if (outTy) *outTy = cur;
  return "(&" + e + ")";
}

// lvalue form of a GEP (no address-of): used to access memory directly instead of through a materialised
// pointer -- CBMC 6.11 mis-evaluates *(&s.arr[sym].inner[k]) for arrays of array-containing structs at a
// non-zero struct offset (minimal reproducer in DESIGN.md), while the direct access is handled correctly.
static std::string gepLvalue(Type *srcElemTy, const std::string &base, ArrayRef<std::string> idx, ArrayRef<Value*> idxV) {
  std::string e;
  Type *cur = srcElemTy;
  bool zero0 = false;
  if (auto *CI = dyn_cast<ConstantInt>(idxV[0])) zero0 = CI->isZero();
  if (zero0) e = "(*" + base + ")"; else e = "(" + base + ")[(s64)" + idx[0] + "]";
  for (unsigned i = 1; i < idx.size(); ++i) {
    if (ovElem(cur)) { ovGepTail(cast<StructType>(cur), e, idxV, i, cur); break; }
    if (auto *S = dyn_cast<StructType>(cur)) { unsigned k = cast<ConstantInt>(idxV[i])->getZExtValue(); e += ".f" + std::to_string(k); cur = S->getElementType(k); }
    else if (auto *A = dyn_cast<ArrayType>(cur)) { e += ".e[(s64)" + idx[i] + "]"; cur = A->getElementType(); }
    else if (auto *VT = dyn_cast<FixedVectorType>(cur)) { e += ".e[(s64)" + idx[i] + "]"; cur = VT->getElementType(); }
  }
  return e;
}

static std::string castTo(Type *T, const std::string &e) { return "((" + ctype(T) + ")" + e + ")"; }

static std::string sty(Type *T) { // signed counterpart
  unsigned b = T->getIntegerBitWidth();
  if (b <= 8) return "s8"; if (b <= 16) return "s16"; if (b <= 32) return "s32"; if (b <= 64) return "s64"; return "s128";
}
static std::string sext(const std::string &e, Type *T) {
  unsigned b = T->getIntegerBitWidth();
  if (b == 1) return "((s64)-(s64)(" + e + "))";
  if (b == 8 || b == 16 || b == 32 || b == 64 || b == 128) return "((" + sty(T) + ")" + e + ")";
  // odd width: shift up/down
  unsigned cb = b <= 8 ? 8 : b <= 16 ? 16 : b <= 32 ? 32 : b <= 64 ? 64 : 128;
  return "((" + sty(T) + ")((" + sty(T) + ")((" + ctype(T) + ")" + e + " << " + std::to_string(cb - b) + ") >> " + std::to_string(cb - b) + "))";
}
static std::string maskTo(const std::string &e, Type *T) {
  unsigned b = T->getIntegerBitWidth();
  if (b == 1) return "((u1)((" + e + ")&1))";
  if (b == 8 || b == 16 || b == 32 || b == 64 || b == 128) return "((" + ctype(T) + ")(" + e + "))";
  APInt m = APInt::getLowBitsSet(b <= 64 ? 64 : 128, b);
  return "((" + ctype(T) + ")((" + e + ") & " + std::to_string(m.getZExtValue()) + "ULL))";
}

static std::string constAggInit(Constant *C);
static std::map<std::string, unsigned> typeIds; // typeinfo global name -> selector id
static unsigned typeIdOf(Constant *c) {
  c = c->stripPointerCasts();
  if (isa<ConstantPointerNull>(c)) return 9999;
  std::string n = c->getName().str();
  auto it = typeIds.find(n);
  if (it != typeIds.end()) return it->second;
  unsigned id = typeIds.size() + 1; typeIds[n] = id; return id;
}
static bool constString(Value *V, std::string &out) {
  V = V->stripPointerCasts();
  if (auto *CE = dyn_cast<ConstantExpr>(V)) if (CE->getOpcode() == Instruction::GetElementPtr) V = CE->getOperand(0)->stripPointerCasts();
  auto *GV = dyn_cast<GlobalVariable>(V);
  if (!GV || !GV->hasInitializer()) return false;
  if (auto *CD = dyn_cast<ConstantDataSequential>(GV->getInitializer())) { if (CD->isString() || CD->isCString()) { out = CD->getAsString().str(); while (!out.empty() && out.back() == 0) out.pop_back(); return true; } }
  if (isa<ConstantAggregateZero>(GV->getInitializer())) { out = ""; return true; }
  return false;
}
static std::string cEscape(const std::string &s) { std::string r; for (char c : s) { if (c == '"' || c == '\\') { r += '\\'; r += c; } else if (c == '\n') r += "\\n"; else if ((unsigned char)c < 32 || (unsigned char)c > 126) r += '?'; else r += c; } return r; }

static std::string constExpr(Constant *C, bool inInit) {
  Type *T = C->getType();
  if (auto *CI = dyn_cast<ConstantInt>(C)) return intLit(CI->getValue(), T);
  if (auto *CF = dyn_cast<ConstantFP>(C)) return fpLit(CF->getValueAPF(), T);
  if (isa<ConstantPointerNull>(C)) return "((" + ctype(T) + ")0)";
  if (isa<UndefValue>(C)) {
    if (T->isStructTy() || T->isArrayTy() || T->isVectorTy()) return "((" + ctype(T) + "){0})";
    if (T->isPointerTy()) return "((" + ctype(T) + ")0)";
    if (T->isFloatingPointTy()) return "0.0";
    return "((" + ctype(T) + ")0)";
  }
  if (auto *F = dyn_cast<Function>(C)) return "((fnptr_t)" + gname(F) + ")";
  if (auto *GV = dyn_cast<GlobalVariable>(C)) return "(&" + gname(GV) + ")";
  if (auto *GA = dyn_cast<GlobalAlias>(C)) return constExpr(GA->getAliasee(), inInit);
  if (isa<ConstantAggregateZero>(C) || isa<ConstantAggregate>(C) || isa<ConstantDataSequential>(C)) {
    return "((" + ctype(T) + ")" + constAggInit(C) + ")";
  }
  if (auto *CE = dyn_cast<ConstantExpr>(C)) {
    unsigned op = CE->getOpcode();
    switch (op) {
    case Instruction::BitCast: case Instruction::AddrSpaceCast: {
      Constant *o = CE->getOperand(0);
      if (T->isPointerTy()) return "((" + ctype(T) + ")" + constExpr(o, inInit) + ")";
      break; }
    case Instruction::PtrToInt: return "((" + ctype(T) + ")(u64)" + constExpr(CE->getOperand(0), inInit) + ")";
    case Instruction::IntToPtr: return "((" + ctype(T) + ")(u64)" + constExpr(CE->getOperand(0), inInit) + ")";
    case Instruction::GetElementPtr: {
      auto *G = cast<GEPOperator>(CE);
      std::vector<std::string> idx; std::vector<Value*> iv;
      for (auto it = G->idx_begin(); it != G->idx_end(); ++it) {
        auto *c = cast<Constant>(*it);
        idx.push_back(sext(constExpr(c, inInit), c->getType())); iv.push_back(c);
      }
      std::string base = constExpr(cast<Constant>(G->getPointerOperand()), inInit);
      std::string e = gepExpr(G->getSourceElementType(), base, idx, iv);
      return "((" + ctype(T) + ")" + e + ")";
    }
    case Instruction::Add: return maskTo(constExpr(CE->getOperand(0), inInit) + "+" + constExpr(CE->getOperand(1), inInit), T);
    case Instruction::Sub: return maskTo(constExpr(CE->getOperand(0), inInit) + "-" + constExpr(CE->getOperand(1), inInit), T);
    case Instruction::Trunc: case Instruction::ZExt: return maskTo(constExpr(CE->getOperand(0), inInit), T);
    default: break;
    }
    errs() << "unsupported constexpr: "; CE->print(errs()); errs() << "\n";
    return "0/*constexpr*/";
  }
  errs() << "unsupported constant: "; C->print(errs()); errs() << "\n";
  return "0/*const*/";
}

static std::string constAggInit(Constant *C) {
  Type *T = C->getType();
  if (isa<ConstantAggregateZero>(C) || isa<UndefValue>(C)) {
    return "{0}";
  }
  if (auto *CS = dyn_cast<ConstantStruct>(C)) {
    std::string s = "{";
    for (unsigned i = 0; i < CS->getNumOperands(); ++i) {
      Constant *o = CS->getOperand(i);
      if (i) s += ", ";
      if (o->getType()->isStructTy() || o->getType()->isArrayTy()) s += constAggInit(o);
      else s += constExpr(o, true);
    }
    if (CS->getNumOperands() == 0) s += "0";
    return s + "}";
  }
  if (auto *CA = dyn_cast<ConstantArray>(C)) {
    std::string s = "{{";
    for (unsigned i = 0; i < CA->getNumOperands(); ++i) {
      Constant *o = CA->getOperand(i);
      if (i) s += ", ";
      if (o->getType()->isStructTy() || o->getType()->isArrayTy()) s += constAggInit(o);
      else s += constExpr(o, true);
    }
    return s + "}}";
  }
  if (auto *CD = dyn_cast<ConstantDataSequential>(C)) {
    std::string s = "{{";
    for (unsigned i = 0; i < CD->getNumElements(); ++i) {
      if (i) s += ", ";
      s += constExpr(CD->getElementAsConstant(i), true);
    }
    return s + "}}";
  }
  (void)T;
  return "{" + constExpr(C, true) + "}";
}



static bool typedPath(Type *T, uint64_t off, Type *want, std::string &path) {   // g_foundTy: declared above (typed storage override)
  if (off == 0 && T == want) { g_foundTy = T; return true; }
  if (off == 0 && want && want->isPointerTy() && T->isPointerTy()) { g_foundTy = T; return true; }
  if (off == 0 && !want && !T->isStructTy() && !T->isArrayTy()) { g_foundTy = T; return true; }
  if (auto *S = dyn_cast<StructType>(T)) {
    if (S->isOpaque() || S->getNumElements() == 0) return false;
    if (Type *OT = ovElem(S)) { std::string p = path + ".f0"; if (typedPath(OT, off, want, p)) { path = p; return true; } return false; }
    const StructLayout *SL = DL->getStructLayout(S);
    if (off >= SL->getSizeInBytes()) return false;
    unsigned idx = SL->getElementContainingOffset(off);
    // skip zero-sized leading members that share the offset
    for (unsigned k = idx; k < S->getNumElements(); ++k) {
      uint64_t eo = SL->getElementOffset(k);
      if (eo > off) break;
      Type *ET = S->getElementType(k);
      if (!ET->isSized()) continue;
      uint64_t esz = DL->getTypeAllocSize(ET);
      if (off - eo >= esz && !(esz == 0 && off == eo)) continue;
      std::string p = path + ".f" + std::to_string(k);
      if (typedPath(ET, off - eo, want, p)) { path = p; return true; }
    }
    return false;
  }
  if (auto *A = dyn_cast<ArrayType>(T)) {
    uint64_t es = DL->getTypeAllocSize(A->getElementType());
    if (es == 0) return false;
    uint64_t idx = off / es;
    if (idx >= A->getNumElements()) return false;
    std::string p = path + ".e[" + std::to_string(idx) + "]";
    if (typedPath(A->getElementType(), off - idx * es, want, p)) { path = p; return true; }
    return false;
  }
  return false;
}

struct Leaf { std::string lv; uint64_t off; uint64_t sz; Type *T; };
static void collectLeaves(Type *T, const std::string &lv, uint64_t off, std::vector<Leaf> &out) {
  if (auto *S = dyn_cast<StructType>(T)) {
    if (S->isOpaque()) return;
    if (Type *OT = ovElem(S)) { collectLeaves(OT, lv + ".f0", off, out); return; }
    const StructLayout *SL = DL->getStructLayout(S);
    for (unsigned i = 0; i < S->getNumElements(); ++i)
      collectLeaves(S->getElementType(i), lv + ".f" + std::to_string(i), off + SL->getElementOffset(i), out);
  } else if (auto *A = dyn_cast<ArrayType>(T)) {
    uint64_t es = DL->getTypeAllocSize(A->getElementType());
    for (uint64_t j = 0; j < A->getNumElements(); ++j)
      collectLeaves(A->getElementType(), lv + ".e[" + std::to_string(j) + "]", off + j * es, out);
  } else {
    out.push_back({lv, off, (uint64_t)DL->getTypeStoreSize(T), T});
  }
}
// leaves of the object pointed to by V (after stripping casts/const GEPs) covering [off, off+N); false if not exact
template <class VALF>
static bool rangeLeaves(Value *V, uint64_t N, VALF valf, std::vector<Leaf> &out) {
  APInt off(64, 0);
  Value *base = V->stripAndAccumulateConstantOffsets(*DL, off, true);
  if (auto *PT0 = dyn_cast<PointerType>(base->getType())) if (!PT0->getPointerElementType()->isStructTy() && !PT0->getPointerElementType()->isArrayTy()) {
    // stripped down to an untyped pointer (the i8* returned by operator new): use the deepest aggregate-typed pointer on the chain instead
    APInt o2(64, 0); Value *cur = V, *best = nullptr; APInt bestOff(64, 0);
    for (;;) {
      if (auto *P = dyn_cast<PointerType>(cur->getType())) { Type *e = P->getPointerElementType(); if ((e->isStructTy() || e->isArrayTy()) && e->isSized()) { best = cur; bestOff = o2; } }
      if (auto *G = dyn_cast<GEPOperator>(cur)) { APInt g(64, 0); if (!G->accumulateConstantOffset(*DL, g)) break; o2 += g; cur = G->getPointerOperand(); }
      else if (auto *B = dyn_cast<BitCastOperator>(cur)) cur = B->getOperand(0);
      else break;
    }
    if (best) { base = best; off = bestOff; }
  }
  if (off.isNegative()) return false;
  uint64_t o = off.getZExtValue();
  auto *PT = dyn_cast<PointerType>(base->getType());
  if (!PT) return false;
  Type *ET = PT->getPointerElementType();
  if (!ET->isSized() || ET->isFunctionTy()) return false;
  if (o + N > DL->getTypeAllocSize(ET)) return false;
  std::vector<Leaf> all;
  collectLeaves(ET, "(*" + valf(base) + ")", 0, all);
  uint64_t covered = 0;
  for (auto &l : all) {
    bool in = l.off >= o && l.off + l.sz <= o + N;
    bool outb = l.off + l.sz <= o || l.off >= o + N;
    if (!in && !outb) return false;
    if (in) { Leaf r = l; r.off -= o; out.push_back(r); covered += l.sz; }
  }
  return !out.empty();
}

struct FnEmitter {
  Function &F;
  raw_ostream &O;
  std::map<Value*, std::string> names;
  std::map<BasicBlock*, std::string> bbn;
  unsigned nv = 0;
  FnEmitter(Function &f, raw_ostream &o) : F(f), O(o) {}

  std::string val(Value *V) {
    if (auto *C = dyn_cast<Constant>(V)) {
      if (isa<UndefValue>(C) && !C->getType()->isAggregateType() && !C->getType()->isVectorTy()) {
        // nondet
        Type *T = C->getType();
        if (T->isPointerTy()) return "((" + ctype(T) + ")0)";
        return "((" + ctype(T) + ")0)";
      }
      return constExpr(C, false);
    }
    auto it = names.find(V);
    if (it != names.end()) return it->second;
    errs() << "unnamed value "; V->print(errs()); errs() << "\n";
    return "0/*?*/";
  }
  std::string sval(Value *V) { return sext(val(V), V->getType()); }

  static std::string fproto(Function &F, bool withNames) {
    FunctionType *FT = F.getFunctionType();
    std::string s = ctype(FT->getReturnType()) + " " + gname(&F) + "(";
    unsigned i = 0;
    for (Type *P : FT->params()) { if (i) s += ", "; s += ctype(P); if (withNames) s += " a" + std::to_string(i); ++i; }
    if (FT->isVarArg()) s += i ? ", ..." : "void";
    else if (i == 0) s += "void";
    return s + ")";
  }

  void phiCopies(BasicBlock *from, BasicBlock *to, const std::string &ind) {
    std::vector<std::pair<std::string,std::string>> cp;
    for (PHINode &P : to->phis()) {
      Value *in = P.getIncomingValueForBlock(from);
      if (isa<UndefValue>(in)) continue;
      cp.push_back({names[&P], val(in)});
    }
    if (cp.size() == 1) { O << ind << cp[0].first << " = " << cp[0].second << ";\n"; return; }
    // two-phase
    unsigned k = 0;
    for (PHINode &P : to->phis()) {
      Value *in = P.getIncomingValueForBlock(from);
      if (isa<UndefValue>(in)) continue;
      O << ind << names[&P] << "_t = " << cp[k++].second << ";\n";
    }
    k = 0;
    for (PHINode &P : to->phis()) {
      Value *in = P.getIncomingValueForBlock(from);
      if (isa<UndefValue>(in)) continue;
      O << ind << names[&P] << " = " << names[&P] << "_t;\n"; k++;
    }
  }
  void jump(BasicBlock *from, BasicBlock *to, const std::string &ind) {
    phiCopies(from, to, ind);
    O << ind << "goto " << bbn[to] << ";\n";
  }

  std::string callExpr(CallBase &CB) {
    Value *callee = CB.getCalledOperand()->stripPointerCasts();
    FunctionType *FT = CB.getFunctionType();
    std::string fn;
    std::vector<std::string> args;
    Function *CF = dyn_cast<Function>(callee);
    for (unsigned i = 0; i < CB.arg_size(); ++i) {
      Value *a = CB.getArgOperand(i);
      std::string s = val(a);
      if (CF && i < CF->getFunctionType()->getNumParams()) {
        Type *pt = CF->getFunctionType()->getParamType(i);
        if (pt != a->getType()) s = castTo(pt, s);
      }
      args.push_back(s);
    }
    if (CF) {
      fn = gname(CF);
    } else {
      fn = "((" + fnTypedef(FT) + ")" + val(CB.getCalledOperand()) + ")";
    }
    std::string s = fn + "(";
    for (unsigned i = 0; i < args.size(); ++i) { if (i) s += ", "; s += args[i]; }
    s += ")";
    if (CF && CF->getFunctionType()->getReturnType() != CB.getType() && !CB.getType()->isVoidTy())
      s = castTo(CB.getType(), s);
    return s;
  }

  bool intrinsic(CallBase &CB, const std::string &ind) {
    Function *CF = CB.getCalledFunction();
    if (!CF || !CF->isIntrinsic()) return false;
    std::string lhs = CB.getType()->isVoidTy() ? "" : names[&CB] + " = ";
    auto id = CF->getIntrinsicID();
    switch (id) {
    case Intrinsic::lifetime_start: case Intrinsic::lifetime_end:
    case Intrinsic::dbg_declare: case Intrinsic::dbg_value: case Intrinsic::dbg_label:
    case Intrinsic::experimental_noalias_scope_decl: case Intrinsic::assume:
    case Intrinsic::invariant_start: case Intrinsic::invariant_end:
    case Intrinsic::prefetch: case Intrinsic::donothing:
      return true;
    case Intrinsic::memcpy: case Intrinsic::memmove: case Intrinsic::memset: {
      if (STOREHOOK) O << ind << "v_store_hook((u8*)" << val(CB.getArgOperand(0)) << ");\n";
      if (auto *LN = dyn_cast<ConstantInt>(CB.getArgOperand(2))) {
        uint64_t N = LN->getZExtValue();
        auto vf = [&](Value *v) { return val(v); };
        if (N == 0) return true;
        if (id == Intrinsic::memset) {
          auto *CV = dyn_cast<ConstantInt>(CB.getArgOperand(1));
          std::vector<Leaf> lv;
          bool intsOnly = true;
          if (CV && N <= 4096 && rangeLeaves(CB.getArgOperand(0), N, vf, lv)) {
            for (auto &l : lv) if (!l.T->isIntegerTy() && !CV->isZero()) intsOnly = false;
            if (intsOnly) {
            for (auto &l : lv) {
              if (l.T->isPointerTy()) O << ind << l.lv << " = (" << ctype(l.T) << ")0;\n";
              else if (l.T->isFloatingPointTy()) O << ind << l.lv << " = 0.0;\n";
              else O << ind << l.lv << " = " << intLit(APInt::getSplat(l.T->getIntegerBitWidth() < 8 ? 8 : l.T->getIntegerBitWidth(), CV->getValue().trunc(8)).trunc(l.T->getIntegerBitWidth()), l.T) << ";\n";
            }
            return true;
            }
          }
        } else {
          std::vector<Leaf> ld, ls;
          bool okd = N <= 4096 && rangeLeaves(CB.getArgOperand(0), N, vf, ld);
          bool oks = N <= 4096 && rangeLeaves(CB.getArgOperand(1), N, vf, ls);
          auto allBytes = [](std::vector<Leaf> &v) { for (auto &l : v) if (l.sz != 1) return false; return true; };
          if (okd && oks && ld.size() != ls.size() && (allBytes(ld) != allBytes(ls))) {
            bool dstBytes = allBytes(ld);
            std::vector<Leaf> &ty = dstBytes ? ls : ld; std::vector<Leaf> &by = dstBytes ? ld : ls;
            uint64_t cov = 0; for (auto &l : ty) cov += l.sz;
            if (by.size() == N) {
              for (auto &l : ty) {
                std::string bref = "*(" + ctype(l.T) + "*)&" + by[l.off].lv;
                if (dstBytes) O << ind << bref << " = " << l.lv << ";\n"; else O << ind << l.lv << " = " << bref << ";\n";
              }
              (void)cov;
              return true;
            }
          }
          if (okd && oks && ld.size() == ls.size()) {
            bool ok = true;
            for (size_t k = 0; k < ld.size(); ++k) if (ld[k].off != ls[k].off || ld[k].sz != ls[k].sz || ld[k].T->isPointerTy() != ls[k].T->isPointerTy() || ld[k].T->isFloatingPointTy() != ls[k].T->isFloatingPointTy()) ok = false;
            if (ok) {
              for (size_t k = 0; k < ld.size(); ++k) O << ind << ld[k].lv << " = (" << ctype(ld[k].T) << ")" << ls[k].lv << ";\n";
              return true;
            }
          }
        }
      }
      {
        // runtime-size: element-wise typed loop when pointee type is known
        Value *d = CB.getArgOperand(0)->stripPointerCasts();
        Type *DT = d->getType()->getPointerElementType();
        std::string dptr = val(d);
        // pointer to a C array (e.g. an alloca'd int[8] filled by a loop that LLVM turned into memset): work on its elements
        while (auto *DAT = dyn_cast<ArrayType>(DT)) { if (id != Intrinsic::memset) break; DT = DAT->getElementType(); dptr = "(&(*" + dptr + ").e[0])"; }
        if (DT->isSized() && !DT->isFunctionTy() && !DT->isIntegerTy(8) && DL->getTypeAllocSize(DT) > 0) {
          std::string es = std::to_string((uint64_t)DL->getTypeAllocSize(DT));
          std::string len = val(CB.getArgOperand(2));
          if (id == Intrinsic::memset) {
            auto *CV = dyn_cast<ConstantInt>(CB.getArgOperand(1));
            std::vector<Leaf> lv0; collectLeaves(DT, "_p[_i]", 0, lv0);
            bool intsOnly = true; for (auto &l : lv0) if (!l.T->isIntegerTy()) intsOnly = false;
            if (CV && (CV->isZero() || intsOnly)) {
              std::vector<Leaf> lv; collectLeaves(DT, "_p[_i]", 0, lv);
              O << ind << "{ " << ctype(DT) << "* _p = " << dptr << "; u64 _n = (u64)" << len << " / " << es << "; __CPROVER_assert((u64)" << len << " % " << es << " == 0, \"typed memset size\");\n";
              O << ind << "  for (u64 _i = 0; _i < _n; ++_i) {";
              for (auto &l : lv) O << " " << l.lv << " = " << (l.T->isPointerTy() ? "(" + ctype(l.T) + ")0" : l.T->isIntegerTy() ? intLit(APInt::getSplat(l.T->getIntegerBitWidth() < 8 ? 8 : l.T->getIntegerBitWidth(), CV->getValue().trunc(8)).trunc(l.T->getIntegerBitWidth()), l.T) : std::string("0")) << ";";
              O << " } }\n";
              return true;
            }
          } else {
            Value *sv = CB.getArgOperand(1)->stripPointerCasts();
            Type *ST = sv->getType()->getPointerElementType();
            std::string sfx;
            if (auto *AT = dyn_cast<ArrayType>(ST)) if (AT->getElementType() == DT) { ST = DT; sfx = "->e"; }
            if (ST == DT && DT->isStructTy() && sfx.empty() && cast<StructType>(DT)->hasName() && cast<StructType>(DT)->getName().startswith("union.")) {
              // struct-typed pointers whose byte count need not be a multiple of the struct size (std::string's SSO union copied with length+1 bytes):
              // typed loop when it is a multiple, byte loop otherwise (C13/C14)
              O << ind << "{ " << ctype(DT) << "* _d = " << val(d) << "; " << ctype(DT) << "* _s = " << val(sv) << "; u64 _len = (u64)" << len << "; u64 _n = _len / " << es << ";\n";
              O << ind << "  if (_len % " << es << " == 0) { if (_n) { if (__CPROVER_same_object(_d, _s) && __CPROVER_POINTER_OFFSET(_d) > __CPROVER_POINTER_OFFSET(_s)) { for (u64 _i = _n; _i > 0; --_i) _d[_i-1] = _s[_i-1]; } else { for (u64 _i = 0; _i < _n; ++_i) _d[_i] = _s[_i]; } } }\n";
              O << ind << "  else { u8* _bd = (u8*)_d; u8* _bs = (u8*)_s; if (__CPROVER_same_object(_bd, _bs) && __CPROVER_POINTER_OFFSET(_bd) > __CPROVER_POINTER_OFFSET(_bs)) { for (u64 _i = _len; _i > 0; --_i) _bd[_i-1] = _bs[_i-1]; } else { for (u64 _i = 0; _i < _len; ++_i) _bd[_i] = _bs[_i]; } } }\n";
              return true;
            }
            if (ST == DT) {
              O << ind << "{ " << ctype(DT) << "* _d = " << val(d) << "; " << ctype(DT) << "* _s = " << (sfx.empty() ? val(sv) : "&(*" + val(sv) + ").e[0]") << "; u64 _n = (u64)" << len << " / " << es << "; __CPROVER_assert((u64)" << len << " % " << es << " == 0, \"typed memcpy size\");\n";
              O << ind << "  if (_n) { if (__CPROVER_same_object(_d, _s) && __CPROVER_POINTER_OFFSET(_d) > __CPROVER_POINTER_OFFSET(_s)) { for (u64 _i = _n; _i > 0; --_i) _d[_i-1] = _s[_i-1]; } else { for (u64 _i = 0; _i < _n; ++_i) _d[_i] = _s[_i]; } } }\n";
              return true;
            }
          }
        }
      }
      if (BYTELOOPS) {
        // byte loops: every access is an ordinary checked dereference; trip count folds when the size is constant at symex time
        std::string len = val(CB.getArgOperand(2));
        if (id == Intrinsic::memset) {
          O << ind << "{ u8* _d = (u8*)" << val(CB.getArgOperand(0)) << "; u8 _c = (u8)" << val(CB.getArgOperand(1)) << "; u64 _n = (u64)" << len << "; for (u64 _i = 0; _i < _n; ++_i) _d[_i] = _c; }\n";
        } else {
          O << ind << "{ u8* _d = (u8*)" << val(CB.getArgOperand(0)) << "; u8* _s = (u8*)" << val(CB.getArgOperand(1)) << "; u64 _n = (u64)" << len << ";\n";
          O << ind << "  if (_n) { if (__CPROVER_same_object(_d, _s) && __CPROVER_POINTER_OFFSET(_d) > __CPROVER_POINTER_OFFSET(_s)) { for (u64 _i = _n; _i > 0; --_i) _d[_i-1] = _s[_i-1]; } else { for (u64 _i = 0; _i < _n; ++_i) _d[_i] = _s[_i]; } } }\n";
        }
        return true;
      }
      const char *n = id == Intrinsic::memcpy ? "v_memcpy" : id == Intrinsic::memmove ? "v_memmove" : "v_memset";
      O << ind << n << "((u8*)" << val(CB.getArgOperand(0)) << ", " << (id == Intrinsic::memset ? "" : "(u8*)") << val(CB.getArgOperand(1)) << ", (u64)" << val(CB.getArgOperand(2)) << ");\n";
      return true; }
    case Intrinsic::trap: O << ind << "__CPROVER_assert(0, \"llvm.trap\"); __CPROVER_assume(0);\n"; return true;
    case Intrinsic::umax: O << ind << lhs << "(" << val(CB.getArgOperand(0)) << " > " << val(CB.getArgOperand(1)) << " ? " << val(CB.getArgOperand(0)) << " : " << val(CB.getArgOperand(1)) << ");\n"; return true;
    case Intrinsic::umin: O << ind << lhs << "(" << val(CB.getArgOperand(0)) << " < " << val(CB.getArgOperand(1)) << " ? " << val(CB.getArgOperand(0)) << " : " << val(CB.getArgOperand(1)) << ");\n"; return true;
    case Intrinsic::smax: O << ind << lhs << "(" << sval(CB.getArgOperand(0)) << " > " << sval(CB.getArgOperand(1)) << " ? " << val(CB.getArgOperand(0)) << " : " << val(CB.getArgOperand(1)) << ");\n"; return true;
    case Intrinsic::smin: O << ind << lhs << "(" << sval(CB.getArgOperand(0)) << " < " << sval(CB.getArgOperand(1)) << " ? " << val(CB.getArgOperand(0)) << " : " << val(CB.getArgOperand(1)) << ");\n"; return true;
    case Intrinsic::usub_sat: O << ind << lhs << "(" << val(CB.getArgOperand(0)) << " > " << val(CB.getArgOperand(1)) << " ? " << maskTo(val(CB.getArgOperand(0)) + " - " + val(CB.getArgOperand(1)), CB.getType()) << " : (" << ctype(CB.getType()) << ")0);\n"; return true;
    case Intrinsic::uadd_sat: O << ind << lhs << "(" << maskTo(val(CB.getArgOperand(0)) + " + " + val(CB.getArgOperand(1)), CB.getType()) << " < " << val(CB.getArgOperand(0)) << " ? (" << ctype(CB.getType()) << ")~(" << ctype(CB.getType()) << ")0 : " << maskTo(val(CB.getArgOperand(0)) + " + " + val(CB.getArgOperand(1)), CB.getType()) << ");\n"; return true;
    case Intrinsic::abs: O << ind << lhs << maskTo("(" + sval(CB.getArgOperand(0)) + " < 0 ? -" + sval(CB.getArgOperand(0)) + " : " + sval(CB.getArgOperand(0)) + ")", CB.getType()) << ";\n"; return true;
    case Intrinsic::ctlz: O << ind << lhs << "v_ctlz" << CB.getType()->getIntegerBitWidth() << "(" << val(CB.getArgOperand(0)) << ");\n"; return true;
    case Intrinsic::cttz: O << ind << lhs << "v_cttz" << CB.getType()->getIntegerBitWidth() << "(" << val(CB.getArgOperand(0)) << ");\n"; return true;
    case Intrinsic::ctpop: O << ind << lhs << "v_ctpop" << CB.getType()->getIntegerBitWidth() << "(" << val(CB.getArgOperand(0)) << ");\n"; return true;
    case Intrinsic::bswap: O << ind << lhs << "v_bswap" << CB.getType()->getIntegerBitWidth() << "(" << val(CB.getArgOperand(0)) << ");\n"; return true;
    case Intrinsic::fabs: O << ind << lhs << "v_fabs(" << val(CB.getArgOperand(0)) << ");\n"; return true;
    case Intrinsic::sqrt: O << ind << lhs << "v_sqrt(" << val(CB.getArgOperand(0)) << ");\n"; return true;
    case Intrinsic::fmuladd:  // clang's default -ffp-contract=on; baseline x86-64 has no FMA: lowered as separate multiply and add
      O << ind << lhs << "((" << val(CB.getArgOperand(0)) << " * " << val(CB.getArgOperand(1)) << ") + " << val(CB.getArgOperand(2)) << ");\n"; return true;
    case Intrinsic::eh_typeid_for: O << ind << lhs << typeIdOf(cast<Constant>(CB.getArgOperand(0))) << ";\n"; return true;
    case Intrinsic::uadd_with_overflow: case Intrinsic::umul_with_overflow: case Intrinsic::usub_with_overflow:
    case Intrinsic::sadd_with_overflow: case Intrinsic::smul_with_overflow: case Intrinsic::ssub_with_overflow: {
      Type *T = CB.getArgOperand(0)->getType();
      bool sg = id == Intrinsic::sadd_with_overflow || id == Intrinsic::smul_with_overflow || id == Intrinsic::ssub_with_overflow;
      const char *op = (id == Intrinsic::uadd_with_overflow || id == Intrinsic::sadd_with_overflow) ? "+" : (id == Intrinsic::usub_with_overflow || id == Intrinsic::ssub_with_overflow) ? "-" : "*";
      const char *ov = (id == Intrinsic::uadd_with_overflow || id == Intrinsic::sadd_with_overflow) ? "plus" : (id == Intrinsic::usub_with_overflow || id == Intrinsic::ssub_with_overflow) ? "minus" : "mult";
      std::string a = sg ? sval(CB.getArgOperand(0)) : val(CB.getArgOperand(0));
      std::string b = sg ? sval(CB.getArgOperand(1)) : val(CB.getArgOperand(1));
      O << ind << names[&CB] << ".f0 = " << maskTo(val(CB.getArgOperand(0)) + op + val(CB.getArgOperand(1)), T) << ";\n";
      O << ind << names[&CB] << ".f1 = __CPROVER_overflow_" << ov << "(" << a << ", " << b << ");\n";
      return true; }
    default: break;
    }
    errs() << "unsupported intrinsic " << CF->getName() << "\n";
    O << ind << "__CPROVER_assert(0, \"unsupported intrinsic " << CF->getName() << "\");\n";
    return true;
  }

  // operator new -> typed dynamic object (element type from the bitcast users); shared by call and invoke sites
  bool typedNew(CallBase &CI, const std::string &ind, const std::string &lhs) {
    Type *ET = nullptr;
    for (User *U : CI.users()) if (auto *BC = dyn_cast<BitCastInst>(U)) { Type *t = BC->getType()->getPointerElementType(); if (t->isSized() && !t->isFunctionTy() && DL->getTypeAllocSize(t) > 0) { ET = t; break; } }
    // constant-size `new T`: prefer the bitcast to a struct of exactly that size (use-list order is arbitrary; `new TopologyKernel` was typed as an array of vptr slots)
    if (auto *NC = dyn_cast<ConstantInt>(CI.getArgOperand(0))) for (User *U : CI.users()) if (auto *BC = dyn_cast<BitCastInst>(U)) { Type *t = BC->getType()->getPointerElementType(); if (t->isStructTy() && t->isSized() && DL->getTypeAllocSize(t) == NC->getZExtValue()) { ET = t; break; } }
    if (!ET) return false;
    std::string n = val(CI.getArgOperand(0)); std::string st = "sizeof(" + ctype(ET) + ")";
    if (StructType *AB = findAmbigIn(ET)) {   // control block around an ambiguous __aligned_buffer: type this allocation by its site
      std::vector<std::string> ev; ev.push_back(demangled(F.getName()));
      std::vector<Value*> work{&CI}; std::set<Value*> seen;
      while (!work.empty()) { Value *v = work.back(); work.pop_back(); if (!seen.insert(v).second) continue;
        for (User *U : v->users()) {
          if (isa<BitCastInst>(U) || isa<GetElementPtrInst>(U) || isa<PHINode>(U)) work.push_back(U);
          else if (auto *CB = dyn_cast<CallBase>(U)) if (Function *cf = CB->getCalledFunction()) ev.push_back(demangled(cf->getName()));
        } }
      Type *pick = nullptr; unsigned hits = 0;
      for (Type *cand : ovAmbig[AB]) {
        const std::string &cn = ovClassName[cand]; if (cn.empty()) continue;
        bool hit = false; for (auto &e : ev) if (e.find(cn + ",") != std::string::npos || e.find(cn + ">") != std::string::npos || e.find(cn + "::") != std::string::npos || e.find(cn + " ") != std::string::npos) hit = true;
        if (hit) { pick = cand; ++hits; }
      }
      if (hits == 1) { st = "sizeof(" + synthType(ET, AB, pick) + ")"; errs() << "NOTE typed storage: allocation in " << F.getName().substr(0, 80) << " typed with " << ovClassName[pick] << "\n"; }
      else errs() << "NOTE typed storage: allocation in " << F.getName().substr(0, 80) << ": " << hits << " matching candidates; left as bytes\n";
    }
    const char *z = ET->isIntegerTy(64) ? "1" : "0"; // vector<bool> words: zero-initialised model (bit-level folding)
    O << ind << lhs << "(u8*)((" << n << " % " << st << " == 0) ? __CPROVER_allocate(" << st << " * (" << n << " / " << st << "), " << z << ") : __CPROVER_allocate(" << n << ", 0));\n";
    if (!lhs.empty() && isa<ConstantInt>(CI.getArgOperand(0)) && ET->isStructTy()) O << ind << "v_alloc_note((u8*)" << names[&CI] << ");\n";   // rank for v_plt (constant-size `new T`)
    if (STOREHOOK && !lhs.empty()) O << ind << "v_alloc_hook((u8*)" << names[&CI] << ");\n";
    return true;
  }
  bool special(CallBase &CI, const std::string &ind) {
    Function *CF = CI.getCalledFunction();
    if (!CF) return false;
    StringRef fnm = CF->getName();
    if (fnm == "v_assert" && CI.arg_size() == 2) {
      std::string m; if (!constString(CI.getArgOperand(1), m)) m = "harness property";
      O << ind << "__CPROVER_assert(" << val(CI.getArgOperand(0)) << ", \"" << cEscape(m) << " [" << F.getName().str().substr(0, 60) << "]\");\n"; return true;
    }
    if (fnm == "v_witness" && CI.arg_size() == 1) {
      std::string m; if (!constString(CI.getArgOperand(0), m)) m = "w";
      O << ind << "__CPROVER_assert(0, \"WITNESS:" << cEscape(m) << " [" << F.getName().str().substr(0, 60) << "]\");\n"; return true;
    }
    if (fnm == "v_assume" && CI.arg_size() == 1) { O << ind << "__CPROVER_assume(" << val(CI.getArgOperand(0)) << ");\n"; return true; }
    return false;
  }

  void emit() {
    // name everything
    unsigned ai = 0;
    for (Argument &A : F.args()) names[&A] = "a" + std::to_string(ai++);
    unsigned bi = 0;
    for (BasicBlock &B : F) {
      bbn[&B] = "L" + std::to_string(bi++);
      for (Instruction &I : B) if (!I.getType()->isVoidTy()) names[&I] = "v" + std::to_string(nv++);
    }
    O << fproto(F, true) << " {\n";
    if (F.getName().startswith("harness_")) O << "  v_run_static_init();\n";
    // declarations
    for (BasicBlock &B : F) for (Instruction &I : B) {
      if (I.getType()->isVoidTy()) continue;
      O << "  " << ctype(I.getType()) << " " << names[&I] << ";";
      if (isa<PHINode>(I)) O << " " << ctype(I.getType()) << " " << names[&I] << "_t;";
      if (auto *AI = dyn_cast<AllocaInst>(&I)) {
        Type *AT = AI->getAllocatedType();
        uint64_t n = 1;
        if (auto *CI = dyn_cast<ConstantInt>(AI->getArraySize())) n = CI->getZExtValue(); else errs() << "dynamic alloca\n";
        O << " " << ctype(AT) << " " << names[&I] << "_m" << (n > 1 ? "[" + std::to_string(n) + "]" : "") << ";";
      }
      O << "\n";
    }
    for (BasicBlock &B : F) {
      O << bbn[&B] << ": ;\n";
      for (Instruction &I : B) inst(I);
    }
    O << "}\n\n";
  }

  // direct lvalue for the memory designated by pointer P at instruction I, or "" (then *P is used)
  std::string directLvalue(Value *P, Instruction &I) {
    auto *G = dyn_cast<GetElementPtrInst>(P);
    if (!G || G->getParent() != I.getParent()) return "";
    if (G->getSourceElementType()->isIntegerTy(8)) return "";
    if (G->getResultElementType() != cast<PointerType>(P->getType())->getPointerElementType()) return "";
    if (G->getNumIndices() < 2) return "";
    bool sym = false;
    for (auto it = G->idx_begin(); it != G->idx_end(); ++it) if (!isa<ConstantInt>(*it)) sym = true;
    if (!sym) return "";
    std::vector<std::string> idx; std::vector<Value*> iv;
    for (auto it = G->idx_begin(); it != G->idx_end(); ++it) { idx.push_back(sval(*it)); iv.push_back(*it); }
    return gepLvalue(G->getSourceElementType(), val(G->getPointerOperand()), idx, iv);
  }

  void binop(BinaryOperator &I, const std::string &ind) {
    Type *T = I.getType();
    std::string a = val(I.getOperand(0)), b = val(I.getOperand(1));
    bool fp = T->isFloatingPointTy();
    std::string sa = fp ? a : sext(a, T), sb = fp ? b : sext(b, T);
    std::string e;
    if (I.getOpcode() == Instruction::Sub) {
      auto *pa = dyn_cast<PtrToIntOperator>(I.getOperand(0)); auto *pb = dyn_cast<PtrToIntOperator>(I.getOperand(1));
      if (pa && pb && T->getIntegerBitWidth() == 64) {
        O << ind << names[&I] << " = v_pdiff((u8*)" << val(pa->getPointerOperand()) << ", (u8*)" << val(pb->getPointerOperand()) << ");\n";
        return;
      }
    }
    switch (I.getOpcode()) {
    case Instruction::Add: e = a + " + " + b; break;
    case Instruction::Sub: e = a + " - " + b; break;
    case Instruction::Mul: e = a + " * " + b; break;
    case Instruction::UDiv: e = a + " / " + b; break;
    case Instruction::URem: e = a + " % " + b; break;
    case Instruction::SDiv: e = sa + " / " + sb; break;
    case Instruction::SRem: e = sa + " % " + sb; break;
    case Instruction::Shl: e = a + " << " + b; break;
    case Instruction::LShr: e = a + " >> " + b; break;
    case Instruction::AShr: e = sa + " >> " + b; break;
    case Instruction::And: e = a + " & " + b; break;
    case Instruction::Or: e = a + " | " + b; break;
    case Instruction::Xor: e = a + " ^ " + b; break;
    case Instruction::FAdd: e = a + " + " + b; break;
    case Instruction::FSub: e = a + " - " + b; break;
    case Instruction::FMul: e = a + " * " + b; break;
    case Instruction::FDiv: e = a + " / " + b; break;
    case Instruction::FRem: e = "v_fmod(" + a + ", " + b + ")"; break;
    default: errs() << "binop?\n";
    }
    if (UBARITH && !fp) {
      if (auto *OB = dyn_cast<OverflowingBinaryOperator>(&I)) {
        const char *ov = I.getOpcode() == Instruction::Add ? "plus" : I.getOpcode() == Instruction::Sub ? "minus" : I.getOpcode() == Instruction::Mul ? "mult" : nullptr;
        if (ov && OB->hasNoSignedWrap() && T->getIntegerBitWidth() >= 32)
          O << ind << "__CPROVER_assert(!__CPROVER_overflow_" << ov << "(" << sa << ", " << sb << "), \"nsw overflow\");\n";
      }
      if (I.getOpcode() == Instruction::SDiv || I.getOpcode() == Instruction::UDiv || I.getOpcode() == Instruction::SRem || I.getOpcode() == Instruction::URem)
        O << ind << "__CPROVER_assert(" << b << " != 0, \"division by zero\");\n";
    }
    O << ind << names[&I] << " = " << (fp ? "(" + e + ")" : maskTo(e, T)) << ";\n";
  }

  void inst(Instruction &I) {
    std::string ind = "  ";
    std::string lhs = I.getType()->isVoidTy() ? "" : names[&I] + " = ";
    if (isa<PHINode>(I)) return;
    if (auto *AI = dyn_cast<AllocaInst>(&I)) {
      uint64_t n = 1; if (auto *CI = dyn_cast<ConstantInt>(AI->getArraySize())) n = CI->getZExtValue();
      O << ind << lhs << (n > 1 ? "" : "&") << names[&I] << "_m;\n"; return;
    }
    if (auto *LI = dyn_cast<LoadInst>(&I)) {
      Type *T = I.getType();
      if (NULLGUARD) O << ind << "if (__CPROVER_same_object((u8*)" << val(LI->getPointerOperand()) << ", (u8*)0)) { __CPROVER_assert(0, \"memory access through a null pointer [" << F.getName().str().substr(0, 70) << "]\"); __CPROVER_assume(0); }\n";
      if (T->isIntegerTy() && T->getIntegerBitWidth() >= 16 && isa<BitCastInst>(LI->getPointerOperand())) {
        std::vector<Leaf> lv; auto vf = [&](Value *v) { return val(v); };
        uint64_t N = DL->getTypeStoreSize(T);
        if (rangeLeaves(LI->getPointerOperand(), N, vf, lv) && lv.size() >= 2) {
          bool ok = true; uint64_t cov = 0; for (auto &l : lv) { if (!l.T->isIntegerTy()) ok = false; cov += l.sz; }
          if (ok && cov == N) {
            O << ind << lhs << "(";
            for (size_t k = 0; k < lv.size(); ++k) { if (k) O << " | "; O << "((" << ctype(T) << ")" << lv[k].lv << " << " << (lv[k].off * 8) << ")"; }
            O << ");\n"; return;
          }
        }
      }
      { std::string dl = directLvalue(LI->getPointerOperand(), I); if (!dl.empty()) { O << ind << lhs << dl << ";\n"; return; } }
      O << ind << lhs << "*" << val(LI->getPointerOperand()) << ";\n"; return; }
    if (auto *SI = dyn_cast<StoreInst>(&I)) {
      if (NULLGUARD) O << ind << "if (__CPROVER_same_object((u8*)" << val(SI->getPointerOperand()) << ", (u8*)0)) { __CPROVER_assert(0, \"memory access through a null pointer [" << F.getName().str().substr(0, 70) << "]\"); __CPROVER_assume(0); }\n";
      if (STOREHOOK) O << ind << "v_store_hook((u8*)" << val(SI->getPointerOperand()) << ");\n";
      { Type *T = SI->getValueOperand()->getType();
        if (T->isIntegerTy() && T->getIntegerBitWidth() >= 16 && isa<BitCastInst>(SI->getPointerOperand())) {
          std::vector<Leaf> lv; auto vf = [&](Value *v) { return val(v); };
          uint64_t N = DL->getTypeStoreSize(T);
          if (rangeLeaves(SI->getPointerOperand(), N, vf, lv) && lv.size() >= 2) {
            bool ok = true; uint64_t cov = 0; for (auto &l : lv) { if (!l.T->isIntegerTy()) ok = false; cov += l.sz; }
            if (ok && cov == N) {
              for (auto &l : lv) O << ind << l.lv << " = (" << ctype(l.T) << ")(" << val(SI->getValueOperand()) << " >> " << (l.off * 8) << ");\n";
              return;
            }
          }
        } }
      { std::string dl = directLvalue(SI->getPointerOperand(), I); if (!dl.empty()) { O << ind << dl << " = " << val(SI->getValueOperand()) << ";\n"; return; } }
      O << ind << "*" << val(SI->getPointerOperand()) << " = " << val(SI->getValueOperand()) << ";\n"; return; }
    if (auto *G = dyn_cast<GetElementPtrInst>(&I)) {
      if (G->getSourceElementType()->isIntegerTy(8) && G->hasAllConstantIndices()) {
        APInt off(64, 0);
        Value *base = G->stripAndAccumulateConstantOffsets(*DL, off, true);
        if (!off.isNegative() && base->getType()->isPointerTy()) {
          Type *BT = base->getType()->getPointerElementType(); std::string path;
          if ((BT->isStructTy() || BT->isArrayTy()) && BT->isSized() && typedPath(BT, off.getZExtValue(), nullptr, path) && !path.empty()) {
            O << ind << lhs << "(" << ctype(I.getType()) << ")&(*" << val(base) << ")" << path << ";\n"; return;
          }
        }
      }
      std::vector<std::string> idx; std::vector<Value*> iv;
      for (auto it = G->idx_begin(); it != G->idx_end(); ++it) { idx.push_back(sval(*it)); iv.push_back(*it); }
      O << ind << lhs << "(" << ctype(I.getType()) << ")" << gepExpr(G->getSourceElementType(), val(G->getPointerOperand()), idx, iv) << ";\n"; return;
    }
    if (auto *BO = dyn_cast<BinaryOperator>(&I)) { binop(*BO, ind); return; }
    if (auto *C = dyn_cast<CastInst>(&I)) {
      Value *o = C->getOperand(0); Type *ST = o->getType(), *DT = I.getType();
      switch (C->getOpcode()) {
      case Instruction::BitCast:
        if (DT->isPointerTy()) {
          Type *want = DT->getPointerElementType();
          APInt off(64, 0);
          Value *base = o->stripAndAccumulateConstantOffsets(*DL, off, true);
          std::string path;
          if (!want->isIntegerTy(8) && want->isSized() && !off.isNegative() && base->getType()->isPointerTy()) {
            Type *BT = base->getType()->getPointerElementType();
            if ((BT->isStructTy() || BT->isArrayTy()) && BT->isSized() && typedPath(BT, off.getZExtValue(), want, path) && !path.empty()) {
              O << ind << lhs << "(" << ctype(DT) << ")&(*" << val(base) << ")" << path << ";\n"; return;
            }
          }
          O << ind << lhs << "(" << ctype(DT) << ")" << val(o) << ";\n";
        }
        else if (ST->isFloatTy() && DT->isIntegerTy()) O << ind << lhs << "f2u(" << val(o) << ");\n";
        else if (ST->isDoubleTy() && DT->isIntegerTy()) O << ind << lhs << "d2u(" << val(o) << ");\n";
        else if (ST->isIntegerTy() && DT->isFloatTy()) O << ind << lhs << "u2f(" << val(o) << ");\n";
        else if (ST->isIntegerTy() && DT->isDoubleTy()) O << ind << lhs << "u2d(" << val(o) << ");\n";
        else { errs() << "bitcast?\n"; O << ind << "__CPROVER_assert(0,\"bitcast\");\n"; }
        return;
      case Instruction::PtrToInt: O << ind << lhs << maskTo("(u64)" + val(o), DT) << ";\n"; return;
      case Instruction::IntToPtr: O << ind << lhs << "(" << ctype(DT) << ")(u64)" << val(o) << ";\n"; return;
      case Instruction::Trunc: case Instruction::ZExt: O << ind << lhs << maskTo(val(o), DT) << ";\n"; return;
      case Instruction::SExt: O << ind << lhs << maskTo(sext(val(o), ST), DT) << ";\n"; return;
      case Instruction::FPToSI: O << ind << lhs << maskTo("(" + sty(DT) + ")" + val(o), DT) << ";\n"; return;
      case Instruction::FPToUI: O << ind << lhs << maskTo("(" + ctype(DT) + ")" + val(o), DT) << ";\n"; return;
      case Instruction::SIToFP: O << ind << lhs << "(" << ctype(DT) << ")" << sext(val(o), ST) << ";\n"; return;
      case Instruction::UIToFP: O << ind << lhs << "(" << ctype(DT) << ")" << val(o) << ";\n"; return;
      case Instruction::FPExt: case Instruction::FPTrunc: O << ind << lhs << "(" << ctype(DT) << ")" << val(o) << ";\n"; return;
      default: errs() << "cast?\n"; return;
      }
    }
    if (auto *IC = dyn_cast<ICmpInst>(&I)) {
      Value *a = IC->getOperand(0), *b = IC->getOperand(1);
      if (auto *pa = dyn_cast<PtrToIntOperator>(a)) if (auto *pb = dyn_cast<PtrToIntOperator>(b)) if (IC->isEquality() || IC->isUnsigned()) { a = pa->getPointerOperand(); b = pb->getPointerOperand(); }
      std::string sa, sb; bool ptr = a->getType()->isPointerTy();
      std::string ua = ptr ? "(u8*)" + val(a) : val(a), ub = ptr ? "(u8*)" + val(b) : val(b);
      if (!ptr) { sa = sval(a); sb = sval(b); } else { sa = "(s64)(u64)" + val(a); sb = "(s64)(u64)" + val(b); }
      const char *op = ""; bool sg = false;
      switch (IC->getPredicate()) {
      case CmpInst::ICMP_EQ: op = "=="; break; case CmpInst::ICMP_NE: op = "!="; break;
      case CmpInst::ICMP_UGT: op = ">"; break; case CmpInst::ICMP_UGE: op = ">="; break;
      case CmpInst::ICMP_ULT: op = "<"; break; case CmpInst::ICMP_ULE: op = "<="; break;
      case CmpInst::ICMP_SGT: op = ">"; sg = true; break; case CmpInst::ICMP_SGE: op = ">="; sg = true; break;
      case CmpInst::ICMP_SLT: op = "<"; sg = true; break; case CmpInst::ICMP_SLE: op = "<="; sg = true; break;
      default: break;
      }
      if (ptr && !sg && IC->isRelational()) {   // allocation-order model for distinct heap objects (v_rt.h: v_plt)
        switch (IC->getPredicate()) {
        case CmpInst::ICMP_ULT: O << ind << lhs << "v_plt(" << ua << ", " << ub << ");\n"; return;
        case CmpInst::ICMP_UGT: O << ind << lhs << "v_plt(" << ub << ", " << ua << ");\n"; return;
        case CmpInst::ICMP_ULE: O << ind << lhs << "!v_plt(" << ub << ", " << ua << ");\n"; return;
        case CmpInst::ICMP_UGE: O << ind << lhs << "!v_plt(" << ua << ", " << ub << ");\n"; return;
        default: break;
        }
      }
      O << ind << lhs << "(" << (sg ? sa : ua) << " " << op << " " << (sg ? sb : ub) << ");\n"; return;
    }
    if (auto *FC = dyn_cast<FCmpInst>(&I)) {
      std::string a = val(FC->getOperand(0)), b = val(FC->getOperand(1));
      std::string un = "(" + a + " != " + a + " || " + b + " != " + b + ")";
      std::string e;
      switch (FC->getPredicate()) {
      case CmpInst::FCMP_FALSE: e = "0"; break; case CmpInst::FCMP_TRUE: e = "1"; break;
      case CmpInst::FCMP_OEQ: e = a + " == " + b; break; case CmpInst::FCMP_OGT: e = a + " > " + b; break;
      case CmpInst::FCMP_OGE: e = a + " >= " + b; break; case CmpInst::FCMP_OLT: e = a + " < " + b; break;
      case CmpInst::FCMP_OLE: e = a + " <= " + b; break; case CmpInst::FCMP_ONE: e = "(!" + un + " && " + a + " != " + b + ")"; break;
      case CmpInst::FCMP_ORD: e = "!" + un; break; case CmpInst::FCMP_UNO: e = un; break;
      case CmpInst::FCMP_UEQ: e = un + " || " + a + " == " + b; break; case CmpInst::FCMP_UGT: e = un + " || " + a + " > " + b; break;
      case CmpInst::FCMP_UGE: e = un + " || " + a + " >= " + b; break; case CmpInst::FCMP_ULT: e = un + " || " + a + " < " + b; break;
      case CmpInst::FCMP_ULE: e = un + " || " + a + " <= " + b; break; case CmpInst::FCMP_UNE: e = a + " != " + b; break;
      default: e = "0";
      }
      O << ind << lhs << "(" << e << ");\n"; return;
    }
    if (auto *S = dyn_cast<SelectInst>(&I)) { O << ind << lhs << "(" << val(S->getCondition()) << " ? " << val(S->getTrueValue()) << " : " << val(S->getFalseValue()) << ");\n"; return; }
    if (auto *EV = dyn_cast<ExtractValueInst>(&I)) {
      std::string e = val(EV->getAggregateOperand()); Type *T = EV->getAggregateOperand()->getType();
      for (unsigned k : EV->indices()) { if (T->isStructTy()) { e += ".f" + std::to_string(k); T = T->getStructElementType(k); } else { e += ".e[" + std::to_string(k) + "]"; T = T->getArrayElementType(); } }
      O << ind << lhs << e << ";\n"; return;
    }
    if (auto *IV = dyn_cast<InsertValueInst>(&I)) {
      if (!isa<UndefValue>(IV->getAggregateOperand())) O << ind << lhs << val(IV->getAggregateOperand()) << ";\n";
      std::string e = names[&I]; Type *T = I.getType();
      for (unsigned k : IV->indices()) { if (T->isStructTy()) { e += ".f" + std::to_string(k); T = T->getStructElementType(k); } else { e += ".e[" + std::to_string(k) + "]"; T = T->getArrayElementType(); } }
      O << ind << e << " = " << val(IV->getInsertedValueOperand()) << ";\n"; return;
    }
    if (auto *FR = dyn_cast<FreezeInst>(&I)) { O << ind << lhs << val(FR->getOperand(0)) << ";\n"; return; }
    if (auto *UO = dyn_cast<UnaryOperator>(&I)) { O << ind << lhs << "-" << val(UO->getOperand(0)) << ";\n"; return; }
    if (auto *RMW = dyn_cast<AtomicRMWInst>(&I)) {
      std::string p = val(RMW->getPointerOperand()), v = val(RMW->getValOperand());
      if (STOREHOOK) O << ind << "v_atomic_hook((u8*)" << p << ");\n";
      O << ind << lhs << "*" << p << ";\n";
      const char *op = nullptr;
      switch (RMW->getOperation()) { case AtomicRMWInst::Add: op = "+"; break; case AtomicRMWInst::Sub: op = "-"; break; case AtomicRMWInst::And: op = "&"; break; case AtomicRMWInst::Or: op = "|"; break; case AtomicRMWInst::Xor: op = "^"; break; case AtomicRMWInst::Xchg: op = nullptr; break; default: errs() << "rmw?\n"; }
      if (op) O << ind << "*" << p << " = " << maskTo("*" + p + " " + op + " " + v, I.getType()) << ";\n";
      else O << ind << "*" << p << " = " << v << ";\n";
      return;
    }
    if (auto *CX = dyn_cast<AtomicCmpXchgInst>(&I)) {
      std::string p = val(CX->getPointerOperand());
      if (STOREHOOK) O << ind << "v_atomic_hook((u8*)" << p << ");\n";
      O << ind << names[&I] << ".f0 = *" << p << ";\n";
      O << ind << names[&I] << ".f1 = (" << names[&I] << ".f0 == " << val(CX->getCompareOperand()) << ");\n";
      O << ind << "if (" << names[&I] << ".f1) *" << p << " = " << val(CX->getNewValOperand()) << ";\n"; return;
    }
    if (isa<FenceInst>(I)) return;
    if (auto *CI = dyn_cast<CallInst>(&I)) {
      if (CI->isInlineAsm()) { return; }
      if (intrinsic(*CI, ind)) return;
      if (Function *CF = CI->getCalledFunction()) {
        StringRef fnm = CF->getName();
        if ((fnm == "_Znwm" || fnm == "_Znam") && !CI->getType()->isVoidTy()) {
          if (typedNew(*CI, ind, lhs)) return;
        }
      }
      if (special(*CI, ind)) return;
      O << ind << lhs << callExpr(*CI) << ";\n";
      if (EH && !CI->doesNotThrow()) {
        O << ind << "if (v_exc) " << retDummy() << "\n";
      }
      return;
    }
    if (auto *II = dyn_cast<InvokeInst>(&I)) {
      bool tn = false;   // `invoke operator new` (inside functions with cleanups): same typed allocation as the call form
      if (Function *CF = II->getCalledFunction()) if ((CF->getName() == "_Znwm" || CF->getName() == "_Znam") && !II->getType()->isVoidTy()) tn = typedNew(*II, ind, lhs);
      if (!tn && !intrinsic(*II, ind) && !special(*II, ind)) O << ind << lhs << callExpr(*II) << ";\n";
      if (EH) { O << ind << "if (v_exc) {\n"; jump(I.getParent(), II->getUnwindDest(), "    "); O << ind << "}\n"; }
      jump(I.getParent(), II->getNormalDest(), ind); return;
    }
    if (auto *LP = dyn_cast<LandingPadInst>(&I)) {
      if (!EH) { O << ind << "__CPROVER_assume(0);\n"; return; }
      O << ind << names[&I] << ".f0 = v_exc_obj;\n";
      O << ind << names[&I] << ".f1 = 0;\n";
      // clauses in order
      std::string chain;
      for (unsigned k = 0; k < LP->getNumClauses(); ++k) {
        if (LP->isCatch(k)) {
          Constant *c = LP->getClause(k);
          if (isa<ConstantPointerNull>(c)) O << ind << "if (" << names[&I] << ".f1 == 0) " << names[&I] << ".f1 = 9999;\n";
          else O << ind << "if (" << names[&I] << ".f1 == 0 && v_exc_match((u8*)" << constExpr(c, false) << ")) " << names[&I] << ".f1 = " << typeIdOf(c) << ";\n";
        } else { errs() << "filter clause unsupported\n"; }
      }
      if (!LP->isCleanup()) O << ind << "if (" << names[&I] << ".f1 == 0) " << retDummy() << "\n";
      O << ind << "v_exc = 0;\n";
      return;
    }
    if (auto *RI = dyn_cast<ResumeInst>(&I)) {
      (void)RI;
      O << ind << "v_exc = 1; " << retDummy() << "\n"; return;
    }
    if (auto *R = dyn_cast<ReturnInst>(&I)) {
      if (R->getReturnValue()) O << ind << "return " << val(R->getReturnValue()) << ";\n"; else O << ind << "return;\n"; return;
    }
    if (auto *B = dyn_cast<BranchInst>(&I)) {
      if (B->isUnconditional()) { jump(I.getParent(), B->getSuccessor(0), ind); return; }
      O << ind << "if (" << val(B->getCondition()) << ") {\n"; jump(I.getParent(), B->getSuccessor(0), "    ");
      O << ind << "} else {\n"; jump(I.getParent(), B->getSuccessor(1), "    "); O << ind << "}\n"; return;
    }
    if (auto *SW = dyn_cast<SwitchInst>(&I)) {
      O << ind << "switch (" << val(SW->getCondition()) << ") {\n";
      for (auto &c : SW->cases()) { O << ind << "case " << intLit(c.getCaseValue()->getValue(), c.getCaseValue()->getType()) << ": {\n"; jump(I.getParent(), c.getCaseSuccessor(), "    "); O << ind << "}\n"; }
      O << ind << "default: {\n"; jump(I.getParent(), SW->getDefaultDest(), "    "); O << ind << "}\n" << ind << "}\n"; return;
    }
    if (isa<UnreachableInst>(I)) { O << ind << "__CPROVER_assume(0);\n"; return; }
    errs() << "unsupported instruction: "; I.print(errs()); errs() << "\n";
    O << ind << "__CPROVER_assert(0, \"unsupported instruction\");\n";
  }
  std::string retDummy() {
    Type *RT = F.getReturnType();
    if (RT->isVoidTy()) return "return;";
    if (RT->isAggregateType()) return "{ " + ctype(RT) + " _d = {0}; return _d; }";
    return "return (" + ctype(RT) + ")0;";
  }
};

int main(int argc, char **argv) {
  std::string in;
  std::set<std::string> skip; // functions provided by C runtime (do not emit body)
  std::vector<std::string> dropCtor; // opt-in: static initialisers (llvm.global_ctors entries whose function name contains the substring) that are NOT run; what only they reach is removed (GlobalDCE)
  for (int i = 1; i < argc; ++i) {
    std::string a = argv[i];
    if (a == "--eh") EH = true; else if (a == "--ub-arith") UBARITH = true; else if (a == "--store-hook") STOREHOOK = true; else if (a == "--null-guard") NULLGUARD = true; else if (a == "--byte-loops") BYTELOOPS = true;
    else if (a.rfind("--drop-ctor=", 0) == 0) dropCtor.push_back(a.substr(12));
    else if (a.rfind("--skip=", 0) == 0) skip.insert(a.substr(7));
    else in = a;
  }
  LLVMContext C; SMDiagnostic E;
  auto M = parseIRFile(in, E, C);
  if (!M) { E.print("ll2c", errs()); return 1; }
  if (!dropCtor.empty()) {
    if (GlobalVariable *GC = M->getGlobalVariable("llvm.global_ctors")) if (GC->hasInitializer()) if (auto *CA = dyn_cast<ConstantArray>(GC->getInitializer())) {
      std::vector<Constant*> keep;
      for (unsigned i = 0; i < CA->getNumOperands(); ++i) {
        auto *CS = cast<ConstantStruct>(CA->getOperand(i)); auto *fn = dyn_cast<Function>(CS->getOperand(1)->stripPointerCasts());
        bool drop = false; if (fn) for (auto &s : dropCtor) if (fn->getName().contains(s)) drop = true;
        if (drop) errs() << "DROPPED static initialiser " << fn->getName() << "\n"; else keep.push_back(CS);
      }
      if (keep.size() != CA->getNumOperands()) {
        ArrayType *AT = ArrayType::get(CA->getType()->getElementType(), keep.size());
        if (!keep.empty()) { auto *NGV = new GlobalVariable(*M, AT, false, GlobalValue::AppendingLinkage, ConstantArray::get(AT, keep), ""); NGV->takeName(GC); }
        GC->eraseFromParent();
        legacy::PassManager PM; PM.add(createGlobalDCEPass()); PM.run(*M);
      }
    }
  }
  DL = &M->getDataLayout();
  { // typed storage override inference: unique struct T with bitcast __aligned_buffer* -> T* and sizeof(T) == sizeof(buffer)
    std::map<StructType*, std::set<Type*>> cand;
    auto consider = [&](Type *from, Type *to) {
      auto *PF = dyn_cast<PointerType>(from); auto *PT = dyn_cast<PointerType>(to); if (!PF || !PT) return;
      auto *S = dyn_cast<StructType>(PF->getPointerElementType());
      if (!S || !S->hasName() || !S->getName().startswith("struct.__gnu_cxx::__aligned_buffer") || S->isOpaque()) return;
      auto *T = dyn_cast<StructType>(PT->getPointerElementType());
      if (!T || T->isOpaque() || !T->isSized() || T == S) return;
      if (DL->getTypeAllocSize(T) != DL->getTypeAllocSize(S)) return;
      cand[S].insert(T);
    };
    for (Function &F : *M) for (BasicBlock &BB : F) for (Instruction &I : BB) {
      if (auto *BC = dyn_cast<BitCastInst>(&I)) consider(BC->getSrcTy(), BC->getDestTy());
      for (Value *Op : I.operands()) if (auto *CE = dyn_cast<ConstantExpr>(Op)) if (CE->getOpcode() == Instruction::BitCast) consider(CE->getOperand(0)->getType(), CE->getType());
    }
    // std::string's SSO union { char _M_local_buf[16]; size_t _M_allocated_capacity; } is { i64, [8 x i8] } in the IR; the characters are
    // accessed through i8*.  As bytes ([16 x i8]) CBMC folds short-string contents/comparisons; the capacity word (heap strings only) is
    // then the one access going through a pointer cast.
    for (StructType *S : M->getIdentifiedStructTypes()) {
      if (!S->hasName() || !S->getName().startswith("class.std::__cxx11::basic_string") || S->isOpaque() || S->getNumElements() != 3) continue;
      auto *U = dyn_cast<StructType>(S->getElementType(2));
      if (U && U->hasName() && U->getName().startswith("union.") && !U->isOpaque() && DL->getTypeAllocSize(U) == 16 && !ovT.count(U)) {
        ovT[U] = ArrayType::get(Type::getInt8Ty(C), 16); errs() << "NOTE typed storage: " << U->getName() << " (std::string SSO buffer) -> [16 x i8]\n";
      }
    }
    for (auto &c : cand) {
      if (c.second.size() == 1) { ovT[c.first] = *c.second.begin(); errs() << "NOTE typed storage: " << c.first->getName() << " -> " << cast<StructType>(*c.second.begin())->getName() << "\n"; }
      else {
        ovAmbig[c.first] = c.second;
        errs() << "NOTE typed storage: " << c.first->getName() << " has " << c.second.size() << " candidate types; typed per allocation site\n";
      }
    }
    if (!ovAmbig.empty()) for (Function &F : *M) {   // demangled class names of the candidates, from their constructors / destructors
      if (F.arg_empty() || !F.getName().startswith("_ZN")) continue;
      auto *PT = dyn_cast<PointerType>(F.getArg(0)->getType()); if (!PT) continue;
      Type *T0 = PT->getPointerElementType(); bool isCand = false;
      for (auto &a : ovAmbig) if (a.second.count(T0)) isCand = true;
      if (!isCand || ovClassName.count(T0)) continue;
      std::string d = demangled(F.getName());
      size_t par = std::string::npos; int depth = 0;   // first '(' outside template brackets
      for (size_t i = 0; i < d.size(); ++i) { if (d[i] == '<') ++depth; else if (d[i] == '>') --depth; else if (d[i] == '(' && depth == 0) { par = i; break; } }
      if (par == std::string::npos) continue;
      std::string q = d.substr(0, par);   // Class<Args>::Class or Class<Args>::~Class
      size_t sep = std::string::npos; depth = 0;
      for (size_t i = 0; i + 1 < q.size(); ++i) { if (q[i] == '<') ++depth; else if (q[i] == '>') --depth; else if (q[i] == ':' && q[i + 1] == ':' && depth == 0) sep = i; }
      if (sep == std::string::npos) continue;
      std::string cls = q.substr(0, sep), mem = q.substr(sep + 2);
      std::string base = cls; { int dd = 0; size_t cut = std::string::npos, lastsep = 0; for (size_t i = 0; i < cls.size(); ++i) { if (cls[i] == '<') { if (dd == 0 && cut == std::string::npos) cut = i; ++dd; } else if (cls[i] == '>') --dd; else if (cls[i] == ':' && dd == 0) { lastsep = i + 1; cut = std::string::npos; } } base = cls.substr(lastsep, (cut == std::string::npos ? cls.size() : cut) - lastsep); }
      if (mem == base || mem == "~" + base) { ovClassName[T0] = cls; errs() << "NOTE typed storage: candidate " << cast<StructType>(T0)->getName() << " = " << cls << "\n"; }
    }
  }
  std::string body; raw_string_ostream B(body);
  std::string protos; raw_string_ostream P(protos);
  std::string globals; raw_string_ostream G(globals);

  // globals: declarations
  for (GlobalVariable &GV : M->globals()) {
    Type *VT = GV.getValueType();
    std::string n = gname(&GV);
    if (GV.getName().startswith("llvm.")) continue;
    // typeinfo objects of fundamental types (_ZTIi, _ZTIb, ...: defined in libstdc++.so): {vptr, name} with the mangled one-letter name,
    // so that typeid(T).name() / type_info::operator== read constants (C13/C14 internal_type_name)
    if (!GV.hasInitializer() && GV.getName().size() == 5 && GV.getName().startswith("_ZTI") && GV.getName()[4] >= 'a' && GV.getName()[4] <= 'z') {
      P << "extern u8* " << n << "[2];\n";
      G << "static u8 " << n << "_name[2] = {" << (int)GV.getName()[4] << ", 0};\n";
      G << "u8* " << n << "[2] = {(u8*)0, " << n << "_name};\n";
      continue;
    }
    P << "extern " << ctype(VT) << " " << n << ";\n";
  }
  for (GlobalVariable &GV : M->globals()) {
    if (GV.getName().startswith("llvm.")) continue;
    if (!GV.hasInitializer()) continue;
    Type *VT = GV.getValueType();
    Constant *I = GV.getInitializer();
    G << ctype(VT) << " " << gname(&GV) << " = ";
    if (VT->isStructTy() || VT->isArrayTy()) G << constAggInit(I); else G << constExpr(I, true);
    G << ";\n";
  }
  for (Function &F : *M) {
    if (F.isIntrinsic()) continue;
    // libc string functions left external (CBMC's built-in library models them): in the gcc build of the generated C (translation validation,
    // V_NATIVE) <string.h> already declares them with their real prototypes -- our u8*/u64 prototype would be a conflicting declaration
    static const char *libcstr[] = {"memcmp", "strlen", "strcmp", "strncmp", "memchr", "strchr"};
    bool lc = false; if (F.isDeclaration()) for (const char *n : libcstr) if (F.getName() == n) lc = true;
    if (lc) P << "#ifndef V_NATIVE\n";
    P << FnEmitter::fproto(F, false) << ";\n";
    if (lc) P << "#endif\n";
  }
  for (Function &F : *M) {
    if (F.isDeclaration() || skip.count(F.getName().str())) continue;
    FnEmitter FE(F, B); FE.emit();
  }
  // iostream formatting entry points (live in libstdc++.so): empty bodies returning the stream (formatting is never the subject)
  for (Function &F : *M) {
    if (!F.isDeclaration() || F.isIntrinsic() || skip.count(F.getName().str())) continue;
    FunctionType *FT = F.getFunctionType();
    StringRef n = F.getName();
    bool os = n.startswith("_ZNSo") || n.startswith("_ZStls") || n.startswith("_ZSt4endl") || n.startswith("_ZSt16__ostream_insert") || n.startswith("_ZNSolsE") || n.startswith("_ZSt5flush");
    if (os && FT->getNumParams() >= 1 && FT->getReturnType() == FT->getParamType(0)) {
      B << FnEmitter::fproto(F, true) << " { return a0; }\n"; stubbed.push_back(n.str());
    } else if (os && FT->getReturnType()->isVoidTy()) {
      B << FnEmitter::fproto(F, true) << " { }\n"; stubbed.push_back(n.str());
    }
    // std exception classes' out-of-line members (message storage is not modelled: what() returns "")
    static const char *exc[] = {"_ZNSt13runtime_error", "_ZNKSt13runtime_error", "_ZNSt11logic_error", "_ZNKSt11logic_error", "_ZNSt12length_error", "_ZNSt12out_of_range",
                                "_ZNSt9exception", "_ZNKSt9exception", "_ZNSt9bad_alloc", "_ZNKSt9bad_alloc", "_ZNSt16invalid_argument", "_ZNSt12domain_error", "_ZNSt14overflow_error",
                                "_ZNSt11range_error", "_ZNSt8bad_cast", "_ZNKSt8bad_cast", "_ZNSt17bad_function_call", "_ZNKSt17bad_function_call", "_ZNSt20bad_array_new_length", "_ZNKSt20bad_array_new_length"};
    bool ex = false; for (const char *e : exc) if (n.startswith(e)) ex = true;
    if (ex && !os) {
      if (FT->getReturnType()->isVoidTy()) B << FnEmitter::fproto(F, true) << " { }\n";
      else if (FT->getReturnType()->isPointerTy()) B << FnEmitter::fproto(F, true) << " { static u8 empty[1]; return (" << ctype(FT->getReturnType()) << ")empty; }\n";
      else continue;
      stubbed.push_back(n.str());
    }
  }
  // C20: writable objects with static storage duration are shared between threads by construction
  if (STOREHOOK) {
    B << "u1 v_is_global(u8* p) {\n";
    for (GlobalVariable &GV : M->globals()) {
      if (GV.getName().startswith("llvm.") || GV.isConstant() || GV.getName().contains("vh_")) continue;   // vh_*: harness-owned scratch globals
      if (GV.isDeclaration()) continue;
      B << "  if (__CPROVER_same_object(p, (u8*)&" << gname(&GV) << ")) return 1;\n";
    }
    B << "  return 0;\n}\n";
  }
  // static initialisers (llvm.global_ctors) in priority order; harness entries call this first
  {
    std::vector<std::pair<uint64_t, Function*>> ctors;
    if (GlobalVariable *GC = M->getGlobalVariable("llvm.global_ctors")) if (GC->hasInitializer()) if (auto *CA = dyn_cast<ConstantArray>(GC->getInitializer()))
      for (unsigned i = 0; i < CA->getNumOperands(); ++i) { auto *CS = cast<ConstantStruct>(CA->getOperand(i)); auto *fn = dyn_cast<Function>(CS->getOperand(1)->stripPointerCasts()); if (fn && !fn->isDeclaration()) ctors.push_back({cast<ConstantInt>(CS->getOperand(0))->getZExtValue(), fn}); }
    std::stable_sort(ctors.begin(), ctors.end(), [](auto &a, auto &b) { return a.first < b.first; });
    B << "void v_run_static_init(void) {\n  static int done; if (done) return; done = 1;\n";
    for (auto &c : ctors) B << "  " << gname(c.second) << "();\n";
    B << "}\n";
    P << "void v_run_static_init(void);\n";
  }
  // exception type matching from the typeinfo graph
  {
    std::map<std::string, std::set<std::string>> bases;
    auto addStd = [&](const char *d, const char *b) { bases[d].insert(b); };
    addStd("_ZTISt13runtime_error", "_ZTISt9exception"); addStd("_ZTISt11logic_error", "_ZTISt9exception");
    addStd("_ZTISt12length_error", "_ZTISt11logic_error"); addStd("_ZTISt12out_of_range", "_ZTISt11logic_error");
    addStd("_ZTISt16invalid_argument", "_ZTISt11logic_error"); addStd("_ZTISt12domain_error", "_ZTISt11logic_error");
    addStd("_ZTISt9bad_alloc", "_ZTISt9exception"); addStd("_ZTISt20bad_array_new_length", "_ZTISt9bad_alloc");
    addStd("_ZTISt8bad_cast", "_ZTISt9exception"); addStd("_ZTISt17bad_function_call", "_ZTISt9exception");
    addStd("_ZTISt14overflow_error", "_ZTISt13runtime_error"); addStd("_ZTISt11range_error", "_ZTISt13runtime_error");
    addStd("_ZTISt12bad_weak_ptr", "_ZTISt9exception");
    std::vector<GlobalVariable*> tis;
    for (GlobalVariable &GV : M->globals()) {
      if (!GV.getName().startswith("_ZTI")) continue;
      tis.push_back(&GV);
      if (!GV.hasInitializer()) continue;
      std::vector<Constant*> work{GV.getInitializer()};
      while (!work.empty()) { Constant *c = work.back(); work.pop_back();
        Constant *s = c->stripPointerCasts();
        if (auto *g = dyn_cast<GlobalVariable>(s)) { if (g != &GV && g->getName().startswith("_ZTI")) bases[GV.getName().str()].insert(g->getName().str()); continue; }
        if (isa<ConstantAggregate>(c) || isa<ConstantExpr>(c)) for (unsigned i = 0; i < c->getNumOperands(); ++i) if (auto *o = dyn_cast<Constant>(c->getOperand(i))) work.push_back(o);
      }
    }
    std::set<std::string> present; for (auto *g : tis) present.insert(g->getName().str());
    B << "u1 v_exc_match(u8* want) {\n";
    for (auto *g : tis) {
      std::set<std::string> anc; std::vector<std::string> work{g->getName().str()};
      while (!work.empty()) { std::string c = work.back(); work.pop_back(); if (!anc.insert(c).second) continue; for (auto &b : bases[c]) work.push_back(b); }
      B << "  if (v_exc_ti == (u8*)&" << gname(g) << ") return 0";
      for (auto &a : anc) if (present.count(a)) B << " || want == (u8*)&" << san(a);
      B << ";\n";
    }
    B << "  return 0;\n}\n";
  }
  for (auto &n : stubbed) errs() << "STUB " << n << "\n";
  for (Function &F : *M) if (F.isDeclaration() && !F.isIntrinsic() && !F.use_empty() && std::find(stubbed.begin(), stubbed.end(), F.getName().str()) == stubbed.end()) errs() << "EXTERN " << F.getName() << "\n";
  B.flush(); P.flush(); G.flush();
  // types
  std::string types; raw_string_ostream T(types);
  // forward declare all structs
  // (structOrder/arrOrder may grow while emitting)
  for (size_t i = 0; i < vecOrder.size(); ++i) T << ctype(vecOrder[i]) << " { " << ctype(vecOrder[i]->getElementType()) << " e[" << vecOrder[i]->getNumElements() << "]; };\n";
  for (size_t i = 0; i < structOrder.size(); ++i) T << structName(structOrder[i]) << ";\n";
  for (size_t i = 0; i < arrOrder.size(); ++i) T << ctype(arrOrder[i]) << ";\n";
  for (size_t i = 0; i < structOrder.size(); ++i) emitTypeDef(structOrder[i], T);
  for (size_t i = 0; i < arrOrder.size(); ++i) emitTypeDef(arrOrder[i], T);
  T << synthDefs;   // per-allocation typed control blocks (after every type they embed)
  T.flush();
  outs() << "#include \"v_rt.h\"\n";
  outs() << types << typedefs_fn << protos << globals << body;
  return 0;
}
