// gen_ovmb: produces the bytes of VALID OVMB files with the REAL writer of the current /repo tree (run natively at
// check time as a `pregen` step of the jobs in spec_C18.py / spec_C06_file.py / spec_C07_file.py) and writes them, together
// with a field-classification table derived from the PUBLISHED format (documentation/subpages/binary_file_format.docu,
// extra/ovmb-kaitai/ovmb.ksy -- NOT from the reader), as C arrays into <outdir>/c18_files.inc.
//   usage: gen <outdir>
// Files: EMPTY (empty mesh: 48-byte header + EOF chunk), TET (one tetrahedron with Vec3d positions), TETP (TET + one
// persistent int vertex property "p").
#include "c18_meshes.h"
#include <OpenVolumeMesh/IO/ovmb_write.hh>
#include <sstream>
#include <cstdio>
#include <cstdlib>
#include <string>
#include <vector>

// field classes of every byte of a file; must match the enum written into the .inc (see emit_enum)
enum Cls { CLS_FREE = 0, CLS_MAGIC, CLS_HEADER_VERSION, CLS_RESERVED, CLS_PADDING, CLS_TOPO_TYPE, CLS_CHUNK_TYPE, CLS_CHUNK_VERSION,
           CLS_PADDING_BYTES, CLS_COMPRESSION, CLS_FILE_LENGTH, CLS_SPAN_FIRST, CLS_SPAN_COUNT, CLS_ENUM, CLS_VALENCE,
           CLS_HANDLE_OFFSET, CLS_HANDLE, CLS_PROP_IDX, N_CLS };
static const char *cls_names[] = {"CLS_FREE", "CLS_MAGIC", "CLS_HEADER_VERSION", "CLS_RESERVED", "CLS_PADDING", "CLS_TOPO_TYPE", "CLS_CHUNK_TYPE",
  "CLS_CHUNK_VERSION", "CLS_PADDING_BYTES", "CLS_COMPRESSION", "CLS_FILE_LENGTH", "CLS_SPAN_FIRST", "CLS_SPAN_COUNT", "CLS_ENUM", "CLS_VALENCE",
  "CLS_HANDLE_OFFSET", "CLS_HANDLE", "CLS_PROP_IDX"};
enum ChunkKind { CK_DIRP = 0, CK_VERT, CK_EDGES, CK_FACES, CK_CELLS, CK_PROP, CK_EOF, CK_OTHER };

static void die(const char *m) { fprintf(stderr, "gen_ovmb: %s\n", m); exit(1); }

struct Layout {
  std::vector<unsigned char> b;
  std::vector<unsigned char> cls;
  std::vector<unsigned> chunk_off, chunk_kind, chunk_maxh, chunk_limit, chunk_hsize;   // per chunk (maxh/limit/hsize: TOPO chunks only)
  uint64_t nv, ne, nf, nc;
};
static uint64_t rd(const std::vector<unsigned char> &b, size_t o, unsigned n) { uint64_t v = 0; for (unsigned i = 0; i < n; ++i) { if (o + i >= b.size()) die("walker: read beyond file"); v |= (uint64_t)b[o + i] << (8 * i); } return v; }
static void mark(Layout &L, size_t o, size_t n, Cls c) { for (size_t i = 0; i < n; ++i) { if (o + i >= L.cls.size()) die("walker: mark beyond file"); L.cls[o + i] = (unsigned char)c; } }

// independent walk of the file according to the published layout
static void walk(Layout &L) {
  const std::vector<unsigned char> &b = L.b;
  L.cls.assign(b.size(), CLS_FREE);
  if (b.size() < 48) die("file shorter than header");
  mark(L, 0, 8, CLS_MAGIC);            // file_version (8) free
  mark(L, 9, 1, CLS_HEADER_VERSION);   // vertex_dim (10) free
  mark(L, 11, 1, CLS_TOPO_TYPE);
  mark(L, 12, 4, CLS_RESERVED);
  L.nv = rd(b, 16, 8); L.ne = rd(b, 24, 8); L.nf = rd(b, 32, 8); L.nc = rd(b, 40, 8);
  size_t o = 48;
  while (o < b.size()) {
    if (o + 16 > b.size()) die("walker: truncated chunk header");
    std::string type((const char *)&b[o], 4);
    unsigned pad = b[o + 5]; uint64_t flen = rd(b, o + 8, 8);
    if (flen < pad || o + 16 + flen > b.size()) die("walker: bad chunk length");
    mark(L, o, 4, CLS_CHUNK_TYPE); mark(L, o + 4, 1, CLS_CHUNK_VERSION); mark(L, o + 5, 1, CLS_PADDING_BYTES); mark(L, o + 6, 1, CLS_COMPRESSION);
    if (b[o + 7] != 1) die("walker: writer is expected to mark every chunk mandatory");   // flags byte stays CLS_FREE
    mark(L, o + 8, 8, CLS_FILE_LENGTH);
    size_t p = o + 16, pend = p + (flen - pad);
    mark(L, pend, pad, CLS_PADDING);
    unsigned kind = CK_OTHER, maxh = 0, limit = 0, hsize = 0;
    if (type == "EOF ") kind = CK_EOF;
    else if (type == "DIRP") kind = CK_DIRP;   // directory entries: names/types/defaults are legal to change -> CLS_FREE
    else if (type == "VERT") {
      kind = CK_VERT; mark(L, p, 8, CLS_SPAN_FIRST); mark(L, p + 8, 4, CLS_SPAN_COUNT); mark(L, p + 12, 1, CLS_ENUM); mark(L, p + 13, 3, CLS_RESERVED);
    } else if (type == "PROP") {
      kind = CK_PROP; mark(L, p, 8, CLS_SPAN_FIRST); mark(L, p + 8, 4, CLS_SPAN_COUNT); mark(L, p + 12, 4, CLS_PROP_IDX);
    } else if (type == "TOPO") {
      mark(L, p, 8, CLS_SPAN_FIRST); mark(L, p + 8, 4, CLS_SPAN_COUNT); mark(L, p + 12, 1, CLS_ENUM); mark(L, p + 13, 1, CLS_VALENCE);
      mark(L, p + 14, 1, CLS_ENUM); mark(L, p + 15, 1, CLS_ENUM); mark(L, p + 16, 8, CLS_HANDLE_OFFSET);
      unsigned ent = b[p + 12], valence = b[p + 13], venc = b[p + 14], henc = b[p + 15]; uint64_t count = rd(b, p + 8, 4), hoff = rd(b, p + 16, 8);
      kind = ent == 1 ? CK_EDGES : ent == 2 ? CK_FACES : ent == 3 ? CK_CELLS : CK_OTHER;
      if (kind == CK_OTHER || hoff != 0) die("walker: unexpected topo chunk");
      limit = (unsigned)(ent == 1 ? L.nv : ent == 2 ? 2 * L.ne : 2 * L.nf);
      size_t q = p + 24; uint64_t nh = 0;
      if (valence == 0) { for (uint64_t i = 0; i < count; ++i) { nh += rd(b, q, venc); q += venc; } }   // valence list: CLS_FREE (a changed valence is covered by the byte-count check only)
      else nh = count * valence;
      hsize = henc;
      if (q + nh * henc != pend) die("walker: topo chunk size mismatch");
      for (uint64_t i = 0; i < nh; ++i) { uint64_t h = rd(b, q, henc); if (h > maxh) maxh = (unsigned)h; mark(L, q, henc, CLS_HANDLE); q += henc; }
      if (maxh >= limit) die("walker: writer produced an out-of-range handle");
    } else die("walker: unknown chunk type from writer");
    L.chunk_off.push_back((unsigned)o); L.chunk_kind.push_back(kind); L.chunk_maxh.push_back(maxh); L.chunk_limit.push_back(limit); L.chunk_hsize.push_back(hsize);
    o += 16 + flen;
  }
  if (L.chunk_kind.empty() || L.chunk_kind.back() != CK_EOF) die("walker: file does not end with an EOF chunk");
}

static void emit_arr(FILE *f, const char *name, const char *sfx, const char *type, const std::vector<unsigned> &v) {
  fprintf(f, "static const %s %s%s[%zu] = {", type, name, sfx, v.size() ? v.size() : 1);
  for (size_t i = 0; i < v.size(); ++i) fprintf(f, "%s%u", i ? "," : "", v[i]);
  if (v.empty()) fprintf(f, "0");
  fprintf(f, "};\n");
}

static void emit(FILE *f, const char *name, unsigned which) {
  VMesh m; build_file_mesh(m, which);
  std::ostringstream os(std::ios::binary);
  auto res = OpenVolumeMesh::IO::ovmb_write(os, m);
  if (res != OpenVolumeMesh::IO::WriteResult::Ok) die("ovmb_write failed");
  std::string s = os.str();
  Layout L; L.b.assign(s.begin(), s.end());
  walk(L);
  if (L.b.size() >= 65536) die("file too large");
  std::vector<unsigned> bytes(L.b.begin(), L.b.end()), cls(L.cls.begin(), L.cls.end());
  fprintf(f, "// ---- %s: %zu bytes, %zu chunks, V/E/F/C = %llu/%llu/%llu/%llu\n", name, L.b.size(), L.chunk_off.size(),
          (unsigned long long)L.nv, (unsigned long long)L.ne, (unsigned long long)L.nf, (unsigned long long)L.nc);
  fprintf(f, "enum { %s_LEN = %zu, %s_NCHUNKS = %zu };\n", name, L.b.size(), name, L.chunk_off.size());
  emit_arr(f, name, "", "unsigned char", bytes);
  emit_arr(f, name, "_CLS", "unsigned char", cls);
  emit_arr(f, name, "_CHUNK_OFF", "unsigned short", L.chunk_off);
  emit_arr(f, name, "_CHUNK_KIND", "unsigned char", L.chunk_kind);
  emit_arr(f, name, "_CHUNK_MAXH", "unsigned short", L.chunk_maxh);
  emit_arr(f, name, "_CHUNK_LIMIT", "unsigned short", L.chunk_limit);
  emit_arr(f, name, "_CHUNK_HSIZE", "unsigned char", L.chunk_hsize);
  // the must-reject set: offsets of every byte whose class is neither FREE nor COMPRESSION (the compression byte is kept apart)
  {
    std::vector<unsigned> mr; for (size_t i = 0; i < L.cls.size(); ++i) if (L.cls[i] != CLS_FREE && L.cls[i] != CLS_COMPRESSION) mr.push_back((unsigned)i);
    fprintf(f, "enum { %s_N_MR = %zu };\n", name, mr.size());
    emit_arr(f, name, "_MR", "unsigned short", mr);
  }
  // per class: sorted list of the byte offsets in that class
  for (unsigned c = 1; c < N_CLS; ++c) {
    std::vector<unsigned> offs; for (size_t i = 0; i < L.cls.size(); ++i) if (L.cls[i] == c) offs.push_back((unsigned)i);
    fprintf(f, "enum { %s_N_%s = %zu };\n", name, cls_names[c], offs.size());
    std::string sfx = std::string("_OFFS_") + cls_names[c];
    emit_arr(f, name, sfx.c_str(), "unsigned short", offs);
  }
}

int main(int argc, char **argv) {
  if (argc != 2) die("usage: gen <outdir>");
  std::string out = std::string(argv[1]) + "/c18_files.inc";
  FILE *f = fopen((out + ".tmp").c_str(), "w");
  if (!f) die("cannot open output");
  fprintf(f, "// GENERATED by /verif/tools/gen_ovmb.cpp from the real OVMB writer of the current source tree. Do not edit.\n#pragma once\n");
  fprintf(f, "enum C18Cls {"); for (unsigned c = 0; c < N_CLS; ++c) fprintf(f, " %s = %u,", cls_names[c], c); fprintf(f, " N_CLS = %u };\n", (unsigned)N_CLS);
  fprintf(f, "enum C18ChunkKind { CK_DIRP = 0, CK_VERT, CK_EDGES, CK_FACES, CK_CELLS, CK_PROP, CK_EOF, CK_OTHER };\n");
  emit(f, "F_EMPTY", FM_EMPTY);
  emit(f, "F_TET", FM_TET);
  emit(f, "F_TETP", FM_TETP);
  fclose(f);
  if (rename((out + ".tmp").c_str(), out.c_str()) != 0) die("rename failed");
  return 0;
}
