#!/bin/sh
# Confirms the seeded changes of one scratch worktree myself: for each out/<id>: apply, rebuild, whole suite must pass
# (modulo the three unstable SaveFile tests), demo must FAIL; revert, rebuild, demo must PASS. Copies confirmed ones to /verif/seeded/<group>-<id>/.
# usage: tools/confirm_seeded.sh /tmp/mut-A A
W=$1; G=$2; OUT=/verif/seeded
for d in "$W"/out/C*; do
  id=$(basename "$d"); [ -f "$d/patch.diff" ] || continue
  name="$G-$id"
  [ -f "$OUT/$name/confirmed.json" ] && continue
  git -C "$W" checkout -q -- src
  if ! git -C "$W" apply "$d/patch.diff" 2>/dev/null; then echo "$name: patch does not apply"; continue; fi
  if ! cmake --build "$W/_build" -j3 >/dev/null 2>&1; then echo "$name: BUILD FAILS with change"; git -C "$W" checkout -q -- src; continue; fi
  suite=$(ctest --test-dir "$W/_build" -j3 --timeout 900 -E 'PolyhedralFileTest/.*SaveFile(WithProps|WithVectorProps)?$' 2>&1 | grep -E "tests passed|tests failed" | tail -1)
  sh "$d/run.sh" >"$d/demo_with.log" 2>&1; rc_with=$?
  git -C "$W" checkout -q -- src
  cmake --build "$W/_build" -j3 >/dev/null 2>&1
  sh "$d/run.sh" >"$d/demo_without.log" 2>&1; rc_without=$?
  ok=0; case "$suite" in "100% tests passed"*) [ $rc_with -ne 0 ] && [ $rc_without -eq 0 ] && ok=1;; esac
  echo "$name: suite='$suite' demo_with_change_rc=$rc_with demo_without_rc=$rc_without confirmed=$ok"
  if [ $ok -eq 1 ]; then
    mkdir -p "$OUT/$name"; cp "$d/patch.diff" "$d/demo.cpp" "$d/run.sh" "$d/meta.json" "$OUT/$name/" 2>/dev/null
    printf '{"confirmed_by_main": true, "worktree": "%s", "suite": "%s", "demo_rc_with_change": %s, "demo_rc_without": %s, "ran": "git apply; cmake --build; ctest -E SaveFile*; run.sh; git checkout; cmake --build; run.sh"}\n' "$W" "$suite" "$rc_with" "$rc_without" > "$OUT/$name/confirmed.json"
  fi
done
git -C "$W" checkout -q -- src
