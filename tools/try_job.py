#!/usr/bin/env python3
"""Quick single-query runner for harness development.
  tools/try_job.py <harness.cpp> <entry> [--units CORE|a.cc,b.cc] [--unwind N] [--eh] [--mem] [--timeout S]
                   [--param k=v ...] [--solver minisat|cadical|kissat|cvc5|z3] [--define X ...] [--trace PROP] [--native v1,v2,..]
Prints per-property status (failures, witnesses), symex/solver time. Does not write evidence."""
import sys, os, argparse, json, time, subprocess
sys.path.insert(0, os.path.join(os.path.dirname(os.path.abspath(__file__)), ".."))
import ovmbmc, specs
ap = argparse.ArgumentParser()
ap.add_argument("harness"); ap.add_argument("entry")
ap.add_argument("--units", default="CORE"); ap.add_argument("--unwind", type=int, default=26)
ap.add_argument("--eh", action="store_true"); ap.add_argument("--mem", action="store_true")
ap.add_argument("--timeout", type=int, default=300); ap.add_argument("--param", action="append", default=[])
ap.add_argument("--solver", default="minisat"); ap.add_argument("--define", action="append", default=[])
ap.add_argument("--trace"); ap.add_argument("--native"); ap.add_argument("--object-bits", type=int, default=13)
ap.add_argument("--unwindset", action="append", default=[]); ap.add_argument("--gen-native", help="run the gcc-compiled GENERATED C with these values")
a = ap.parse_args()
units = getattr(specs, a.units) if hasattr(specs, a.units) else [u for u in a.units.split(",") if u]
job = dict(name="try-" + os.path.splitext(a.harness)[0], harness=a.harness, entries=[a.entry], units=units, unwind=a.unwind, eh=a.eh,
           checks="mem" if a.mem else "none", object_bits=a.object_bits, defines=a.define, unwindset=a.unwindset)
params = {int(p.split("=")[0]): int(p.split("=")[1]) for p in a.param}
if a.native is not None:
    exe = ovmbmc.build_native(job, "quick")
    r = ovmbmc.native_run(exe, a.entry, params, [int(x) for x in a.native.split(",") if x])
    print(r["out"][-3000:]); print(r["err"][-2000:]); print("rc", r["rc"]); sys.exit(0)
t0 = time.time()
jd = ovmbmc.build_job(job, "quick"); gb = ovmbmc.link_shard(jd, job, params)
print("built in %.1fs: %s" % (time.time() - t0, jd))
print(open(os.path.join(jd, "ll2c.log")).read()[-1500:])
if a.gen_native is not None:
    exe = os.path.join(jd, "gen_native")
    r = subprocess.run(["gcc", "-O0", "-w", "-DV_NATIVE", "-DV_ENTRY_FN=" + a.entry, "-I", os.path.join(ovmbmc.VERIF, "rt"), os.path.join(jd, "job.c"),
                        os.path.join(ovmbmc.VERIF, "rt", "rt_gen_native.c"), "-lstdc++", "-lm", "-o", exe], capture_output=True, text=True)
    print(r.stderr[-2000:])
    env = dict(os.environ); env["V_VALUES"] = a.gen_native
    for k, v in params.items(): env["V_PARAM%d" % k] = str(v)
    r = subprocess.run([exe], capture_output=True, text=True, env=env); print(r.stdout[-3000:]); print("rc", r.returncode); sys.exit(0)
extra = ["--trace", "--property", a.trace] if a.trace else []
r = ovmbmc.run_cbmc_once(ovmbmc.cbmc_cmd(gb, a.entry, job, a.solver, extra), a.timeout, 10)
if r["status"] == "timeout": print("TIMEOUT after", a.timeout); sys.exit(3)
pr = ovmbmc.parse_cbmc(r["out"])
st = ovmbmc.stats_from_messages(pr["messages"])
print("stats:", st, "wall %.1fs rss %sMB" % (r["wall"], r["maxrss_mb"]))
if pr["error"]: print("ERROR:", pr["error"][:2000])
if pr["verdict"] is None: print(r["err"][-2000:]); print(r["out"][-2000:])
nok = 0
for x in pr["results"]:
    if x["status"] == "SUCCESS" and not ovmbmc.is_witness(x): nok += 1; continue
    tag = "witness-reached" if (ovmbmc.is_witness(x) and x["status"] == "FAILURE") else ("WITNESS-UNREACHED" if ovmbmc.is_witness(x) else x["status"])
    print("%-18s %s  %s" % (tag, x["property"], x["description"][:160]))
    if a.trace and x.get("trace"): print("   nondet values:", ovmbmc.extract_nondets(x["trace"]))
print("%d other properties SUCCESS; verdict %s" % (nok, pr["verdict"]))
