#!/usr/bin/env python3
"""Quick single-query runner for harness development.
  tools/try_job.py <harness.cpp> <entry> [--units CORE|a.cc,b.cc] [--unwind N] [--eh] [--mem] [--timeout S]
                   [--param k=v ...] [--solver minisat|cadical|kissat|cvc5|z3] [--define X ...] [--trace PROP] [--native v1,v2,..]
Prints per-property status (failures, witnesses), symex/solver time. Does not write evidence."""
import sys, os, argparse, json, time, subprocess
sys.path.insert(0, os.path.join(os.path.dirname(os.path.abspath(__file__)), ".."))
import ovmbmc, specs
ap = argparse.ArgumentParser()
ap.add_argument("harness"); ap.add_argument("entry")
ap.add_argument("--units", default="CORE"); ap.add_argument("--unwind", type=int, default=26)
ap.add_argument("--eh", action="store_true"); ap.add_argument("--mem", action="store_true")
ap.add_argument("--timeout", type=int, default=300); ap.add_argument("--param", action="append", default=[])
ap.add_argument("--solver", default="minisat"); ap.add_argument("--define", action="append", default=[])
ap.add_argument("--trace"); ap.add_argument("--native"); ap.add_argument("--object-bits", type=int, default=13)
ap.add_argument("--ll2c-flag", action="append", default=[], help="extra ll2c flag, e.g. --ll2c-flag=--byte-loops"); ap.add_argument("--unwindset", action="append", default=[]); ap.add_argument("--gen-native", help="run the gcc-compiled GENERATED C with these values")
ap.add_argument("--extra-models", default="", help="comma list of further model files under models/ (job key extra_models)")
ap.add_argument("--drop-functions", default="", help="comma list of IR functions whose bodies are deleted before DCE (job key drop_functions)")
ap.add_argument("--cbmc-flag", action="append", default=[], help="further cbmc option words (job key cbmc_flags), e.g. --cbmc-flag=--max-field-sensitivity-array-size --cbmc-flag=512")
ap.add_argument("--native-flag", action="append", default=[], help="extra g++ flags of the native replay build (job key native_flags)")
ap.add_argument("--pregen", default="", help="comma list of generator sources relative to /verif (job key pregen)")
ap.add_argument("--pregen-units", default="", help="units (or a specs list name) the generators are linked with (job key pregen_units)")
ap.add_argument("--verbosity9", action="store_true", help="debug recipe: run cbmc --verbosity 9 and print 'Unwinding loop' counts per loop")
a = ap.parse_args()
units = []
for u in a.units.split(","):
    if not u: continue
    units += list(getattr(specs, u)) if hasattr(specs, u) else [u]
job = dict(name="try-" + os.path.splitext(a.harness)[0], harness=a.harness, entries=[a.entry], units=units, unwind=a.unwind, eh=a.eh,
           checks="mem" if a.mem else "none", object_bits=a.object_bits, defines=a.define, unwindset=a.unwindset, ll2c_flags=a.ll2c_flag)
if a.extra_models: job["extra_models"] = [m for m in a.extra_models.split(",") if m]
if a.drop_functions: job["drop_functions"] = [m for m in a.drop_functions.split(",") if m]
if a.cbmc_flag: job["cbmc_flags"] = list(a.cbmc_flag)
if a.native_flag: job["native_flags"] = list(a.native_flag)
if a.pregen: job["pregen"] = [m for m in a.pregen.split(",") if m]
if a.pregen_units: job["pregen_units"] = getattr(specs, a.pregen_units) if hasattr(specs, a.pregen_units) else [u for u in a.pregen_units.split(",") if u]
params = {int(p.split("=")[0]): int(p.split("=")[1]) for p in a.param}
if a.native is not None:
    exe = ovmbmc.build_native(job, "quick")
    r = ovmbmc.native_run(exe, a.entry, params, [int(x) for x in a.native.split(",") if x])
    print(r["out"][-3000:]); print(r["err"][-2000:]); print("rc", r["rc"]); sys.exit(0)
t0 = time.time()
jd = ovmbmc.build_job(job, "quick"); gb = ovmbmc.link_shard(jd, job, params)
print("built in %.1fs: %s" % (time.time() - t0, jd))
print(open(os.path.join(jd, "ll2c.log")).read()[-1500:])
if a.gen_native is not None:
    exe = os.path.join(jd, "gen_native")
    r = subprocess.run(["gcc", "-O0", "-w", "-DV_NATIVE", "-DV_ENTRY_FN=" + a.entry, "-I", os.path.join(ovmbmc.VERIF, "rt"), os.path.join(jd, "job.c"),
                        os.path.join(ovmbmc.VERIF, "rt", "rt_gen_native.c"), "-lstdc++", "-lm", "-o", exe], capture_output=True, text=True)
    print(r.stderr[-2000:])
    env = dict(os.environ); env["V_VALUES"] = a.gen_native
    for k, v in params.items(): env["V_PARAM%d" % k] = str(v)
    r = subprocess.run([exe], capture_output=True, text=True, env=env); print(r.stdout[-3000:]); print("rc", r.returncode); sys.exit(0)
if a.verbosity9:
    import re, collections
    cmd = [c for c in ovmbmc.cbmc_cmd(gb, a.entry, job, a.solver) if c not in ("--json-ui",)]
    cmd[cmd.index("--verbosity") + 1] = "9"
    r = ovmbmc.run_cbmc_once(cmd, a.timeout, 10)
    cnt = collections.Counter(); last = {}
    for l in (r["out"] + r["err"]).splitlines():
        m = re.search(r"Unwinding loop (\S+) iteration (\d+)", l)
        if m: cnt[m.group(1)] += 1; last[m.group(1)] = max(last.get(m.group(1), 0), int(m.group(2)))
    for k, v in cnt.most_common(40): print("%8d  max-iter %5d  %s" % (v, last[k], k))
    print("status", r["status"], "wall %.1fs rss %sMB" % (r["wall"], r["maxrss_mb"])); print((r["out"] + r["err"])[-1500:]); sys.exit(0)
extra = ["--trace", "--property", a.trace] if a.trace else []
if a.trace: job["slice"] = False   # unsliced trace: every logged nondet value is present
r = ovmbmc.run_cbmc_once(ovmbmc.cbmc_cmd(gb, a.entry, job, a.solver, extra), a.timeout, 10)
if r["status"] == "timeout": print("TIMEOUT after", a.timeout); sys.exit(3)
pr = ovmbmc.parse_cbmc(r["out"])
st = ovmbmc.stats_from_messages(pr["messages"])
print("stats:", st, "wall %.1fs rss %sMB" % (r["wall"], r["maxrss_mb"]))
if pr["error"]: print("ERROR:", pr["error"][:2000])
if pr["verdict"] is None: print(r["err"][-2000:]); print(r["out"][-2000:])
nok = 0
for x in pr["results"]:
    if x["status"] == "SUCCESS" and not ovmbmc.is_witness(x): nok += 1; continue
    tag = "witness-reached" if (ovmbmc.is_witness(x) and x["status"] == "FAILURE") else ("WITNESS-UNREACHED" if ovmbmc.is_witness(x) else x["status"])
    print("%-18s %s  %s" % (tag, x["property"], x["description"][:160]))
    if a.trace and x.get("trace"): print("   nondet values:", ovmbmc.extract_nondets(x["trace"]))
print("%d other properties SUCCESS; verdict %s" % (nok, pr["verdict"]))
