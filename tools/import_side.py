#!/usr/bin/env python3
"""Imports results of evaluations that ran ./check against a scratch worktree with the seeded change applied (OVM_REPO=<worktree>, --no-evidence)
into seeded/RESULTS.json.  usage: import_side.py <name> <prop> <tier> <logfile> <wall_s> [job] [shard_filter]"""
import json, os, sys
V = os.path.dirname(os.path.dirname(os.path.abspath(__file__)))
n, c, tier, log, wall = sys.argv[1:6]; job = sys.argv[6] if len(sys.argv) > 6 else None; flt = sys.argv[7] if len(sys.argv) > 7 else None
out = open(log, errors="replace").read()
lines = [l for l in out.splitlines() if l.startswith(("VIOLATION", "KNOWN-FINDING", "NOT-COVERED", "TOOL-ERROR", "  query="))]
summary = [l for l in out.splitlines() if l.startswith(c + " ")][-1:]
viol = [l for l in lines if l.startswith(("VIOLATION", "  query="))]
rc = 1 if [l for l in lines if l.startswith("VIOLATION")] else (2 if [l for l in lines if l.startswith("TOOL-ERROR")] else 0)
resf = os.path.join(V, "seeded", "RESULTS.json"); res = json.load(open(resf))
key = c + ":" + tier + (":targeted" if (job or flt) else "")
res.setdefault(n, {})[key] = dict(exit=rc, caught=(rc == 1), violations=viol[:6], not_covered=len([l for l in lines if l.startswith("NOT-COVERED")]),
                                  tool_errors=[l[:300] for l in lines if l.startswith("TOOL-ERROR")][:4], summary=summary, wall_s=int(float(wall)), job=job, shard_filter=flt,
                                  method="change applied in a scratch worktree of /repo, check run with OVM_REPO=<worktree> at low priority next to other runs (wall time not representative)")
json.dump(res, open(resf, "w"), indent=1)
print(n, key, "caught" if rc == 1 else "missed", summary)
