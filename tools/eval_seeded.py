#!/usr/bin/env python3
"""Runs checks against the seeded property-breaking changes in /verif/seeded/<name>/patch.diff.
  tools/eval_seeded.py [--only name,...] [--tier quick] [--checks C01,C02 (default: the property the change breaks)]
For each change: git -C /repo apply, run ./check <prop>, record VIOLATION/KNOWN/NOT-COVERED/TOOL-ERROR lines, git -C /repo checkout -- . (always).
Results are written to seeded/RESULTS.json (evidence files written during these runs are restored afterwards)."""
import os, sys, json, subprocess, argparse, shutil, time
VERIF = os.path.dirname(os.path.dirname(os.path.abspath(__file__)))
REPO = "/repo"
ap = argparse.ArgumentParser(); ap.add_argument("--only"); ap.add_argument("--tier", default="quick"); ap.add_argument("--checks"); ap.add_argument("--timeout", type=int, default=5400); ap.add_argument("--job"); ap.add_argument("--shard-filter"); ap.add_argument("--tag")
a = ap.parse_args()
sd = os.path.join(VERIF, "seeded")
names = sorted(d for d in os.listdir(sd) if os.path.exists(os.path.join(sd, d, "patch.diff")))
if a.only: names = [n for n in names if n in a.only.split(",")]
resf = os.path.join(sd, "RESULTS.json")
results = json.load(open(resf)) if os.path.exists(resf) else {}
assert subprocess.run(["git", "-C", REPO, "status", "--porcelain", "--untracked-files=no"], capture_output=True, text=True).stdout.strip() == "", "/repo has uncommitted changes"
for n in names:
    meta = json.load(open(os.path.join(sd, n, "meta.json")))
    checks = a.checks.split(",") if a.checks else [meta["property"]]
    patch = os.path.join(sd, n, "patch.diff")
    r = subprocess.run(["git", "-C", REPO, "apply", "--check", patch], capture_output=True, text=True)
    if r.returncode != 0:
        print(n, "PATCH DOES NOT APPLY", r.stderr[:300]); results.setdefault(n, {})["error"] = "patch does not apply"; continue
    subprocess.run(["git", "-C", REPO, "apply", patch], check=True)
    try:
        for c in checks:
            evf = os.path.join(VERIF, "evidence", c + ".json"); bak = evf + ".bak-seeded"
            if os.path.exists(evf): shutil.copy(evf, bak)
            t0 = time.time()
            try:
                p = subprocess.run(["./check", c, "--tier", a.tier] + (["--job", a.job] if a.job else []) + (["--shard-filter", a.shard_filter] if a.shard_filter else []), cwd=VERIF, capture_output=True, text=True, timeout=a.timeout, env=dict(os.environ, OVM_NO_TV="1"))
                out, rc = p.stdout, p.returncode
            except subprocess.TimeoutExpired as e:
                out, rc = (e.stdout or b"").decode(errors="replace") if isinstance(e.stdout, bytes) else (e.stdout or ""), -9
            lines = [l for l in out.splitlines() if l.startswith(("VIOLATION", "KNOWN-FINDING", "NOT-COVERED", "TOOL-ERROR", "  query="))]
            summary = [l for l in out.splitlines() if l.startswith(c + " ")][-1:] 
            results.setdefault(n, {})[c + ":" + a.tier + ((":" + a.tag) if a.tag else "")] = dict(job=a.job, shard_filter=a.shard_filter, exit=rc, caught=(rc == 1), violations=[l for l in lines if l.startswith(("VIOLATION", "  query="))][:6],
                                                              not_covered=len([l for l in lines if l.startswith("NOT-COVERED")]), tool_errors=[l[:300] for l in lines if l.startswith("TOOL-ERROR")][:4],
                                                              summary=summary, wall_s=round(time.time() - t0))
            print(n, c, "exit", rc, "CAUGHT" if rc == 1 else "missed", summary)
            if os.path.exists(bak): shutil.move(bak, evf)
            json.dump(results, open(resf, "w"), indent=1)
    finally:
        subprocess.run(["git", "-C", REPO, "checkout", "--", "."], check=True)
json.dump(results, open(resf, "w"), indent=1)
