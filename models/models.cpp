// Models of the few libstdc++.so entry points reachable from the verified units.
#include <set>
#include <string>
#include <cstddef>
extern "C" void v_throw_std(int kind);
namespace std {
typedef _Rb_tree_node_base* NB;
static NB rb_min(NB x){ while (x->_M_left) x = x->_M_left; return x; }
static NB rb_max(NB x){ while (x->_M_right) x = x->_M_right; return x; }
static NB rb_inc(NB x) {
  if (x->_M_right) { x = x->_M_right; while (x->_M_left) x = x->_M_left; }
  else { NB y = x->_M_parent; while (x == y->_M_right) { x = y; y = y->_M_parent; } if (x->_M_right != y) x = y; }
  return x;
}
static NB rb_dec(NB x) {
  if (x->_M_color == _S_red && x->_M_parent->_M_parent == x) x = x->_M_right;
  else if (x->_M_left) { NB y = x->_M_left; while (y->_M_right) y = y->_M_right; x = y; }
  else { NB y = x->_M_parent; while (x == y->_M_left) { x = y; y = y->_M_parent; } x = y; }
  return x;
}
_Rb_tree_node_base* _Rb_tree_increment(_Rb_tree_node_base* x) throw() { return rb_inc(x); }
const _Rb_tree_node_base* _Rb_tree_increment(const _Rb_tree_node_base* x) throw() { return rb_inc(const_cast<NB>(x)); }
_Rb_tree_node_base* _Rb_tree_decrement(_Rb_tree_node_base* x) throw() { return rb_dec(x); }
const _Rb_tree_node_base* _Rb_tree_decrement(const _Rb_tree_node_base* x) throw() { return rb_dec(const_cast<NB>(x)); }
// unbalanced BST: ordering semantics identical, no rotations (all real nodes black, header stays red)
void _Rb_tree_insert_and_rebalance(const bool insert_left, _Rb_tree_node_base* x, _Rb_tree_node_base* p, _Rb_tree_node_base& header) throw() {
  x->_M_parent = p; x->_M_left = 0; x->_M_right = 0; x->_M_color = _S_black;
  if (insert_left) {
    p->_M_left = x;
    if (p == &header) { header._M_parent = x; header._M_right = x; }
    else if (p == header._M_left) header._M_left = x;
  } else {
    p->_M_right = x;
    if (p == header._M_right) header._M_right = x;
  }
}
_Rb_tree_node_base* _Rb_tree_rebalance_for_erase(_Rb_tree_node_base* const z, _Rb_tree_node_base& header) throw() {
  NB &root = header._M_parent; NB &leftmost = header._M_left; NB &rightmost = header._M_right;
  NB y = z; NB x = 0;
  if (!y->_M_left) x = y->_M_right; else if (!y->_M_right) x = y->_M_left;
  else { y = y->_M_right; while (y->_M_left) y = y->_M_left; x = y->_M_right; }
  if (y != z) {
    z->_M_left->_M_parent = y; y->_M_left = z->_M_left;
    if (y != z->_M_right) { if (x) x->_M_parent = y->_M_parent; y->_M_parent->_M_left = x; y->_M_right = z->_M_right; z->_M_right->_M_parent = y; }
    if (root == z) root = y; else if (z->_M_parent->_M_left == z) z->_M_parent->_M_left = y; else z->_M_parent->_M_right = y;
    y->_M_parent = z->_M_parent; y = z;
  } else {
    if (x) x->_M_parent = y->_M_parent;
    if (root == z) root = x; else if (z->_M_parent->_M_left == z) z->_M_parent->_M_left = x; else z->_M_parent->_M_right = x;
    if (leftmost == z) { if (!z->_M_right) leftmost = z->_M_parent; else leftmost = rb_min(x); }
    if (rightmost == z) { if (!z->_M_left) rightmost = z->_M_parent; else rightmost = rb_max(x); }
  }
  return y;
}
void __throw_length_error(const char*) { v_throw_std(1); __builtin_unreachable(); }
void __throw_bad_alloc() { v_throw_std(2); __builtin_unreachable(); }
void __throw_bad_array_new_length() { v_throw_std(3); __builtin_unreachable(); }
void __throw_out_of_range_fmt(const char*, ...) { v_throw_std(4); __builtin_unreachable(); }
void __throw_logic_error(const char*) { v_throw_std(5); __builtin_unreachable(); }
void __throw_bad_function_call() { v_throw_std(6); __builtin_unreachable(); }
}

// std::string: libstdc++ declares `extern template class basic_string<char>` (members live in libstdc++.so);
// this explicit instantiation definition gives every member an IR body compiled from the real libstdc++ headers.
template class std::__cxx11::basic_string<char>;
