// Memory-buffer model of the out-of-line libstdc++.so stream members the OVMB reader/writer call
// (IO/detail/BinaryIStream.cc, WriteBuffer.cc, BinaryFileWriter.cc):
//   std::istream::read(char*, streamsize), tellg(), seekg(off, dir), seekg(pos)
//   std::ostream::write(const char*, streamsize), flush()
// The `this` object is NOT a libstdc++ stream but the harness-owned VStream / VOStream of harness/vstream.h
// (symbolic build only; the native replay build uses real streams over a streambuf with the same behaviour).
// Behaviour modelled (as observable through these members, C++17 [istream.unformatted]/[ostream.unformatted]):
//   read: gcount() reports the number of bytes stored (the inline gcount() reads the 8 bytes after the vptr);
//         if the stream has failed nothing is stored; otherwise min(n, available) bytes are stored, and when that is
//         fewer than n the stream enters the failed state (eofbit|failbit) -- the rest of the destination is untouched;
//   tellg: current offset, or -1 once failed; seekg: no effect once failed, fails for targets outside [0,size];
//   write: appends; from offset fail_at (or the capacity) on nothing is stored and badbit is set; once bad, no effect.
// The symbols are defined through asm labels so that they replace the libstdc++ declarations at llvm-link time.
#include "vstream.h"
#include <ios>

enum { V_READ_MAX = 4096 };

extern "C++" {
std::istream &v_model_istream_read(VStream *vs, char *s, std::streamsize n) __asm__("_ZNSi4readEPcl");
std::streampos v_model_istream_tellg(VStream *vs) __asm__("_ZNSi5tellgEv");
std::istream &v_model_istream_seekg_off(VStream *vs, std::streamoff off, std::ios_base::seekdir dir) __asm__("_ZNSi5seekgElSt12_Ios_Seekdir");
std::istream &v_model_istream_seekg_pos(VStream *vs, std::streampos pos) __asm__("_ZNSi5seekgESt4fposI11__mbstate_tE");
std::ostream &v_model_ostream_write(std::ostream *self, const char *s, std::streamsize n) __asm__("_ZNSo5writeEPKcl");
std::ostream &v_model_ostream_flush(std::ostream *self) __asm__("_ZNSo5flushEv");
}

// (the parameter is declared as VStream*: the symbol is what matters at link time, and no access is typed through std::istream)
std::istream &v_model_istream_read(VStream *vs, char *s, std::streamsize n) {
  std::istream *self = reinterpret_cast<std::istream *>(vs);
  vs->gcount = 0;
  if (vs->failed || n <= 0) return *self;
  uint64_t lim = vs->size < vs->fail_at ? vs->size : vs->fail_at;
  uint64_t avail = vs->pos < lim ? lim - vs->pos : 0;
  uint64_t want = (uint64_t)n;
  uint64_t k = want < avail ? want : avail;
  const uint8_t *src = vs->data + vs->pos;
  for (uint64_t i = 0; i < k; ++i) s[i] = (char)src[i];
  vs->pos += k;
  vs->gcount = (int64_t)k;
  if (k < want) vs->failed = true;
  return *self;
}

std::streampos v_model_istream_tellg(VStream *vs) {
  if (vs->failed) return std::streampos(std::streamoff(-1));
  return std::streampos(std::streamoff(vs->pos));
}

static void v_seek(VStream *vs, int64_t target) {
  if (vs->failed) return;
  if (target < 0 || (uint64_t)target > vs->size) { vs->failed = true; return; }
  vs->pos = (uint64_t)target;
}

std::istream &v_model_istream_seekg_off(VStream *vs, std::streamoff off, std::ios_base::seekdir dir) {
  std::istream *self = reinterpret_cast<std::istream *>(vs);
  int64_t base = dir == std::ios_base::beg ? 0 : dir == std::ios_base::cur ? (int64_t)vs->pos : (int64_t)vs->size;
  v_seek(vs, base + (int64_t)off);
  return *self;
}

std::istream &v_model_istream_seekg_pos(VStream *vs, std::streampos pos) {
  std::istream *self = reinterpret_cast<std::istream *>(vs);
  v_seek(vs, (int64_t)std::streamoff(pos));
  return *self;
}

std::ostream &v_model_ostream_write(std::ostream *self, const char *s, std::streamsize n) {
  VOStream *vo = reinterpret_cast<VOStream *>(self);
  if (vo->ios_streambuf_state != 0 || n <= 0) return *self;
  uint64_t lim = vo->cap < vo->fail_at ? vo->cap : vo->fail_at;
  uint64_t room = vo->len < lim ? lim - vo->len : 0;
  uint64_t want = (uint64_t)n;
  uint64_t k = want < room ? want : room;
  uint8_t *dst = vo->out + vo->len;
  for (uint64_t i = 0; i < k; ++i) dst[i] = (uint8_t)s[i];
  vo->len += k;
  if (k < want) vo->ios_streambuf_state |= 1;   // badbit
  return *self;
}

std::ostream &v_model_ostream_flush(std::ostream *self) { return *self; }
