// C15: TetrahedralMeshTopologyKernel::collapse_edge(a->b) for every halfedge of a base mesh that satisfies the link condition
// (decided by a brute-force predicate below), in the four deletion modes.
//   shard params: 0 = base, 1 = deletion mode (bit0 deferred, bit1 fast), 2 = chunk of the halfedge range (C15_CPQ per query),
//                 4 = cases per query (0: C15_CPQ = 4), 3 = 1: "deep": param 2 is ONE halfedge; additionally run the vertex-order contracts (c15_order_checks.h) on the collapsed mesh
//   symbolic: the selector over the chunk's halfedges, the int cell-property values, and (param 3) the vertex / halfedge arguments
// Claim checked (property text): the live cells afterwards are exactly the former live cells that did not contain both a and b,
// with a replaced by b and the orientation (permutation parity of the vertex tuple) preserved; no degenerate cell; the returned
// handle designates b; shape invariants hold.  Vertices are tracked through an int vertex property ("tag" = original index), which
// the kernel moves together with the vertex in every deletion mode.
#include "c15_order_checks.h"

enum { C15_CPQ = 4, NV8 = 8 };
static inline int probe_below(int n) { unsigned x = v_nondet_u32(); v_assume(n > 0 ? x < (unsigned)n : x == 0); return (int)x; }

// ---- simplicial link condition Lk(a) n Lk(b) == Lk(ab) on the live complex, by brute force over the reference tables
static bool ADJ[NV8 * NV8];
static bool TRI[NV8 * NV8 * NV8];
static void build_adj() {
  // (globals start zeroed; exactly one case runs per path, so the tables are filled once)
  for (int e = 0; e < R_nE; ++e) if (!R_edel[e]) { int u = R_hefrom[2 * e], w = R_heto[2 * e]; ADJ[u * NV8 + w] = true; ADJ[w * NV8 + u] = true; }
  for (int f = 0; f < R_nF; ++f) if (!R_fdel[f]) {
    int x = r_hf_v(2 * f, 0), y = r_hf_v(2 * f, 1), z = r_hf_v(2 * f, 2);
    TRI[(x * NV8 + y) * NV8 + z] = true; TRI[(y * NV8 + z) * NV8 + x] = true; TRI[(z * NV8 + x) * NV8 + y] = true;
    TRI[(x * NV8 + z) * NV8 + y] = true; TRI[(z * NV8 + y) * NV8 + x] = true; TRI[(y * NV8 + x) * NV8 + z] = true;
  }
}
static inline bool adj(int u, int w) { return ADJ[u * NV8 + w]; }
static inline bool tri(int u, int v, int w) { return TRI[(u * NV8 + v) * NV8 + w]; }
static bool tet4(int p, int q, int u, int w) {
  bool r = false;
  for (int c = 0; c < R_nC; ++c) if (!R_cdel[c] && r_cell_has_v(c, p) && r_cell_has_v(c, q) && r_cell_has_v(c, u) && r_cell_has_v(c, w)) r = true;
  return r;
}
static bool link_condition(int a, int b) {
  bool ok = true;
  // vertices: every common neighbour of a and b spans a triangle with ab
  for (int w = 0; w < R_nV; ++w) if (w != a && w != b && adj(a, w) && adj(b, w) && !tri(a, b, w)) ok = false;
  // edges: every edge uw forming a triangle with a and with b spans a tet with ab
  for (int u = 0; u < R_nV; ++u) for (int w = u + 1; w < R_nV; ++w)
    if (u != a && u != b && w != a && w != b && tri(a, u, w) && tri(b, u, w) && !tet4(a, b, u, w)) ok = false;
  // triangles: no triangle uvw may form a tet with a and another with b (Lk(ab) of an edge in a 3-complex has no triangles)
  for (int c = 0; c < R_nC; ++c) for (int d = 0; d < R_nC; ++d)
    if (c != d && !R_cdel[c] && !R_cdel[d] && r_cell_has_v(c, a) && !r_cell_has_v(c, b) && r_cell_has_v(d, b) && !r_cell_has_v(d, a)) {
      int F = r_chf(c, 0), t[4]; r_tuple(c, F, 0, t);
      bool same = true;
      for (int k = 0; k < 4; ++k) if (t[k] != a && !r_cell_has_v(d, t[k])) same = false;
      if (same) ok = false;
    }
  return ok;
}

static __attribute__((noinline)) void collapse_case(unsigned I) {
  const unsigned base = v_param(0), mode = v_param(1), chunk = v_param(2), deep = v_param(3);
  const unsigned per = deep ? 1 : (v_param(4) ? v_param(4) : (unsigned)C15_CPQ);   // cases of this query (deep: one; param 2 is the halfedge itself)
  if (I >= per) return;
  TetMesh m;
  set_mode(m, mode);
  build_tets(m, base);
  VertexPropertyT<int> tag = m.request_vertex_property<int>("tag", -1);
  CellPropertyT<int> cval = m.request_cell_property<int>("cval", 0);
  Snap s0; take_snapshot(m, s0);
  check_shape(m, s0);
  if (!R_ok || s0.nV > NV8) return;
  const int he = (int)(chunk * per + I);
  if (he >= 2 * s0.nE) return;
  const int a = r_he_from(he), b = r_he_to(he);
  for (int v = 0; v < s0.nV; ++v) tag[VH(v)] = v;
  // former cells: tuple (a |-> b) of those that survive, symbolic property value for each
  int nExp = 0; int E[MAXC][4]; int X[MAXC];
  for (int c = 0; c < s0.nC; ++c) {
    int x = v_nondet_int(); cval[CH(c)] = x;
    if (s0.cdel[c] || (r_cell_has_v(c, a) && r_cell_has_v(c, b))) continue;
    int t[4]; r_tuple(c, r_chf(c, 0), 0, t);
    for (int k = 0; k < 4; ++k) E[nExp][k] = (t[k] == a) ? b : t[k];
#ifdef C15_MUTANT   // test of the test (tools/try_job.py --define C15_MUTANT): a wrongly oriented expectation must be refuted
    { int sw = E[nExp][0]; E[nExp][0] = E[nExp][1]; E[nExp][1] = sw; }
#endif
    X[nExp] = x; ++nExp;
  }
  build_adj();
  if (!link_condition(a, b)) { v_witness("C15 collapse: halfedge violates the link condition (skipped)"); return; }

  VH r = m.collapse_edge(HEH(he));

  Snap s1; take_snapshot(m, s1);
  check_shape(m, s1);                         // three edges per face, four faces per cell, four DISTINCT vertices per live cell (no degenerate cells)
  if (!R_ok) return;
  // returned handle designates b; a is gone
  v_assert(r.is_valid() && r.idx() < s1.nV, "C15 collapse_edge returns a valid vertex handle");
  if (r.is_valid() && r.idx() < s1.nV) {
    v_assert(!s1.vdel[r.idx()], "C15 collapse_edge returns a live vertex");
    v_assert(tag[r] == b, "C15 collapse_edge returns the handle that designates b (the to-vertex) afterwards");
  }
  for (int v = 0; v < s1.nV; ++v) if (!s1.vdel[v]) v_assert(tag[VH(v)] != a, "C15 after collapse_edge(a->b) the vertex a is gone");
  // resulting live cell set
  int nLive = 0;
  for (int c = 0; c < s1.nC; ++c) if (!s1.cdel[c]) ++nLive;
  v_assert(nLive == nExp, "C15 collapse_edge: number of live cells == number of former cells not containing both a and b");
  for (int i = 0; i < nExp; ++i) {
    int hits = 0; bool orient = true, prop = true;
    for (int c = 0; c < s1.nC; ++c) if (!s1.cdel[c]) {
      int t[4], q[4]; r_tuple(c, r_chf(c, 0), 0, t);
      for (int k = 0; k < 4; ++k) q[k] = (t[k] >= 0 && t[k] < s1.nV) ? tag[VH(t[k])] : -1;
      int par = perm_parity(E[i], q);
      if (par >= 0) { ++hits; if (par != 0) orient = false; if (cval[CH(c)] != X[i]) prop = false; }
    }
    v_assert(hits == 1, "C15 collapse_edge: every former cell not containing both a and b survives exactly once with a replaced by b (and nothing else survives)");
    v_assert(orient, "C15 collapse_edge preserves the orientation (permutation parity of the vertex tuple) of the surviving cells");
    v_assert(prop, "C15 collapse_edge: the cell property value follows the surviving cell");
  }
  if (deep) {
    const int tv = probe_below(s1.nV), the = probe_below(2 * s1.nE);
    for (int c = 0; c < s1.nC; ++c) if (r_live_tet(c)) {
      check_cell(m, c, tv);
      for (int k = 0; k < 4; ++k) { check_halfface(m, r_chf(c, k), tv, the); check_halfface(m, r_chf(c, k) ^ 1, tv, the); }
    }
  }
  v_witness("C15 collapse: collapsed and checked");
}
template <unsigned I> struct CollapseCase { static __attribute__((noinline)) void run() { collapse_case(I); } };

extern "C" void harness_c15_collapse() {
  unsigned sel = v_nondet_u32();
  v_assume(sel < C15_CPQ);
  dispatch<CollapseCase, C15_CPQ>(sel);
}
