// C05 shared pieces: extra mini base, deferred-deletion case decoding, dispatch trampolines.
#pragma once
#include "mesh_common.h"

enum { C05_B_MINI = 20 };   // 2 vertices + 1 edge: the only base on which <= 2 deletions can delete ALL vertices
enum C05Kind { K_NONE = 0, K_V = 1, K_E = 2, K_F = 3, K_C = 4 };
enum { C05_PER = 8 };       // cases per query

static void c05_build(TopologyKernel &m, unsigned base) {
  m.enable_deferred_deletion(true);
  m.enable_fast_deletion(false);
  if (base == C05_B_MINI) { m.add_n_vertices(2); m.add_edge(VH(0), VH(1)); }
  else build_base(m, base);
}
static inline unsigned c05_count(const TopologyKernel &m, unsigned kind) {
  switch (kind) {
  case K_V: return (unsigned)m.n_vertices();
  case K_E: return (unsigned)m.n_edges();
  case K_F: return (unsigned)m.n_faces();
  case K_C: return (unsigned)m.n_cells();
  default: return 0;
  }
}
static void c05_delete(TopologyKernel &m, unsigned kind, unsigned a) {
  switch (kind) {
  case K_V: if (!m.is_deleted(VH((int)a))) m.delete_vertex(VH((int)a)); break;
  case K_E: if (!m.is_deleted(EH((int)a))) m.delete_edge(EH((int)a)); break;
  case K_F: if (!m.is_deleted(FH((int)a))) m.delete_face(FH((int)a)); break;
  case K_C: if (!m.is_deleted(CH((int)a))) m.delete_cell(CH((int)a)); break;
  default: break;
  }
}
// entity counts of the bases (so that out-of-range selector values return before building anything);
// checked against the built mesh by c05_counts_ok().
static inline unsigned c05_base_count(unsigned base, unsigned kind) {
  static const unsigned char T[14][4] = { {0,0,0,0}, {5,5,1,0}, {4,6,4,1}, {5,9,7,2}, {6,11,8,2}, {7,12,8,2}, {5,10,9,3}, {8,12,6,1}, {12,20,11,2}, {7,13,9,2}, {4,5,2,0}, {6,12,10,3}, {6,13,11,3}, {4,6,4,1} };
  if (kind < K_V || kind > K_C) return 0;
  if (base == C05_B_MINI) return kind == K_V ? 2 : (kind == K_E ? 1 : 0);
  return base < 14 ? T[base][kind - 1] : 0;
}
static inline bool c05_counts_ok(const TopologyKernel &m, unsigned base) {
  return c05_count(m, K_V) == c05_base_count(base, K_V) && c05_count(m, K_E) == c05_base_count(base, K_E) &&
         c05_count(m, K_F) == c05_base_count(base, K_F) && c05_count(m, K_C) == c05_base_count(base, K_C);
}
// idx -> unordered pair a <= b over n entities (a == b: a single deletion).  false: idx out of range.
static bool c05_pair(unsigned n, unsigned idx, unsigned &a, unsigned &b) {
  unsigned c = 0;
  for (unsigned i = 0; i < n; ++i)
    for (unsigned j = i; j < n; ++j) { if (c == idx) { a = i; b = j; return true; } ++c; }
  return false;
}
