// scratch probe (development only)
#include "verif.h"
#include <set>
struct Base { virtual ~Base() {} virtual int f() = 0; virtual int g() = 0; int pad[4]; };
struct D1 : Base { int f() override { return 1; } int g() override { int s = 0; for (int i = 0; i < 1000; ++i) s += i; return s; } };
struct Holder { virtual ~Holder() {} virtual int n() { return 7; } virtual int slow() { int s = 0; for (int i = 0; i < 1000; ++i) s += i; return s; } std::set<Base*> tracked; };
static __attribute__((noinline)) int call_n(Holder *h) { return h->n(); }
extern "C" void harness_q0() {
  Holder h;
  Base *a = new D1; Base *b = new D1;
  h.tracked.insert(a);
  h.tracked.insert(b);
  V_ASSERT(h.tracked.size() == 2);
  V_ASSERT(call_n(&h) == 7);
  int s = 0;
  for (Base *p : h.tracked) s += p->f();
  V_ASSERT(s == 2);
  v_witness("q0");
}
