// C15: TetTopology / TriangleTopology (Unstable/Topology) label consistency against a brute-force reference built from the
// stored halfface definitions and from the label NAMES (independent tables below).
//   shard params: 0 = base, 1 = cell index, 2 = constructor kind (see K_*), 3 = 0: all halffaces abc of the cell / k+1: only the k-th
//   enumerated (constant): the halfface abc of the cell (and, for K_CH_A, the vertex a)
//   free symbolic: the vertex a inside abc (K_CH_ABC_A, K_ABC_A), the halfedge label (12), the halfface label (32), the probe
//   vertex / halfedge / halfface passed to get_label, the start vertex of TriangleTopology(mesh,hfh,a)
#include "c15_common.h"
#include <OpenVolumeMesh/Unstable/Topology/TetTopology.hh>
#include <OpenVolumeMesh/Unstable/Topology/TriangleTopology.hh>

typedef TetTopology TT;
static inline int probe_below(int n) { unsigned x = v_nondet_u32(); v_assume(n > 0 ? x < (unsigned)n : x == 0); return (int)x; }

// ---- independent tables: every entry is generated from the label's NAME (token pasting), the meaning is the one the class
// documentation gives to the names: "ABC is an interior half-face (CCW from inside) with D as its opposite vertex"; XY is the halfedge from X to Y
#define C15_HEL(X) X(A, B) X(B, C) X(C, A) X(C, D) X(A, D) X(B, D) X(B, A) X(C, B) X(A, C) X(D, C) X(D, A) X(D, B)
// (x,y,z | w): all 24 ordered triples, w = the letter that is missing
#define C15_HFL(X) \
  X(B, D, C, A) X(C, B, D, A) X(D, C, B, A) X(A, C, D, B) X(C, D, A, B) X(D, A, C, B) X(A, D, B, C) X(B, A, D, C) X(D, B, A, C) X(A, B, C, D) X(B, C, A, D) X(C, A, B, D) \
  X(B, C, D, A) X(C, D, B, A) X(D, B, C, A) X(A, D, C, B) X(C, A, D, B) X(D, C, A, B) X(A, B, D, C) X(B, D, A, C) X(D, A, B, C) X(A, C, B, D) X(B, A, C, D) X(C, B, A, D)
#define C15_NOSTART(X) X(A) X(B) X(C) X(D)

struct HelRow { int label, from, to; };
struct HflRow { int label, x, y, z, w, opp_in, opp_out; };
#define ROW_HEL(p, q) { TT::p##q, TT::p, TT::q },
#define ROW_HFL(x, y, z, w) { TT::x##y##z, TT::x, TT::y, TT::z, TT::w, TT::Opp##w, TT::OuterOpp##w },
static const HelRow HEL_TAB[12] = { C15_HEL(ROW_HEL) };
static const HflRow HFL_TAB[24] = { C15_HFL(ROW_HFL) };

// ---- accessors by run-time label (the class only offers templates): a switch over the names
static VH tt_vh(const TT &t, int l) { switch (l) { case TT::A: return t.vh<TT::A>(); case TT::B: return t.vh<TT::B>(); case TT::C: return t.vh<TT::C>(); case TT::D: return t.vh<TT::D>(); default: return VH(); } }
#define CASE_HEL(p, q) case TT::p##q: return t.heh<TT::p##q>();
static HEH tt_heh(const TT &t, int l) { switch (l) { C15_HEL(CASE_HEL) default: return HEH(); } }
#define CASE_HFL(x, y, z, w) case TT::x##y##z: return t.hfh<TT::x##y##z>();
#define CASE_NOSTART(w) case TT::Opp##w: return t.hfh<TT::Opp##w>(); case TT::OuterOpp##w: return t.hfh<TT::OuterOpp##w>();
static HFH tt_hfh(const TT &t, int l) { switch (l) { C15_HFL(CASE_HFL) C15_NOSTART(CASE_NOSTART) default: return HFH(); } }

// ---- compile-time label algebra of TetTopology.hh against the names (folded by the compiler; listed as assertions so that a wrong
// table entry is a reported violation, not a build failure)
static void check_static_tables() {
#define ST_HEL(p, q) \
  v_assert(TT::hel<TT::p, TT::q>() == TT::p##q, "C15 hel<From,To>() is the label named FromTo"); \
  v_assert(TT::hel_from<TT::p##q>() == TT::p && TT::hel_to<TT::p##q>() == TT::q, "C15 hel_from/hel_to agree with the label name"); \
  v_assert(TT::opposite(TT::p##q) == TT::q##p, "C15 opposite(halfedge label XY) == YX"); \
  v_assert(TT::is_forward(TT::p##q) == (TT::p##q < 8), "C15 is_forward <=> index into the stored halfedges");
  C15_HEL(ST_HEL)
#define ST_HFL(x, y, z, w) \
  v_assert((TT::hfl_vl<TT::x##y##z, 0>() == TT::x) && (TT::hfl_vl<TT::x##y##z, 1>() == TT::y) && (TT::hfl_vl<TT::x##y##z, 2>() == TT::z), "C15 hfl_vl<XYZ,i> is the i-th letter of the name"); \
  v_assert((TT::hfl_hel<TT::x##y##z, 0>() == TT::x##y) && (TT::hfl_hel<TT::x##y##z, 1>() == TT::y##z) && (TT::hfl_hel<TT::x##y##z, 2>() == TT::z##x), "C15 hfl_hel<XYZ,i> joins letters i and i+1"); \
  v_assert(TT::has_start(TT::x##y##z), "C15 has_start(XYZ)"); \
  v_assert(TT::opposite(TT::x##y##z) == TT::x##z##y, "C15 opposite(halfface label XYZ) == XZY (opposite halfface, same start)"); \
  v_assert(TT::inner(TT::x##y##z) == TT::x##y##z || TT::inner(TT::x##y##z) == TT::x##z##y, "C15 inner(XYZ) is XYZ or XZY"); \
  v_assert(TT::outer(TT::x##y##z) == TT::x##y##z || TT::outer(TT::x##y##z) == TT::x##z##y, "C15 outer(XYZ) is XYZ or XZY"); \
  v_assert(TT::is_inner(TT::inner(TT::x##y##z)) && !TT::is_inner(TT::outer(TT::x##y##z)), "C15 inner()/outer() land on inner/outer labels");
  C15_HFL(ST_HFL)
#define ST_NS(w) \
  v_assert(!TT::has_start(TT::Opp##w) && !TT::has_start(TT::OuterOpp##w), "C15 OppX / OuterOppX have no start vertex"); \
  v_assert(TT::opposite(TT::Opp##w) == TT::OuterOpp##w && TT::is_inner(TT::Opp##w) && !TT::is_inner(TT::OuterOpp##w), "C15 opposite(OppX) == OuterOppX");
  C15_NOSTART(ST_NS)
}

enum { K_CH_ABC_A = 0, K_CH_ABC = 1, K_ABC_A = 2, K_ABC = 3, K_CH_A = 4, K_CH = 5, N_KINDS = 6 };

// all label-consistency checks for one constructed TetTopology of cell c
static void check_tt(const TetMesh &m, const Snap &s, const TT &t, int c, int abc /* -1: any halfface of c */, int a /* -1: any */) {
  const int va = t.a().idx(), vb = t.b().idx(), vc = t.c().idx(), vd = t.d().idx();
  int vv[4] = { va, vb, vc, vd };
  // vertices: four distinct vertices of the cell; abc / a as requested; (a,b,c) is abc's cyclic order; d the apex
  v_assert(va != vb && va != vc && va != vd && vb != vc && vb != vd && vc != vd, "C15 TetTopology: a,b,c,d are four distinct vertices");
  v_assert(va >= 0 && vb >= 0 && vc >= 0 && vd >= 0 && va < s.nV && vb < s.nV && vc < s.nV && vd < s.nV, "C15 TetTopology: vertex labels are valid handles");
  if (!(va >= 0 && vb >= 0 && vc >= 0 && vd >= 0 && va < s.nV && vb < s.nV && vc < s.nV && vd < s.nV)) return;
  v_assert(r_cell_has_v(c, va) && r_cell_has_v(c, vb) && r_cell_has_v(c, vc) && r_cell_has_v(c, vd), "C15 TetTopology: a,b,c,d are the cell's vertices");
  if (a >= 0) v_assert(va == a, "C15 TetTopology: a is the requested vertex");
  const int habc = t.abc().idx();
  if (abc >= 0) v_assert(habc == abc, "C15 TetTopology: abc is the requested halfface");
  v_assert(r_cell_has_hf(c, habc), "C15 TetTopology: abc is a halfface of the cell");
  v_assert(habc >= 0 && r_cell_hf_with_cycle(c, va, vb, vc) == habc, "C15 TetTopology: a,b,c are abc's vertices in its cyclic order");
  if (habc >= 0 && habc < 2 * s.nF) v_assert(r_apex(c, habc) == vd, "C15 TetTopology: d is the vertex opposite abc");

  // ---- symbolic halfedge label (one of the 12 names)
  { const int i = probe_below(12);
    const HelRow row = HEL_TAB[i];
    const int he = tt_heh(t, row.label).idx();
    v_assert(he >= 0 && he < 2 * s.nE, "C15 TetTopology: labelled halfedge is a valid handle");
    if (he >= 0 && he < 2 * s.nE) {
      v_assert(r_he_from(he) == vv[row.from] && r_he_to(he) == vv[row.to], "C15 TetTopology: halfedge XY goes from vertex X to vertex Y");
      v_assert(r_cell_lists_he(c, he), "C15 TetTopology: labelled halfedge is a halfedge of one of the cell's halffaces");
      std::optional<TT::HalfEdgeLabel> l = t.get_label(HEH(he));
      v_assert(l.has_value() && (int)*l == row.label, "C15 TetTopology: get_label(heh<L>()) == L");
    } }
  // ---- symbolic halfface label with start (one of the 24 names)
  { const int i = probe_below(24);
    const HflRow row = HFL_TAB[i];
    const int H = tt_hfh(t, row.label).idx();
    const int x = vv[row.x], y = vv[row.y], z = vv[row.z];
    const int G = r_cell_hf_with_cycle(c, x, y, z), Gr = r_cell_hf_with_cycle(c, x, z, y);
    v_assert((G >= 0) != (Gr >= 0), "C15 (reference) a tet has the halfface on three of its vertices in exactly one of the two rotations");
    v_assert(H == (G >= 0 ? G : (Gr ^ 1)), "C15 TetTopology: halfface XYZ is the cell's (inner label) or the opposite (outer label) halfface on X,Y,Z in that rotation");
    v_assert(TT::is_inner((TT::HalfFaceLabel)row.label) == (G >= 0), "C15 TetTopology: a label is inner exactly if the cell itself has the halfface in that rotation");
    // start-less labels of the same face
    const int Hin = tt_hfh(t, row.opp_in).idx(), Hout = tt_hfh(t, row.opp_out).idx();
    v_assert(Hin == (G >= 0 ? G : Gr) && Hout == (Hin ^ 1), "C15 TetTopology: OppW is the cell's halfface not containing W, OuterOppW its opposite");
    if (H >= 0 && H < 2 * s.nF) {
      std::optional<TT::HalfFaceLabel> l0 = t.get_label(HFH(H));
      v_assert(l0.has_value() && (int)*l0 == (G >= 0 ? row.opp_in : row.opp_out), "C15 TetTopology: get_label(hfh<L>()) is L's face label without start");
      std::optional<TT::HalfFaceLabel> l1 = t.get_label(HFH(H), VH(x));
      v_assert(l1.has_value() && (int)*l1 == row.label, "C15 TetTopology: get_label(hfh<XYZ>(), vh<X>()) == XYZ");
      // TriangleTopology for this label: a=X b=Y c=Z and ab, bc, ca are the halfedges of the labelled halfface in that order
      TriangleTopology tri = t.triangle_topology((TT::HalfFaceLabel)row.label);
      v_assert(tri.a().idx() == x && tri.b().idx() == y && tri.c().idx() == z, "C15 triangle_topology(XYZ): a=X, b=Y, c=Z");
      const int p = r_hf_pos(H, x);
      if (p >= 0) v_assert(tri.ab().idx() == r_hf_he(H, p) && tri.bc().idx() == r_hf_he(H, (p + 1) % 3) && tri.ca().idx() == r_hf_he(H, (p + 2) % 3),
                           "C15 triangle_topology(XYZ): ab, bc, ca are the labelled halfface's halfedges starting at X");
      // and it equals the directly constructed one (operator== compares vertices and halfedges)
      TriangleTopology dir(m, HFH(H), VH(x));
      v_assert(tri == dir, "C15 triangle_topology(XYZ) == TriangleTopology(mesh, hfh<XYZ>(), vh<X>())");
    } }
  // ---- get_label on free probes: whatever label comes back must designate the probe (inversion), and entities of the tet get one
  { const int pv = probe_below(s.nV);
    std::optional<TT::VertexLabel> l = t.get_label(VH(pv));
    const bool in = pv == va || pv == vb || pv == vc || pv == vd;
    v_assert(l.has_value() == in, "C15 TetTopology: get_label(vh) has a value exactly for a,b,c,d");
    if (l.has_value()) v_assert(tt_vh(t, (int)*l).idx() == pv, "C15 TetTopology: vh<get_label(v)>() == v"); }
  { const int ph = probe_below(2 * s.nE);
    std::optional<TT::HalfEdgeLabel> l = t.get_label(HEH(ph));
    if (l.has_value()) v_assert(tt_heh(t, (int)*l).idx() == ph, "C15 TetTopology: heh<get_label(he)>() == he"); }
  { const int pf = probe_below(2 * s.nF), pv = probe_below(s.nV);
    std::optional<TT::HalfFaceLabel> l = t.get_label(HFH(pf));
    if (l.has_value()) v_assert(tt_hfh(t, (int)*l).idx() == pf, "C15 TetTopology: hfh<get_label(hf)>() == hf");
    std::optional<TT::HalfFaceLabel> l2 = t.get_label(HFH(pf), VH(pv));
    if (l2.has_value()) {
      v_assert(tt_hfh(t, (int)*l2).idx() == pf, "C15 TetTopology: hfh<get_label(hf,first)>() == hf");
      bool found = false;
      for (int k = 0; k < 24; ++k) if (HFL_TAB[k].label == (int)*l2) { found = true; v_assert(vv[HFL_TAB[k].x] == pv, "C15 TetTopology: the label returned by get_label(hf,first) starts at first"); }
      v_assert(found, "C15 TetTopology: get_label(hf,first) returns a label with start");
    } }
}

static void run_labels() {
  TetMesh m;
  build_tets(m, v_param(0));
  const int c = (int)v_param(1);
  const unsigned kind = v_param(2);
  Snap s; take_snapshot(m, s);
  check_shape(m, s);
  if (!R_ok || !r_live_tet(c)) return;
  check_static_tables();
  const unsigned only = v_param(3);            // 0: all four halffaces abc of the cell; 1..4: only the (only-1)-th
  for (int k = 0; k < 4; ++k) {
    if (only && (unsigned)k != only - 1) continue;
    const int abc = r_chf(c, k);
    switch (kind) {
    case K_CH_ABC_A: { int p = probe_below(3); int a = r_hf_v(abc, p); TT t(m, CH(c), HFH(abc), VH(a)); check_tt(m, s, t, c, abc, a); break; }
    case K_CH_ABC: { TT t(m, CH(c), HFH(abc)); check_tt(m, s, t, c, abc, -1); break; }
    case K_ABC_A: { int p = probe_below(3); int a = r_hf_v(abc, p); TT t(m, HFH(abc), VH(a)); check_tt(m, s, t, c, abc, a); break; }
    case K_ABC: { TT t(m, HFH(abc)); check_tt(m, s, t, c, abc, -1); break; }
    case K_CH_A: { int a = r_apex(c, abc); TT t(m, CH(c), VH(a)); check_tt(m, s, t, c, -1, a); break; }   // k-th vertex of the cell = apex of its k-th halfface
    case K_CH: { if (k == 0 || only) { TT t(m, CH(c)); check_tt(m, s, t, c, -1, -1); } break; }
    default: break;
    }
    // TriangleTopology's own constructors on this halfface and on its opposite (a boundary / neighbour halfface)
    if (kind == K_CH) for (int side = 0; side < 2; ++side) {
      const int h = abc ^ side;
      TriangleTopology t0(m, HFH(h));
      v_assert(t0.a().idx() == r_hf_v(h, 0) && t0.b().idx() == r_hf_v(h, 1) && t0.c().idx() == r_hf_v(h, 2), "C15 TriangleTopology(mesh,hfh): a,b,c are hfh's vertices in stored order");
      v_assert(t0.ab().idx() == r_hf_he(h, 0) && t0.bc().idx() == r_hf_he(h, 1) && t0.ca().idx() == r_hf_he(h, 2), "C15 TriangleTopology(mesh,hfh): ab,bc,ca are hfh's halfedges in stored order");
      const int p = probe_below(3);
      TriangleTopology t1(m, HFH(h), VH(r_hf_v(h, p)));
      v_assert(t1.a().idx() == r_hf_v(h, p) && t1.b().idx() == r_hf_v(h, (p + 1) % 3) && t1.c().idx() == r_hf_v(h, (p + 2) % 3), "C15 TriangleTopology(mesh,hfh,a): a,b,c are hfh's cyclic order from a");
      v_assert(t1.ab().idx() == r_hf_he(h, p) && t1.bc().idx() == r_hf_he(h, (p + 1) % 3) && t1.ca().idx() == r_hf_he(h, (p + 2) % 3), "C15 TriangleTopology(mesh,hfh,a): ab goes from a to b and lies on hfh, then bc, ca");
      v_assert(r_he_from(t1.ab().idx() < 0 ? 0 : t1.ab().idx()) == t1.a().idx() && r_he_to(t1.ab().idx() < 0 ? 0 : t1.ab().idx()) == t1.b().idx(), "C15 TriangleTopology: ab joins a and b");
    }
  }
  v_witness("C15 labels end");
}

extern "C" void harness_c15_labels() { run_labels(); }
