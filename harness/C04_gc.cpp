// C04: StatusAttrib::garbage_collection (both overloads) removes exactly the closure of the status-marked entities (plus, with
// the manifoldness flag, the faces/edges/vertices bounding no cell), leaves no pending deletion, and remaps tracked handles to
// the same entity or invalid.  (collect_garbage / leaving deferred mode vs. the reference renumbering: C02 job c02-k2; property
// values through garbage collection: C03.)  Also: deferred deletions + collect_garbage == the same deletions done immediately,
// up to renumbering (two real meshes compared through tag properties).
// shard params: 0 base, 1 mode (bit1 fast; bit0: deferred flag of the mesh before the call; bits 2..4: bottom-up kinds switched off after building), 2 kind of the selector-marked entity (0..3),
// 3 chunk, 4 second marked entity kind+1 (0: none), 5 its index, 6 manifoldness flag, 7 tracked overload (0: plain, 1: with handle tracking).
#include "ops.h"
#include "refmodel.h"
#include <OpenVolumeMesh/Attribs/StatusAttrib.hh>
#ifndef NCASES
#define NCASES 4
#endif

static int kind_count(const Snap &s, int k) { return k == K_V ? s.nV : k == K_E ? s.nE : k == K_F ? s.nF : s.nC; }
static bool kind_deleted(const Snap &s, int k, int i) { return k == K_V ? s.vdel[i] : k == K_E ? s.edel[i] : k == K_F ? s.fdel[i] : s.cdel[i]; }
static void mark(StatusAttrib &st, int k, int i) {
  if (k == K_V) st[VH(i)].set_deleted(true); else if (k == K_E) st[EH(i)].set_deleted(true); else if (k == K_F) st[FH(i)].set_deleted(true); else st[CH(i)].set_deleted(true);
}
// position of original entity t in the reference (constant bound: t may be symbolic), -1 if removed
static int find_id(const int *ids, int n, int maxn, int t) { int r = -1; for (int j = 0; j < maxn; ++j) if (j < n && ids[j] == t) r = j; return r; }

static __attribute__((noinline)) void do_case(unsigned i) {
  unsigned base = v_param(0), mode = v_param(1) & 3, bu_off = (v_param(1) >> 2) & 7, kind1 = v_param(2), chunk = v_param(3), kind2p = v_param(4), idx2 = v_param(5), manifold = v_param(6), tracked = v_param(7);
  TopologyKernel m;
  set_mode(m, mode);
  build_base(m, base);
  if (bu_off) apply_op(m, OP_BU_OFF, bu_off, 0);
  StatusAttrib st(m);
  Snap before; take_snapshot(m, before);
  if (before.overflow) return;
  int idx1 = (int)(chunk * NCASES + i);
  if (idx1 >= kind_count(before, (int)kind1)) { v_witness("C04 case outside the entity range"); return; }
  mark(st, (int)kind1, idx1);
  if (kind2p != 0) { if ((int)idx2 >= kind_count(before, (int)kind2p - 1)) { v_witness("C04 second mark outside the entity range"); return; } mark(st, (int)kind2p - 1, (int)idx2); }
  // tracked handles: arbitrary (symbolic) live-or-not handles of each kind, or invalid
  VH tv; HEH the; HFH thf; CH tc;
  std::vector<VH*> vv; std::vector<HEH*> vhe; std::vector<HFH*> vhf; std::vector<CH*> vc;
  int t_v = -1, t_he = -1, t_hf = -1, t_c = -1;
  if (tracked) {
    if (before.nV > 0) { t_v = (int)v_nondet_below((unsigned)before.nV); tv = VH(t_v); }
    if (before.nE > 0) { t_he = (int)v_nondet_below((unsigned)(2 * before.nE)); the = HEH(t_he); }
    if (before.nF > 0) { t_hf = (int)v_nondet_below((unsigned)(2 * before.nF)); thf = HFH(t_hf); }
    if (before.nC > 0) { t_c = (int)v_nondet_below((unsigned)before.nC); tc = CH(t_c); }
    vv.push_back(&tv); vhe.push_back(&the); vhf.push_back(&thf); vc.push_back(&tc);
    st.garbage_collection(vv, vhe, vhf, vc, manifold != 0);
  } else {
    st.garbage_collection(manifold != 0);
  }
  // ---- reference: closure of the marked entities (vertices, edges, faces, cells in this order), optional manifold pass, then physical removal
  Snap ref = before;
  for (int k = 0; k < 4; ++k) {
    if ((int)kind1 == k && !kind_deleted(ref, k, idx1)) ref_delete(ref, k, idx1, 1);
    if (kind2p != 0 && (int)kind2p - 1 == k && !kind_deleted(ref, k, (int)idx2)) ref_delete(ref, k, (int)idx2, 1);
  }
  if (manifold) {
    for (int f = 0; f < ref.nF; ++f) if (!ref.fdel[f] && snap_incident_cell(ref, 2 * f) == -1 && snap_incident_cell(ref, 2 * f + 1) == -1) ref.fdel[f] = true;
    for (int e = 0; e < ref.nE; ++e) { if (ref.edel[e]) continue; bool used = false; for (int f = 0; f < ref.nF; ++f) if (!ref.fdel[f] && snap_face_has_edge(ref, f, e)) used = true; if (!used) ref.edel[e] = true; }
    for (int v = 0; v < ref.nV; ++v) { if (ref.vdel[v]) continue; bool used = false; for (int e = 0; e < ref.nE; ++e) if (!ref.edel[e] && (ref.efrom[e] == v || ref.eto[e] == v)) used = true; if (!used) ref.vdel[v] = true; }
  }
  ref_collect_garbage(ref, (mode & 2) != 0);
  Snap after; take_snapshot(m, after);
  assert_snap_matches(after, ref, "C04 exactly the closure of the marked entities (and, with the flag, the cell-less faces/edges/vertices) is removed", "C04 no vertex is left flagged",
                      "C04 surviving edges keep their definitions", "C04 surviving faces keep their definitions", "C04 surviving cells keep their definitions");
  v_assert(!m.needs_garbage_collection(), "C04 no pending deletions after garbage collection");
  v_assert(m.n_logical_vertices() == m.n_vertices() && m.n_logical_edges() == m.n_edges() && m.n_logical_faces() == m.n_faces() && m.n_logical_cells() == m.n_cells(), "C04 n_* == n_logical_* after garbage collection");
  v_assert(m.deferred_deletion_enabled() == ((mode & 1) != 0), "C04 the deletion mode is restored");
  if (tracked) {
    if (t_v >= 0) v_assert(tv.idx() == find_id(ref.vid, ref.nV, MAXV, t_v), "C04 tracked vertex handle designates the same vertex or is invalid");
    if (t_he >= 0) { int p = find_id(ref.eid, ref.nE, MAXE, t_he >> 1); v_assert(the.idx() == (p < 0 ? -1 : 2 * p + (t_he & 1)), "C04 tracked halfedge handle designates the same halfedge or is invalid"); }
    if (t_hf >= 0) { int p = find_id(ref.fid, ref.nF, MAXF, t_hf >> 1); v_assert(thf.idx() == (p < 0 ? -1 : 2 * p + (t_hf & 1)), "C04 tracked halfface handle designates the same halfface or is invalid"); }
    if (t_c >= 0) v_assert(tc.idx() == find_id(ref.cid, ref.nC, MAXC, t_c), "C04 tracked cell handle designates the same cell or is invalid");
  }
  v_witness("C04 case end");
}

extern "C" void harness_c04_status() {
  unsigned sel = v_nondet_u32();
  v_assume(sel < NCASES);
  dispatch<CaseW, NCASES>(sel);
}

// ---- deferred deletions + collect_garbage == the same deletions performed immediately, up to renumbering ---------------------------
// params: 0 base, 1 fast flag of the deferred mesh (0/1), 2 kind of the first deleted entity (selector over its index), 3 chunk,
// 4 kind+1 of a second deleted entity (0: none), 5 its ORIGINAL index, 6 fast flag of the immediate mesh (0/1)
static int t1V[MAXV], t1E[MAXE], t1F[MAXF], t1C[MAXC], t2V[MAXV], t2E[MAXE], t2F[MAXF], t2C[MAXC];
template <unsigned I> struct ECase { static __attribute__((noinline)) void run(); };
static int find_tag(const int *tags, int n, int maxn, int t) { int r = -1; for (int j = 0; j < maxn; ++j) if (j < n && tags[j] == t) r = j; return r; }
static void del_by_kind(TopologyKernel &m, int k, int h) { if (k == K_V) m.delete_vertex(VH(h)); else if (k == K_E) m.delete_edge(EH(h)); else if (k == K_F) m.delete_face(FH(h)); else m.delete_cell(CH(h)); }
static bool is_del(const TopologyKernel &m, int k, int h) { return k == K_V ? m.is_deleted(VH(h)) : k == K_E ? m.is_deleted(EH(h)) : k == K_F ? m.is_deleted(FH(h)) : m.is_deleted(CH(h)); }
static void do_equiv_case(unsigned i) {
  unsigned base = v_param(0), fast1 = v_param(1), kind1 = v_param(2), chunk = v_param(3), kind2p = v_param(4), idx2 = v_param(5), fast2 = v_param(6);
  TopologyKernel m1, m2;
  set_mode(m1, 1 | (fast1 ? 2 : 0)); set_mode(m2, 0 | (fast2 ? 2 : 0));
  build_base(m1, base); build_base(m2, base);
  auto a1v = m1.request_vertex_property<int>("tag", -1); auto a1e = m1.request_edge_property<int>("tag", -1); auto a1f = m1.request_face_property<int>("tag", -1); auto a1c = m1.request_cell_property<int>("tag", -1);
  auto a2v = m2.request_vertex_property<int>("tag", -1); auto a2e = m2.request_edge_property<int>("tag", -1); auto a2f = m2.request_face_property<int>("tag", -1); auto a2c = m2.request_cell_property<int>("tag", -1);
  const int nV = (int)m1.n_vertices(), nE = (int)m1.n_edges(), nF = (int)m1.n_faces(), nC = (int)m1.n_cells();
  if (nV > MAXV || nE > MAXE || nF > MAXF || nC > MAXC) return;
  for (int k = 0; k < nV; ++k) { a1v[VH(k)] = k; a2v[VH(k)] = k; }
  for (int k = 0; k < nE; ++k) { a1e[EH(k)] = k; a2e[EH(k)] = k; }
  for (int k = 0; k < nF; ++k) { a1f[FH(k)] = k; a2f[FH(k)] = k; }
  for (int k = 0; k < nC; ++k) { a1c[CH(k)] = k; a2c[CH(k)] = k; }
  int cnt1 = kind1 == K_V ? nV : kind1 == K_E ? nE : kind1 == K_F ? nF : nC;
  int idx1 = (int)(chunk * NCASES + i);
  if (idx1 >= cnt1) { v_witness("C04 equiv case outside the entity range"); return; }
  del_by_kind(m1, (int)kind1, idx1); del_by_kind(m2, (int)kind1, idx1);
  if (kind2p != 0) {
    int k2 = (int)kind2p - 1;
    int cnt2 = k2 == K_V ? nV : k2 == K_E ? nE : k2 == K_F ? nF : nC;
    if ((int)idx2 < cnt2 && !is_del(m1, k2, (int)idx2)) {
      del_by_kind(m1, k2, (int)idx2);
      // the same entity in the renumbered immediate mesh: the one carrying the tag
      int h2 = -1;
      if (k2 == K_V) { for (int k = 0; k < (int)m2.n_vertices(); ++k) if (a2v[VH(k)] == (int)idx2) h2 = k; }
      else if (k2 == K_E) { for (int k = 0; k < (int)m2.n_edges(); ++k) if (a2e[EH(k)] == (int)idx2) h2 = k; }
      else if (k2 == K_F) { for (int k = 0; k < (int)m2.n_faces(); ++k) if (a2f[FH(k)] == (int)idx2) h2 = k; }
      else { for (int k = 0; k < (int)m2.n_cells(); ++k) if (a2c[CH(k)] == (int)idx2) h2 = k; }
      v_assert(h2 >= 0, "C04 an entity alive in the deferred mesh is alive in the immediate mesh");
      if (h2 < 0) return;
      del_by_kind(m2, k2, h2);
    }
  }
  m1.collect_garbage();
  Snap s1, s2; take_snapshot(m1, s1); take_snapshot(m2, s2);
  if (s1.overflow || s2.overflow) return;
  v_assert(!m1.needs_garbage_collection() && !m2.needs_garbage_collection(), "C04 no pending deletions on either side");
  v_assert(s1.nV == s2.nV && s1.nE == s2.nE && s1.nF == s2.nF && s1.nC == s2.nC, "C04 collect_garbage leaves as many entities as immediate deletion");
  if (!(s1.nV == s2.nV && s1.nE == s2.nE && s1.nF == s2.nF && s1.nC == s2.nC)) return;
  for (int k = 0; k < s1.nV; ++k) { t1V[k] = a1v[VH(k)]; t2V[k] = a2v[VH(k)]; }
  for (int k = 0; k < s1.nE; ++k) { t1E[k] = a1e[EH(k)]; t2E[k] = a2e[EH(k)]; }
  for (int k = 0; k < s1.nF; ++k) { t1F[k] = a1f[FH(k)]; t2F[k] = a2f[FH(k)]; }
  for (int k = 0; k < s1.nC; ++k) { t1C[k] = a1c[CH(k)]; t2C[k] = a2c[CH(k)]; }
  if (s1.nV > 0) { unsigned j = v_nondet_below((unsigned)s1.nV); v_assert(find_tag(t2V, s2.nV, MAXV, t1V[j]) >= 0, "C04 same surviving vertices"); }
  if (s1.nE > 0) {
    unsigned j = v_nondet_below((unsigned)s1.nE); int k = find_tag(t2E, s2.nE, MAXE, t1E[j]);
    v_assert(k >= 0, "C04 same surviving edges");
    if (k >= 0) v_assert(t1V[s1.efrom[j]] == t2V[s2.efrom[k]] && t1V[s1.eto[j]] == t2V[s2.eto[k]], "C04 surviving edge has the same definition up to renumbering");
  }
  if (s1.nF > 0) {
    unsigned j = v_nondet_below((unsigned)s1.nF), p = v_nondet_below(MAXFV); int k = find_tag(t2F, s2.nF, MAXF, t1F[j]);
    v_assert(k >= 0, "C04 same surviving faces");
    if (k >= 0) { v_assert(s1.fval[j] == s2.fval[k], "C04 surviving face has the same valence");
      if ((int)p < s1.fval[j] && s1.fval[j] == s2.fval[k]) v_assert(2 * t1E[s1.fhe[j][p] >> 1] + (s1.fhe[j][p] & 1) == 2 * t2E[s2.fhe[k][p] >> 1] + (s2.fhe[k][p] & 1), "C04 surviving face has the same halfedges up to renumbering"); }
  }
  if (s1.nC > 0) {
    unsigned j = v_nondet_below((unsigned)s1.nC), p = v_nondet_below(MAXCV); int k = find_tag(t2C, s2.nC, MAXC, t1C[j]);
    v_assert(k >= 0, "C04 same surviving cells");
    if (k >= 0) { v_assert(s1.cval[j] == s2.cval[k], "C04 surviving cell has the same valence");
      if ((int)p < s1.cval[j] && s1.cval[j] == s2.cval[k]) v_assert(2 * t1F[s1.chf[j][p] >> 1] + (s1.chf[j][p] & 1) == 2 * t2F[s2.chf[k][p] >> 1] + (s2.chf[k][p] & 1), "C04 surviving cell has the same halffaces up to renumbering"); }
  }
  v_witness("C04 equiv case end");
}
template <unsigned I> void ECase<I>::run() { do_equiv_case(I); v_witness("case returned"); }
extern "C" void harness_c04_equiv() {
  unsigned sel = v_nondet_u32();
  v_assume(sel < NCASES);
  dispatch<ECase, NCASES>(sel);
}
