// C18 unit-level companions: the validation done by the header read() functions of IO/detail/ovmb_codec.cc, in the
// "valid bytes + one corruption" form of the property: bytes produced by the real write() for SYMBOLIC VALID contents,
// then (a) one byte of a must-reject field replaced by a symbolic different value, or (b) cut to a strict prefix
// => read() must refuse (return false / parse_error).  Fields whose change is legal at this level are stated and shown
// to reach the decoded struct (so that the chunk reader can check them).
#include "verif.h"
#include <OpenVolumeMesh/IO/detail/Decoder.hh>
#include <OpenVolumeMesh/IO/detail/Encoder.hh>
#include <OpenVolumeMesh/IO/detail/WriteBuffer.hh>
#include <OpenVolumeMesh/IO/detail/ovmb_format.hh>
#include <OpenVolumeMesh/IO/detail/ovmb_codec.hh>
#include <OpenVolumeMesh/IO/detail/exceptions.hh>
#include <utility>
using namespace OpenVolumeMesh::IO::detail;
namespace OpenVolumeMesh::IO::detail { void read(Decoder &, ArraySpan &); void write(Encoder &, const ArraySpan &); }  // external linkage in ovmb_codec.cc

enum Outcome { OK = 0, PARSE_ERROR = 1, OTHER = 2 };
#define RUN(out, stmt) do { out = OK; try { stmt; } catch (const parse_error &) { out = PARSE_ERROR; } catch (...) { out = OTHER; } } while (0)
template <template <unsigned> class F, unsigned... Is>
static inline void dispatch_seq(unsigned sel, std::integer_sequence<unsigned, Is...>) { ((sel == Is ? (F<Is>::run(), 0) : 0), ...); }

static uint8_t g_b[48];   // the valid bytes (copied out of the WriteBuffer; plain global array)
static unsigned g_n;
static void grab(const WriteBuffer &wb) { std::vector<uint8_t> v = wb.vec(); g_n = (unsigned)v.size(); for (unsigned i = 0; i < 48; ++i) if (i < g_n) g_b[i] = v[i]; }
// decoder over the first `len` valid bytes with byte `off` replaced by `val` (off >= len: unchanged); exact allocation
static std::vector<uint8_t> corrupted(unsigned len, unsigned off, uint8_t val) {
  std::vector<uint8_t> v(g_b, g_b + len);
  if (off < len) v[off] = val;
  return v;
}

static FileHeader sym_file_header() {
  FileHeader h; h.file_version = v_nondet_u8(); h.header_version = 1; h.vertex_dim = v_nondet_u8();
  uint8_t tt = v_nondet_u8(); v_assume(tt <= 2); h.topo_type = (TopoType)tt;
  h.n_verts = v_nondet_u64(); h.n_edges = v_nondet_u64(); h.n_faces = v_nondet_u64(); h.n_cells = v_nondet_u64();
  return h;
}

// ---- FileHeader, substitution: magic (0..7), header_version (9), reserved (12..15): any different value must be refused;
//      topo_type (11): a value > 2 must be refused.  file_version (8), vertex_dim (10), counts (16..47) are legal to change
//      here (checked against the mesh type / the chunks by the reader): they must arrive in the decoded struct.
extern "C" void harness_file_header_substitution() {
  FileHeader h = sym_file_header();
  WriteBuffer wb; Encoder enc(wb); write(enc, h); grab(wb);
  V_ASSERT(g_n == 48);
  unsigned off = v_nondet_below(48); uint8_t val = v_nondet_u8(); v_assume(val != g_b[off]);
  Decoder dec(corrupted(48, off, val));
  FileHeader r; bool ok = true; int out;
  RUN(out, ok = read(dec, r));
  V_ASSERT(out != OTHER);
  bool must_reject = off <= 7 || off == 9 || (off >= 12 && off <= 15) || (off == 11 && val > 2);
  if (must_reject) { V_ASSERT(out == PARSE_ERROR || !ok); v_witness("file header: corrupted magic/header_version/reserved/topo_type refused"); return; }
  V_ASSERT(out == OK && ok);
  // the change is visible in exactly the decoded field
  if (off == 8) V_ASSERT(r.file_version == val && r.vertex_dim == h.vertex_dim);
  if (off == 10) V_ASSERT(r.vertex_dim == val && r.file_version == h.file_version);
  if (off == 11) V_ASSERT((uint8_t)r.topo_type == val);
  if (off >= 16) V_ASSERT(r.n_verts != h.n_verts || r.n_edges != h.n_edges || r.n_faces != h.n_faces || r.n_cells != h.n_cells);
  v_witness("file header: legal field changed, value reaches the reader");
}

// ---- FileHeader, truncation: every strict prefix of the 48 bytes is refused without reading (need)
template <unsigned I> struct CaseFHT { static __attribute__((noinline)) void run() {
  unsigned len = v_param(0) * 8 + I;
  Decoder dec(corrupted(len, 99, 0));
  FileHeader r; bool ok = true; int out;
  RUN(out, ok = read(dec, r));
  V_ASSERT(out == PARSE_ERROR && dec.pos() == 0);
  v_witness("file header: strict prefix refused");
} };
extern "C" void harness_file_header_truncation() {   // shard v_param(0) = 0..5: prefix lengths 8c..8c+7
  FileHeader h = sym_file_header();
  WriteBuffer wb; Encoder enc(wb); write(enc, h); grab(wb);
  unsigned sel = v_nondet_below(8);
  dispatch_seq<CaseFHT>(sel, std::make_integer_sequence<unsigned, 8>{});
}

// ---- ChunkHeader: flags byte (7) > 1 refused; padding_bytes (5) > file_length refused; file_length (8..15) < padding_bytes refused.
//      type (0..3), version (4), compression (6) are NOT validated by read(): they must arrive in the decoded struct
//      (read_chunk decides: unknown mandatory type / version != 0 -> error; `compression` is only covered by an assert()
//      that is compiled out in the NDEBUG build the library ships -- noted for the chunk-reader level).
extern "C" void harness_chunk_header_substitution() {
  ChunkHeader h; h.type = (ChunkType)v_nondet_u32(); h.version = v_nondet_u8(); h.padding_bytes = v_nondet_u8(); h.compression = v_nondet_u8();
  uint8_t fl = v_nondet_u8(); v_assume(fl <= 1); h.flags = (ChunkFlags)fl; h.file_length = v_nondet_u64(); h.payload_length = 0;
  v_assume(h.padding_bytes <= h.file_length);
  WriteBuffer wb; Encoder enc(wb); write(enc, h); grab(wb);
  V_ASSERT(g_n == 16);
  unsigned off = v_nondet_below(16); uint8_t val = v_nondet_u8(); v_assume(val != g_b[off]);
  std::vector<uint8_t> c = corrupted(16, off, val);
  uint64_t new_len = 0; for (unsigned k = 0; k < 8; ++k) new_len |= (uint64_t)c[8 + k] << (8 * k);
  uint8_t new_pad = c[5], new_flags = c[7];
  Decoder dec(c);
  ChunkHeader r; int out;
  RUN(out, read(dec, r));
  V_ASSERT(out != OTHER);
  bool must_reject = new_flags > 1 || (uint64_t)new_pad > new_len;
  V_ASSERT((out == PARSE_ERROR) == must_reject);
  if (must_reject) { v_witness("chunk header: corrupted flags / padding_bytes / file_length refused"); return; }
  V_ASSERT((uint32_t)r.type == ((uint32_t)c[0] | ((uint32_t)c[1] << 8) | ((uint32_t)c[2] << 16) | ((uint32_t)c[3] << 24)));
  V_ASSERT(r.version == c[4] && r.padding_bytes == new_pad && r.compression == c[6] && (uint8_t)r.flags == new_flags && r.file_length == new_len);
  V_ASSERT(r.payload_length == new_len - new_pad);     // consistent length bookkeeping for the chunk reader
  if (off == 6) v_witness("chunk header: compression != written value is accepted by read() (left to read_chunk)");
  else v_witness("chunk header: accepted change reaches the reader");
}
template <unsigned I> struct CaseCHT { static __attribute__((noinline)) void run() {
  Decoder dec(corrupted(I, 99, 0));
  ChunkHeader r; int out;
  RUN(out, read(dec, r));
  V_ASSERT(out == PARSE_ERROR && dec.pos() == 0);
  v_witness("chunk header: strict prefix refused");
} };
extern "C" void harness_chunk_header_truncation() {
  for (unsigned i = 0; i < 16; ++i) g_b[i] = v_nondet_u8();   // any 16 bytes: a prefix is refused whatever the content
  unsigned sel = v_nondet_below(16);
  dispatch_seq<CaseCHT>(sel, std::make_integer_sequence<unsigned, 16>{});
}

// ---- chunk sub-headers: VertexChunkHeader (encoding byte 12 must stay in {0,1,2}; reserved 13..15 must stay 0),
//      TopoChunkHeader (entity byte 12 in {1,2,3}; valence_encoding 14 and handle_encoding 15 in {0,1,2,4}).
//      Span / valence / handle_offset / idx bytes are data for the chunk reader (validate_span etc.): they must arrive.
extern "C" void harness_vertex_chunk_header_substitution() {
  VertexChunkHeader h; h.span.first = v_nondet_u64(); h.span.count = v_nondet_u32();
  uint8_t e = v_nondet_u8(); v_assume(e <= 2); h.vertex_encoding = (VertexEncoding)e;
  WriteBuffer wb; Encoder enc(wb); write(enc, h); grab(wb);
  V_ASSERT(g_n == 16);
  unsigned off = v_nondet_below(16); uint8_t val = v_nondet_u8(); v_assume(val != g_b[off]);
  Decoder dec(corrupted(16, off, val));
  VertexChunkHeader r; int out;
  RUN(out, read(dec, r));
  V_ASSERT(out != OTHER);
  bool must_reject = (off == 12 && val > 2) || off >= 13;
  V_ASSERT((out == PARSE_ERROR) == must_reject);
  if (must_reject) { v_witness("vertex chunk header: corrupted encoding/reserved refused"); return; }
  V_ASSERT(r.span.first != h.span.first || r.span.count != h.span.count || r.vertex_encoding != h.vertex_encoding);
  v_witness("vertex chunk header: span/encoding change reaches the reader");
}
static bool enc_ok(uint8_t x) { return x == 0 || x == 1 || x == 2 || x == 4; }
extern "C" void harness_topo_chunk_header_substitution() {
  TopoChunkHeader h; h.span.first = v_nondet_u64(); h.span.count = v_nondet_u32();
  uint8_t ent = v_nondet_u8(), ve = v_nondet_u8(), he = v_nondet_u8();
  v_assume(ent >= 1 && ent <= 3 && enc_ok(ve) && enc_ok(he));
  h.entity = (TopoEntity)ent; h.valence = v_nondet_u8(); h.valence_encoding = (IntEncoding)ve; h.handle_encoding = (IntEncoding)he; h.handle_offset = v_nondet_u64();
  WriteBuffer wb; Encoder enc(wb); write(enc, h); grab(wb);
  V_ASSERT(g_n == 24);
  unsigned off = v_nondet_below(24); uint8_t val = v_nondet_u8(); v_assume(val != g_b[off]);
  Decoder dec(corrupted(24, off, val));
  TopoChunkHeader r; int out;
  RUN(out, read(dec, r));
  V_ASSERT(out != OTHER);
  bool must_reject = (off == 12 && !(val >= 1 && val <= 3)) || ((off == 14 || off == 15) && !enc_ok(val));
  V_ASSERT((out == PARSE_ERROR) == must_reject);
  if (must_reject) { v_witness("topo chunk header: corrupted entity/encoding refused"); return; }
  V_ASSERT(r.span.first != h.span.first || r.span.count != h.span.count || r.entity != h.entity || r.valence != h.valence ||
           r.valence_encoding != h.valence_encoding || r.handle_encoding != h.handle_encoding || r.handle_offset != h.handle_offset);
  v_witness("topo chunk header: field change reaches the reader");
}
template <unsigned I> struct CaseSHT { static __attribute__((noinline)) void run() {
  unsigned which = v_param(0);
  Decoder dec(corrupted(I, 99, 0));
  int out;
  if (which == 0) { VertexChunkHeader r; RUN(out, read(dec, r)); V_ASSERT(out != OTHER); if (I < 16) V_ASSERT(out == PARSE_ERROR && dec.pos() == 0); }
  else if (which == 1) { TopoChunkHeader r; RUN(out, read(dec, r)); V_ASSERT(out != OTHER); if (I < 24) V_ASSERT(out == PARSE_ERROR && dec.pos() == 0); }
  else if (which == 2) { PropChunkHeader r; RUN(out, read(dec, r)); V_ASSERT(out != OTHER); V_ASSERT((out == PARSE_ERROR) == (I < 16)); if (I < 16) V_ASSERT(dec.pos() == 0); }
  else { ArraySpan r; RUN(out, read(dec, r)); V_ASSERT(out != OTHER); V_ASSERT((out == PARSE_ERROR) == (I < 12)); if (I < 12) V_ASSERT(dec.pos() == 0); }
  v_witness("sub-header: prefix handled");
} };
extern "C" void harness_sub_header_truncation() {   // shard v_param(0): 0 vertex, 1 topo, 2 prop chunk header, 3 array span; prefix length 0..24 by dispatch
  for (unsigned i = 0; i < 24; ++i) g_b[i] = v_nondet_u8();
  unsigned sel = v_nondet_below(25);
  dispatch_seq<CaseSHT>(sel, std::make_integer_sequence<unsigned, 25>{});
}
