// Memory-buffer streams for the OVMB file-level harnesses (C06 c, C07 reader level, C18).
//
// SYMBOLIC build: the reader/writer touch their std::istream& / std::ostream& only through out-of-line
// libstdc++.so members (istream::read/tellg/seekg, ostream::write/flush) plus the inline ostream.good().
// Those members are MODELLED in /verif/models/stream_model.cpp on the plain structs below; the harness
// hands the code under test `*reinterpret_cast<std::istream*>(&vs)` and the models cast `this` back.
//
// NATIVE build (-DV_NATIVE, replay of counterexamples against real libstdc++): the same VIn/VOut classes
// wrap a real std::istream/std::ostream over a std::streambuf subclass with the same bytes and the same
// fault behaviour (a short transfer from byte offset fail_at on; libstdc++ then sets failbit|eofbit / badbit).
#pragma once
#include <cstdint>
#include <cstddef>
#include <istream>
#include <ostream>

// input: bytes [0,size); from byte offset fail_at on the stream delivers nothing (fail_at >= size: no fault)
// layout note: the INLINE std::istream::gcount() reads basic_istream::_M_gcount, the 8 bytes after the vptr (offset 8)
struct VStream { const void *vptr_unused; int64_t gcount; const uint8_t *data; uint64_t size, pos, fail_at; bool failed; };

// output: the symbolic-build object must look like a std::ostream to the INLINE ostream.good():
//   vptr at offset 0; vptr[-3] = offset of the virtual base basic_ios (here 8); ios_base::_M_streambuf_state at +32 of it.
// capacity-bounded append buffer; from byte offset fail_at on write() stores nothing and sets badbit.
enum { VOSTREAM_CAP = 512 };
struct VOStream {
  const void *vptr;            // -> &vtbl[3]
  // ---- fake basic_ios / ios_base subobject at offset 8 (only _M_streambuf_state is ever read)
  const void *ios_vptr;        // +8   ios_base vptr
  int64_t ios_precision;       // +16
  int64_t ios_width;           // +24
  int32_t ios_flags;           // +32
  int32_t ios_exception;       // +36
  int32_t ios_streambuf_state; // +40  (goodbit = 0, badbit = 1, eofbit = 2, failbit = 4)
  int32_t pad_;
  // ---- model state
  int64_t vtbl[4];             // vtbl[0] = vbase offset (8), [1] offset-to-top, [2] typeinfo, [3..] virtual functions (never called)
  uint8_t *out; uint64_t cap, len, fail_at;
};

#ifdef V_NATIVE
#include <streambuf>
#include <cstring>
class VNativeInBuf : public std::streambuf {
public:
  const uint8_t *data_; uint64_t size_, pos_, fail_at_;
  VNativeInBuf(const uint8_t *d, uint64_t n, uint64_t fail_at) : data_(d), size_(n), pos_(0), fail_at_(fail_at) {}
protected:
  std::streamsize xsgetn(char *s, std::streamsize n) override {
    uint64_t lim = size_ < fail_at_ ? size_ : fail_at_;
    uint64_t avail = pos_ < lim ? lim - pos_ : 0;
    uint64_t k = (uint64_t)n < avail ? (uint64_t)n : avail;
    if (k) std::memcpy(s, data_ + pos_, k);
    pos_ += k;
    return (std::streamsize)k;
  }
  int_type underflow() override { return traits_type::eof(); }
  pos_type seekoff(off_type off, std::ios_base::seekdir dir, std::ios_base::openmode) override {
    int64_t base = dir == std::ios_base::beg ? 0 : dir == std::ios_base::cur ? (int64_t)pos_ : (int64_t)size_;
    int64_t np = base + (int64_t)off;
    if (np < 0 || (uint64_t)np > size_) return pos_type(off_type(-1));
    pos_ = (uint64_t)np;
    return pos_type(off_type(np));
  }
  pos_type seekpos(pos_type p, std::ios_base::openmode m) override { return seekoff(off_type(p), std::ios_base::beg, m); }
};
struct VIn {
  VNativeInBuf buf; std::istream is;
  VIn(const uint8_t *d, uint64_t n, uint64_t fail_at) : buf(d, n, fail_at), is(&buf) {}
  std::istream &stream() { return is; }
};
class VNativeOutBuf : public std::streambuf {
public:
  uint8_t *out_; uint64_t cap_, len_, fail_at_;
  VNativeOutBuf(uint8_t *o, uint64_t cap, uint64_t fail_at) : out_(o), cap_(cap), len_(0), fail_at_(fail_at) {}
protected:
  std::streamsize xsputn(const char *s, std::streamsize n) override {
    uint64_t lim = cap_ < fail_at_ ? cap_ : fail_at_;
    uint64_t room = len_ < lim ? lim - len_ : 0;
    uint64_t k = (uint64_t)n < room ? (uint64_t)n : room;
    if (k) std::memcpy(out_ + len_, s, k);
    len_ += k;
    return (std::streamsize)k;   // short count -> ostream::write sets badbit
  }
  int_type overflow(int_type) override { return traits_type::eof(); }
};
struct VOut {
  VNativeOutBuf buf; std::ostream os;
  VOut(uint8_t *o, uint64_t cap, uint64_t fail_at) : buf(o, cap, fail_at), os(&buf) {}
  std::ostream &stream() { return os; }
  uint64_t len() const { return buf.len_; }
};
#else
struct VIn {
  VStream vs;
  VIn(const uint8_t *d, uint64_t n, uint64_t fail_at) { vs.vptr_unused = nullptr; vs.gcount = 0; vs.data = d; vs.size = n; vs.pos = 0; vs.fail_at = fail_at; vs.failed = false; }
  std::istream &stream() { return *reinterpret_cast<std::istream *>(&vs); }
};
struct VOut {
  VOStream vo;
  VOut(uint8_t *o, uint64_t cap, uint64_t fail_at) {
    vo.vtbl[0] = 8; vo.vtbl[1] = 0; vo.vtbl[2] = 0; vo.vtbl[3] = 0;
    vo.vptr = &vo.vtbl[3];
    vo.ios_vptr = nullptr; vo.ios_precision = 0; vo.ios_width = 0; vo.ios_flags = 0; vo.ios_exception = 0; vo.ios_streambuf_state = 0; vo.pad_ = 0;
    vo.out = o; vo.cap = cap; vo.len = 0; vo.fail_at = fail_at;
  }
  std::ostream &stream() { return *reinterpret_cast<std::ostream *>(&vo); }
  uint64_t len() const { return vo.len; }
};
#endif
