// C19 (c): GeometryKernel geometric queries == their formulas applied to the positions of the entity's vertices.
// Mesh = base family (v_param(0)), built through the real add_* API with concrete arguments; POSITIONS are free
// symbolic data (full-width ints / arbitrary double bit patterns).  Halfedge / edge / vertex probes are free symbolic
// handles (the code only reads); faces, halffaces and cells are enumerated (their circulators have handle-dependent
// trip counts).  The oracle reads the topology from the snapshot of the stored definitions (mesh_common.h).
#include "mesh_common.h"
#include <OpenVolumeMesh/Core/GeometryKernel.hh>
#include <cmath>

typedef OpenVolumeMesh::Geometry::Vec3i V3i;
typedef OpenVolumeMesh::Geometry::Vec3d V3d;
typedef GeometryKernel<V3i, TopologyKernel> MeshI;
typedef GeometryKernel<V3d, TopologyKernel> MeshD;

static inline int probe_below(int n) { unsigned x = v_nondet_u32(); v_assume(n > 0 ? x < (unsigned)n : x == 0); return (int)x; }
static inline int wadd(int a, int b) { return (int)((unsigned)a + (unsigned)b); }
static inline int wsub(int a, int b) { return (int)((unsigned)a - (unsigned)b); }
static inline int wmul(int a, int b) { return (int)((unsigned)a * (unsigned)b); }
static inline bool same(double a, double b) {
  if (a != a || b != b) return a != a && b != b;
  uint64_t x, y; __builtin_memcpy(&x, &a, 8); __builtin_memcpy(&y, &b, 8); return x == y;
}

static int PI[MAXV][3];      // symbolic integer positions
static double PD[MAXV][3];   // symbolic double positions
static Snap S;

static bool setup_i(MeshI &m) {
  build_base(m, v_param(0));
  take_snapshot(m, S);
  if (S.overflow || S.nV == 0) return false;
  for (int v = 0; v < S.nV; ++v) {
    for (int k = 0; k < 3; ++k) PI[v][k] = v_nondet_int();
    m.set_vertex(VH(v), V3i(PI[v][0], PI[v][1], PI[v][2]));
  }
  return true;
}
static bool setup_d(MeshD &m) {
  build_base(m, v_param(0));
  take_snapshot(m, S);
  if (S.overflow || S.nV == 0) return false;
  for (int v = 0; v < S.nV; ++v) {
    for (int k = 0; k < 3; ++k) PD[v][k] = v_nondet_double();
    m.set_vertex(VH(v), V3d(PD[v][0], PD[v][1], PD[v][2]));
  }
  return true;
}

// ---------------------------------------------------------------------------------------------- integer positions
// vertex()/set_vertex() round trip, vector(halfedge), vector(edge), length: symbolic probes
extern "C" void harness_geom_i_edges() {
  MeshI m;
  if (!setup_i(m)) return;
  // set_vertex(v, p) is observed by vertex(v) and by no other vertex
  int tv = probe_below(S.nV), tw = probe_below(S.nV);
  for (int k = 0; k < 3; ++k) v_assert(m.vertex(VH(tv))[(size_t)k] == PI[tv][k], "C19 vertex(v) returns the position stored by set_vertex(v, p)");
  int q[3] = { v_nondet_int(), v_nondet_int(), v_nondet_int() };
  m.set_vertex(VH(tv), V3i(q[0], q[1], q[2]));
  for (int k = 0; k < 3; ++k) {
    v_assert(m.vertex(VH(tv))[(size_t)k] == q[k], "C19 set_vertex(v, q); vertex(v) == q");
    if (tw != tv) v_assert(m.vertex(VH(tw))[(size_t)k] == PI[tw][k], "C19 set_vertex(v, q) leaves the other vertices' positions unchanged");
  }
  for (int k = 0; k < 3; ++k) PI[tv][k] = q[k];
  if (S.nE == 0) { v_witness("geom int: no edges"); return; }
  int the = probe_below(2 * S.nE), te = the >> 1;
  int from = snap_he_from(S, the), to = snap_he_to(S, the);
  V3i d = m.vector(HEH(the)), de = m.vector(EH(te));
  for (int k = 0; k < 3; ++k) {
    v_assert(d[(size_t)k] == wsub(PI[to][k], PI[from][k]), "C19 vector(halfedge) == position(to) - position(from)");
    v_assert(de[(size_t)k] == wsub(PI[S.eto[te]][k], PI[S.efrom[te]][k]), "C19 vector(edge) == position(to) - position(from)");
  }
  if (the & 1) v_witness("geom int: odd halfedge probe");
  v_witness("geom int: vertex/vector");
}

// length: value_type(norm(vector)), norm = sqrt(sqrnorm) with the shared uninterpreted sqrt.
// Entities are enumerated and sharded, one per query (v_param(1) = halfedge index, or 2*nE + edge index for length(edge)):
// with concrete handles both sides read the same position symbols, which keeps the 32-bit multiplier equivalence within
// reach of the SAT back ends (the SMT back ends fail on mesh-level code).
extern "C" void harness_geom_i_length() {
  MeshI m;
  if (!setup_i(m)) return;
  int sel = (int)v_param(1);
  if (sel >= 3 * S.nE) return;
  bool is_edge = sel >= 2 * S.nE;
  int he = is_edge ? 2 * (sel - 2 * S.nE) : sel;
  int from = snap_he_from(S, he), to = snap_he_to(S, he);
  int sq = 0;
  for (int k = 0; k < 3; ++k) { int dk = wsub(PI[to][k], PI[from][k]); sq = wadd(sq, wmul(dk, dk)); }
  int len = (int)std::sqrt((double)sq);
  if (is_edge) v_assert(m.length(EH(he >> 1)) == len, "C19 length(edge) == (Scalar) sqrt(sqrnorm(vector(edge)))");
  else v_assert(m.length(HEH(he)) == len, "C19 length(halfedge) == (Scalar) sqrt(sqrnorm(vector(halfedge)))");
  v_witness("geom int: length");
}

// barycenter(face), barycenter(cell): (sum of the positions of the entity's vertices) / (number of vertices) in Scalar arithmetic
extern "C" void harness_geom_i_bary() {
  MeshI m;
  if (!setup_i(m)) return;
  for (int f = 0; f < S.nF; ++f) {
    int sum[3] = {0, 0, 0}, n = S.fval[f];
    for (int j = 0; j < n; ++j) { int v = snap_he_from(S, S.fhe[f][j]); for (int k = 0; k < 3; ++k) sum[k] = wadd(sum[k], PI[v][k]); }
    V3i b = m.barycenter(FH(f));
    for (int k = 0; k < 3; ++k) v_assert(b[(size_t)k] == sum[k] / n, "C19 barycenter(face) == (sum of its vertices' positions) / valence");
  }
  for (int c = 0; c < S.nC; ++c) {
    int sum[3] = {0, 0, 0}, n = 0;
    for (int v = 0; v < S.nV; ++v) if (snap_cell_has_vertex(S, c, v)) { ++n; for (int k = 0; k < 3; ++k) sum[k] = wadd(sum[k], PI[v][k]); }
    V3i b = m.barycenter(CH(c));
    for (int k = 0; k < 3; ++k) v_assert(b[(size_t)k] == sum[k] / n, "C19 barycenter(cell) == (sum of its vertices' positions) / number of vertices");
  }
  if (S.nC > 0) v_witness("geom int: cell barycenters");
  v_witness("geom int: face barycenters");
}

// barycenter(edge) = midpoint.  Integer positions: where the exact midpoint is an integer vector it must be returned;
// otherwise any of the two neighbouring integers is accepted (the documentation prescribes no rounding).
// Edge = v_param(1) (one query per edge); the positions of its two end vertices are free ints with |x| < 2^30 (no
// intermediate overflows), the other vertices sit at (7,7,7).  (Only the end points are symbolic so that a counterexample
// trace lists exactly the values the replay reads.)
extern "C" void harness_geom_i_bary_edge() {
  MeshI m;
  build_base(m, v_param(0));
  take_snapshot(m, S);
  int e = (int)v_param(1);
  if (S.overflow || e >= S.nE) return;
  int a = S.efrom[e], b = S.eto[e];
  for (int v = 0; v < S.nV; ++v) {
    for (int k = 0; k < 3; ++k) PI[v][k] = (v == a || v == b) ? v_nondet_int() : 7;
    m.set_vertex(VH(v), V3i(PI[v][0], PI[v][1], PI[v][2]));
  }
  for (int k = 0; k < 3; ++k) v_assume(PI[a][k] > -(1 << 30) && PI[a][k] < (1 << 30) && PI[b][k] > -(1 << 30) && PI[b][k] < (1 << 30));
  V3i r = m.barycenter(EH(e));
  bool exact_ok = true, near_ok = true;
  for (int k = 0; k < 3; ++k) {
    int s2 = PI[a][k] + PI[b][k];
    if ((s2 & 1) == 0 && r[(size_t)k] != s2 / 2) exact_ok = false;
    int e2 = 2 * r[(size_t)k] - s2;
    if (e2 < -1 || e2 > 1) near_ok = false;
  }
  v_assert(exact_ok, "C19 barycenter(edge) == (position(from) + position(to)) / 2 in every component where that midpoint is an integer");
  v_assert(near_ok, "C19 barycenter(edge) is within rounding (one of the two nearest integers) of the exact midpoint in every component");
  v_witness("geom int: edge barycenter");
}

// normals of the two sides of a triangle are opposite (integer positions: the cross product is exact in wrapping
// arithmetic, the normalisation divides both by the same norm; modulo the sqrt stub)
extern "C" void harness_geom_i_normal() {
  MeshI m;
  if (!setup_i(m)) return;
  bool any = false;
  for (int f = 0; f < S.nF; ++f) {
    if (S.fval[f] != 3) continue;
    any = true;
    V3i n0 = m.normal(HFH(2 * f)), n1 = m.normal(HFH(2 * f + 1));
    for (int k = 0; k < 3; ++k) v_assert(n1[(size_t)k] == wsub(0, n0[(size_t)k]), "C19 normal(opposite halfface) == -normal(halfface) (triangles, integer positions)");
  }
  if (any) v_witness("geom int: triangle normals");
  v_witness("geom int: normals end");
}

// ---------------------------------------------------------------------------------------------- double positions (bit-exact, same association order)
// Only SAT back ends work on mesh-level code (CBMC's SMT2 conversion fails on it), and for them every floating-point
// operation whose result is compared costs a circuit-equivalence proof: entities are enumerated and sharded
// (v_param(1) = halfedge / face / cell index), one or two operations per query.
extern "C" void harness_geom_d_vertex() {
  MeshD m;
  if (!setup_d(m)) return;
  int tv = probe_below(S.nV), tw = probe_below(S.nV);
  for (int k = 0; k < 3; ++k) v_assert(same(m.vertex(VH(tv))[(size_t)k], PD[tv][k]), "C19 vertex(v) returns the position stored by set_vertex(v, p) (double)");
  double q[3] = { v_nondet_double(), v_nondet_double(), v_nondet_double() };
  m.set_vertex(VH(tv), V3d(q[0], q[1], q[2]));
  for (int k = 0; k < 3; ++k) {
    v_assert(same(m.vertex(VH(tv))[(size_t)k], q[k]), "C19 set_vertex(v, q); vertex(v) == q (double)");
    if (tw != tv) v_assert(same(m.vertex(VH(tw))[(size_t)k], PD[tw][k]), "C19 set_vertex(v, q) leaves the other vertices' positions unchanged (double)");
  }
  v_witness("geom double: vertex round trip");
}
extern "C" void harness_geom_d_vector() {
  MeshD m;
  if (!setup_d(m)) return;
  int he = (int)v_param(1);
  if (he >= 2 * S.nE) return;
  int from = snap_he_from(S, he), to = snap_he_to(S, he);
  int k = (int)v_param(2);   // component 0..2: vector(halfedge); 3..5: vector(edge) (even halfedges)
  if (k < 3) {
    V3d d = m.vector(HEH(he));
    v_assert(same(d[(size_t)k], PD[to][k] - PD[from][k]), "C19 vector(halfedge) == position(to) - position(from) (double)");
  } else if ((he & 1) == 0 && k < 6) {
    V3d de = m.vector(EH(he >> 1));
    v_assert(same(de[(size_t)(k - 3)], PD[to][k - 3] - PD[from][k - 3]), "C19 vector(edge) == position(to) - position(from) (double)");
  } else return;
  v_witness("geom double: vector");
}
extern "C" void harness_geom_d_bary_edge() {
  MeshD m;
  if (!setup_d(m)) return;
  int e = (int)v_param(1);
  if (e >= S.nE) return;
  int k = (int)v_param(2);
  if (k >= 3) return;
  V3d bc = m.barycenter(EH(e));
  v_assert(same(bc[(size_t)k], 0.5 * PD[S.efrom[e]][k] + 0.5 * PD[S.eto[e]][k]), "C19 barycenter(edge) == 0.5 * position(from) + 0.5 * position(to) (double)");
  v_witness("geom double: edge barycenter");
}
extern "C" void harness_geom_d_length() {
  MeshD m;
  if (!setup_d(m)) return;
  int he = (int)v_param(1);
  if (he >= 2 * S.nE) return;
  int from = snap_he_from(S, he), to = snap_he_to(S, he);
  double dk[3];
  for (int k = 0; k < 3; ++k) dk[k] = PD[to][k] - PD[from][k];
  double sq = dk[0] * dk[0]; sq = sq + dk[1] * dk[1]; sq = sq + dk[2] * dk[2];
  v_assert(same(m.length(HEH(he)), std::sqrt(sq)), "C19 length(halfedge) == norm(vector(halfedge)) (double)");
  v_witness("geom double: length");
}

// barycenter(face) / barycenter(cell): positions summed in circulation order starting from 0, divided by the count
extern "C" void harness_geom_d_bary() {
  MeshD m;
  if (!setup_d(m)) return;
  for (int f = 0; f < S.nF; ++f) {
    double sum[3] = {0.0, 0.0, 0.0}; int n = S.fval[f];
    for (int j = 0; j < n; ++j) { int v = snap_he_from(S, S.fhe[f][j]); for (int k = 0; k < 3; ++k) sum[k] = sum[k] + PD[v][k]; }
    V3d b = m.barycenter(FH(f));
    for (int k = 0; k < 3; ++k) v_assert(same(b[(size_t)k], sum[k] / (double)n), "C19 barycenter(face) == (sum of its vertices' positions) / valence (double)");
  }
  for (int c = 0; c < S.nC; ++c) {
    double sum[3] = {0.0, 0.0, 0.0}; int n = 0;
    for (int v = 0; v < S.nV; ++v) if (snap_cell_has_vertex(S, c, v)) { ++n; for (int k = 0; k < 3; ++k) sum[k] = sum[k] + PD[v][k]; }
    V3d b = m.barycenter(CH(c));
    for (int k = 0; k < 3; ++k) v_assert(same(b[(size_t)k], sum[k] / (double)n), "C19 barycenter(cell) == (sum of its vertices' positions) / number of vertices (double)");
  }
  if (S.nC > 0) v_witness("geom double: cell barycenters");
  v_witness("geom double: face barycenters");
}

// normal(halfface) == normalized((p2 - p1) x (p3 - p2)) for the first three vertices p1,p2,p3 of the halfface
extern "C" void harness_geom_d_normal() {
  MeshD m;
  if (!setup_d(m)) return;
  bool any = false;
  for (int h = 0; h < 2 * S.nF; ++h) {
    int f = h >> 1;
    if (S.fval[f] < 3) continue;
    any = true;
    int h0 = snap_hf_he(S, h, 0), h1 = snap_hf_he(S, h, 1);
    int p1 = snap_he_from(S, h0), p2 = snap_he_to(S, h0), p3 = snap_he_to(S, h1);
    double u[3], w[3];
    for (int k = 0; k < 3; ++k) { u[k] = PD[p2][k] - PD[p1][k]; w[k] = PD[p3][k] - PD[p2][k]; }
    double c0 = u[1] * w[2] - u[2] * w[1], c1 = u[2] * w[0] - u[0] * w[2], c2 = u[0] * w[1] - u[1] * w[0];
    double sq = c0 * c0; sq = sq + c1 * c1; sq = sq + c2 * c2;
    double nn = std::sqrt(sq);
    V3d n = m.normal(HFH(h));
    v_assert(same(n[0], c0 / nn) && same(n[1], c1 / nn) && same(n[2], c2 / nn), "C19 normal(halfface) == normalized((p2-p1) x (p3-p2)) (double)");
  }
  if (any) v_witness("geom double: normals");
  v_witness("geom double: normals end");
}
