// Native replay builds only (g++ -fsanitize=address,undefined): OpenVolumeMesh's detail::Tracked<T> constructor/destructor do
// static_cast<T*>(this) (Tracking.hh:149/155) while the derived PropertyStorageBase part does not exist yet / any more.  UBSan's vptr check
// reports that downcast and the replay would die on the first property ever created (see notes/C14-findings.md, observation O1).  The
// pointer is only stored in / erased from the tracker set there, never dereferenced, so UBSan's vptr check is suppressed for objects whose dynamic type at that moment is
// detail::Tracked<PropertyStorageBase> (libubsan matches the mangled typeinfo name); every other sanitizer check (ASan, all other UBSan checks) stays fatal.  (The suppression list has to be a file; it is written when the sanitizer asks for its default options.)
#pragma once
#ifdef V_NATIVE
#include <cstdio>
extern "C" const char *__ubsan_default_options() {
  static const char *path = "/tmp/ovm_verif_tracked_vptr.supp";
  if (FILE *f = std::fopen(path, "w")) { std::fputs("vptr_check:6detail7TrackedINS_19PropertyStorageBaseE\n", f); std::fclose(f); }
  return "suppressions=/tmp/ovm_verif_tracked_vptr.supp";
}
#endif
