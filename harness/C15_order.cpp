// C15: vertex-order contracts of the tetrahedral kernel (read-only queries) against a brute-force reference built from the
// stored halfface definitions.   shard params: 0 = base (c15_common.h), 1 = pre-operation (0 none, 1.. see pre_op), 2,3 = part p of N of the entity range (see run_order)
//   centre cell / halfface enumerated (constant: a free symbolic centre gives symbolic loop bounds inside halfface_vertices(),
//   measured: no verdict in 300 s on one tet); vertex and halfedge ARGUMENTS free symbolic
#include "c15_order_checks.h"

static inline int probe_below(int n) { unsigned x = v_nondet_u32(); v_assume(n > 0 ? x < (unsigned)n : x == 0); return (int)x; }

// optional concrete pre-operation so that the queried state is not only a freshly built one
static void pre_op(TetMesh &m, unsigned op) {
  switch (op) {
  case 1: m.swap_cell_indices(CH(0), CH((int)m.n_cells() - 1)); break;
  case 2: m.swap_face_indices(FH(0), FH((int)m.n_faces() - 1)); break;
  case 3: m.swap_edge_indices(EH(0), EH((int)m.n_edges() - 1)); break;
  case 4: m.swap_vertex_indices(VH(0), VH((int)m.n_vertices() - 1)); break;
  case 5: m.delete_cell(CH(0)); break;                                          // immediate deletion, renumbering
  case 6: m.enable_deferred_deletion(true); m.delete_cell(CH(0)); break;        // deferred: cell 0 stays stored, marked deleted
  case 7: m.enable_fast_deletion(true); m.delete_cell(CH(0)); break;
  default: break;
  }
}

static void run_order() {
  TetMesh m;
  build_tets(m, v_param(0));
  pre_op(m, v_param(1));
  Snap s; take_snapshot(m, s);
  check_shape(m, s);
  if (!R_ok) return;
  const int tv = probe_below(s.nV), the = probe_below(2 * s.nE);
  // params 2,3: part p of N (N = 0: everything).  Cells go with part 0, the halffaces are split into N contiguous ranges.
  const unsigned part = v_param(2), nparts = v_param(3) ? v_param(3) : 1;
  const int nh = 2 * s.nF, lo = (int)((unsigned)nh * part / nparts), hi = (int)((unsigned)nh * (part + 1) / nparts);
  if (part == 0) for (int c = 0; c < s.nC; ++c) if (r_live_tet(c)) check_cell(m, c, tv);
  for (int h = lo; h < hi; ++h) if (!s.fdel[h >> 1]) check_halfface(m, h, tv, the);
  v_witness("C15 order end");
}

extern "C" void harness_c15_order() { run_order(); }
