// C15: vertex-order contracts of the tetrahedral kernel (read-only queries) against a brute-force reference built from the
// stored halfface definitions.   shard params: 0 = base (c15_common.h), 1 = pre-operation (0 none, 1.. see pre_op)
//   harness_c15_order      centre cell / halfface enumerated (constant), vertex and halfedge ARGUMENTS free symbolic
//   harness_c15_order_sym  cell and halfface probes free symbolic as well
#include "c15_common.h"

static inline int probe_below(int n) { unsigned x = v_nondet_u32(); v_assume(n > 0 ? x < (unsigned)n : x == 0); return (int)x; }

// optional concrete pre-operation so that the queried state is not only a freshly built one
static void pre_op(TetMesh &m, unsigned op) {
  switch (op) {
  case 1: m.swap_cell_indices(CH(0), CH((int)m.n_cells() - 1)); break;
  case 2: m.swap_face_indices(FH(0), FH((int)m.n_faces() - 1)); break;
  case 3: m.swap_edge_indices(EH(0), EH((int)m.n_edges() - 1)); break;
  case 4: m.swap_vertex_indices(VH(0), VH((int)m.n_vertices() - 1)); break;
  case 5: m.delete_cell(CH(0)); break;                                          // immediate deletion, renumbering
  case 6: m.enable_deferred_deletion(true); m.delete_cell(CH(0)); break;        // deferred: cell 0 stays stored, marked deleted
  case 7: m.enable_fast_deletion(true); m.delete_cell(CH(0)); break;
  default: break;
  }
}

// ---- checks for one cell c (live tet) ; tv = symbolic vertex argument
static void check_cell(const TetMesh &m, const Snap &s, int c, int tv) {
  const int F = s.chf[c][0];
  int ref[4]; bf_tuple(s, c, F, 0, ref);
  // get_cell_vertices(ch): "1.-3. vertices of ch's first halfface, ccw, starting with the first from_vertex of the halfface's first halfedge. 4. the 4th vertex"
  { std::vector<VH> r = m.get_cell_vertices(CH(c));
    v_assert(vec_is(r, ref[0], ref[1], ref[2], ref[3]), "C15 get_cell_vertices(ch) == first halfface's vertices in stored order, then the apex"); }
  // get_cell_vertices(ch, vh): "... in a specific order, starting with vh"
  if (bf_cell_has_v(s, c, tv)) {
    std::vector<VH> r = m.get_cell_vertices(CH(c), VH(tv));
    v_assert(r.size() == 4 && r[0].idx() == tv, "C15 get_cell_vertices(ch,vh) starts with vh");
    int p = bf_hf_pos(s, F, tv);
    if (p >= 0) {
      int e[4]; bf_tuple(s, c, F, p, e);
      v_assert(vec_is(r, e[0], e[1], e[2], e[3]), "C15 get_cell_vertices(ch,vh), vh on the first halfface: its cyclic order from vh, then the apex");
    }
    if (r.size() == 4) {
      int q[4] = { r[0].idx(), r[1].idx(), r[2].idx(), r[3].idx() };
      v_assert(perm_parity(ref, q) == 0, "C15 get_cell_vertices(ch,vh) is an orientation-preserving (even) reordering of the cell's four vertices");
    }
    // vertex_opposite_halfface: "the first halfface of the tet ch that does not contain the vertex vh"
    int exp = -1;
    for (int k = 3; k >= 0; --k) if (!bf_hf_has_v(s, s.chf[c][k], tv)) exp = s.chf[c][k];
    HFH o = m.vertex_opposite_halfface(CH(c), VH(tv));
    v_assert(o.idx() == exp && exp >= 0, "C15 vertex_opposite_halfface(ch,vh) == first halfface of ch not containing vh");
    if (o.is_valid() && snap_incident_cell(s, o.idx()) == c)
      v_assert(m.halfface_opposite_vertex(o).idx() == tv, "C15 halfface_opposite_vertex(vertex_opposite_halfface(ch,vh)) == vh");
  }
  // tet vertex iterator: "vertices of the tet's first halfface, starting with the first halfedge's from_vertex, then the fourth vertex"
  { TetVertexIter it = m.tv_iter(CH(c));
    bool ok = true; int n = 0;
    for (; it.valid() && n < 6; ++it, ++n) if (n < 4 && (*it).idx() != ref[n]) ok = false;
    v_assert(ok && n == 4, "C15 tv_iter(ch) enumerates exactly the four vertices in get_cell_vertices order");
    std::pair<TetVertexIter, TetVertexIter> rg = m.tet_vertices(CH(c));
    int k = 0; bool ok2 = true;
    for (TetVertexIter jt = rg.first; jt != rg.second && k < 6; ++jt, ++k) if (k < 4 && (*jt).idx() != ref[k]) ok2 = false;
    v_assert(ok2 && k == 4, "C15 tet_vertices(ch) range enumerates the same four vertices"); }
}

// ---- checks for one halfface h of a live face; tv / the = symbolic vertex / halfedge arguments
static void check_halfface(const TetMesh &m, const Snap &s, int h, int tv, int the) {
  const int ic = snap_incident_cell(s, h);
  if (ic == -2) return;                                   // halfface used by two live cells: outside the precondition
  const int h0 = bf_hf_v(s, h, 0), h1 = bf_hf_v(s, h, 1), h2 = bf_hf_v(s, h, 2);
  // TopologyKernel::get_halfface_vertices x3 ("Get vertices of a halfface [ordered to start from vh / from_vertex_handle(heh)]")
  { std::vector<VH> r = m.get_halfface_vertices(HFH(h));
    v_assert(vec_is3(r, h0, h1, h2), "C15 get_halfface_vertices(hfh) == from-vertices of its halfedges in stored order"); }
  const int pv = bf_hf_pos(s, h, tv);
  if (pv >= 0) {
    std::vector<VH> r = m.get_halfface_vertices(HFH(h), VH(tv));
    v_assert(vec_is3(r, bf_hf_v(s, h, pv), bf_hf_v(s, h, (pv + 1) % 3), bf_hf_v(s, h, (pv + 2) % 3)), "C15 get_halfface_vertices(hfh,vh) == cyclic order starting at vh");
  }
  const int hef = snap_he_from(s, the), het = snap_he_to(s, the);
  const int pe = bf_hf_pos(s, h, hef);
  if (!s.edel[the >> 1] && pe >= 0) {
    std::vector<VH> r = m.get_halfface_vertices(HFH(h), HEH(the));
    v_assert(vec_is3(r, bf_hf_v(s, h, pe), bf_hf_v(s, h, (pe + 1) % 3), bf_hf_v(s, h, (pe + 2) % 3)), "C15 get_halfface_vertices(hfh,heh) == cyclic order starting at from_vertex(heh)");
  }
  // halfface_opposite_vertex: "the vertex of the incident cell not contained in hfh; invalid if hfh is boundary"
  VH ov = m.halfface_opposite_vertex(HFH(h));
  if (ic == -1) {
    v_assert(!ov.is_valid(), "C15 halfface_opposite_vertex(boundary hfh) is invalid");
    std::vector<VH> r = m.get_cell_vertices(HFH(h));
    v_assert(r.empty(), "C15 get_cell_vertices(boundary hfh) is empty");
    return;
  }
  if (!bf_live_tet(s, ic)) return;
  const int apex = bf_apex(s, ic, h);
  v_assert(ov.idx() == apex && apex >= 0, "C15 halfface_opposite_vertex(hfh) == the vertex of the incident cell not on hfh");
  if (ov.is_valid()) {
    // mutually inverse -- in the sense the documentation allows: vertex_opposite_halfface returns a halfface of the cell not containing the vertex;
    // a tet has exactly one, so it must be hfh again
    v_assert(m.vertex_opposite_halfface(CH(ic), ov).idx() == h, "C15 vertex_opposite_halfface(incident_cell(hfh), halfface_opposite_vertex(hfh)) == hfh");
  }
  // get_cell_vertices(hfh): "1.-3. vertices of hfh, ccw, starting with the first from_vertex of the halfface's first halfedge. 4. the 4th vertex"
  { std::vector<VH> r = m.get_cell_vertices(HFH(h));
    v_assert(vec_is(r, h0, h1, h2, apex), "C15 get_cell_vertices(hfh) == hfh's vertices in stored order, then the apex"); }
  // get_cell_vertices(hfh, heh): "1. heh.from_vertex 2. heh.to_vertex 3. 3rd vertex of hfh 4. 4th vertex; heh is expected to be incident to hfh"
  if (!s.edel[the >> 1] && snap_count_he_in_hf(s, h, the) == 1) {
    std::vector<VH> r = m.get_cell_vertices(HFH(h), HEH(the));
    int third = (h0 != hef && h0 != het) ? h0 : ((h1 != hef && h1 != het) ? h1 : h2);
    v_assert(vec_is(r, hef, het, third, apex), "C15 get_cell_vertices(hfh,heh) == (from(heh), to(heh), third vertex of hfh, apex)");
  }
}

static void run_order(bool symbolic_centre) {
  TetMesh m;
  build_tets(m, v_param(0));
  pre_op(m, v_param(1));
  Snap s; take_snapshot(m, s);
  check_shape(m, s);
  if (!bf_shape_ok(s)) return;
  const int tv = probe_below(s.nV), the = probe_below(2 * s.nE);
  if (symbolic_centre) {
    const int c = probe_below(s.nC), h = probe_below(2 * s.nF);
    if (s.nC > 0 && bf_live_tet(s, c)) check_cell(m, s, c, tv);
    if (s.nF > 0 && !s.fdel[h >> 1]) check_halfface(m, s, h, tv, the);
  } else {
    for (int c = 0; c < s.nC; ++c) if (bf_live_tet(s, c)) check_cell(m, s, c, tv);
    for (int h = 0; h < 2 * s.nF; ++h) if (!s.fdel[h >> 1]) check_halfface(m, s, h, tv, the);
  }
  v_witness("C15 order end");
}

extern "C" void harness_c15_order() { run_order(false); }
extern "C" void harness_c15_order_sym() { run_order(true); }
