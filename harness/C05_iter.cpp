// C05 (entity iterators): VertexIter, EdgeIter, HalfEdgeIter, FaceIter, HalfFaceIter, CellIter enumerate exactly the
// not-deleted entities in ascending handle order; begin/end pairs, the valid() protocol, range-for, v_iter() vs
// vertices_begin() and backward stepping agree.
// State: base mesh (v_param 0) in deferred-deletion mode + 0..2 deletions of entities of kind v_param(1)
// (their upward closure is deleted with them, so every array gets front / middle / end / all-deleted patterns);
// the deleted pair is chosen by a symbolic selector (case index = v_param(2) + selector, v_param 5 cases per query (0: 8); v_param 3: 0 all pairs, 1 single deletions only, 2 singles + (0,1),(n-2,n-1),(0,n-1)).
// Symbolic per iterator type: the start handle s in [0, n] handed to the iterator constructor.
#include "c05_common.h"

enum { MAXIT = 26 };   // largest entity array handled (halfedges of a hexahedron: 24, of prism+pyramid: 26)

struct VTr { typedef VertexHandle H; typedef VertexIter It;
  static It iter(const TopologyKernel &m) { return m.v_iter(); } static It begin(const TopologyKernel &m) { return m.vertices_begin(); }
  static It end(const TopologyKernel &m) { return m.vertices_end(); } static std::pair<It, It> range(const TopologyKernel &m) { return m.vertices(); }
  static int n(const TopologyKernel &m) { return (int)m.n_vertices(); } static int logical(const TopologyKernel &m) { return (int)m.n_logical_vertices(); } };
struct ETr { typedef EdgeHandle H; typedef EdgeIter It;
  static It iter(const TopologyKernel &m) { return m.e_iter(); } static It begin(const TopologyKernel &m) { return m.edges_begin(); }
  static It end(const TopologyKernel &m) { return m.edges_end(); } static std::pair<It, It> range(const TopologyKernel &m) { return m.edges(); }
  static int n(const TopologyKernel &m) { return (int)m.n_edges(); } };
struct HETr { typedef HalfEdgeHandle H; typedef HalfEdgeIter It;
  static It iter(const TopologyKernel &m) { return m.he_iter(); } static It begin(const TopologyKernel &m) { return m.halfedges_begin(); }
  static It end(const TopologyKernel &m) { return m.halfedges_end(); } static std::pair<It, It> range(const TopologyKernel &m) { return m.halfedges(); }
  static int n(const TopologyKernel &m) { return (int)m.n_halfedges(); } };
struct FTr { typedef FaceHandle H; typedef FaceIter It;
  static It iter(const TopologyKernel &m) { return m.f_iter(); } static It begin(const TopologyKernel &m) { return m.faces_begin(); }
  static It end(const TopologyKernel &m) { return m.faces_end(); } static std::pair<It, It> range(const TopologyKernel &m) { return m.faces(); }
  static int n(const TopologyKernel &m) { return (int)m.n_faces(); } };
struct HFTr { typedef HalfFaceHandle H; typedef HalfFaceIter It;
  static It iter(const TopologyKernel &m) { return m.hf_iter(); } static It begin(const TopologyKernel &m) { return m.halffaces_begin(); }
  static It end(const TopologyKernel &m) { return m.halffaces_end(); } static std::pair<It, It> range(const TopologyKernel &m) { return m.halffaces(); }
  static int n(const TopologyKernel &m) { return (int)m.n_halffaces(); } };
struct CTr { typedef CellHandle H; typedef CellIter It;
  static It iter(const TopologyKernel &m) { return m.c_iter(); } static It begin(const TopologyKernel &m) { return m.cells_begin(); }
  static It end(const TopologyKernel &m) { return m.cells_end(); } static std::pair<It, It> range(const TopologyKernel &m) { return m.cells(); }
  static int n(const TopologyKernel &m) { return (int)m.n_cells(); } };

// del[i] (i < n): the stored deleted flag of entity i.  Reference = ascending list of the indices with !del.
template <class Tr>
static void check_iter(const TopologyKernel &m, const bool *del, int n) {
  typedef typename Tr::It It; typedef typename Tr::H H;
  v_assert(n <= MAXIT && n == Tr::n(m), "C05 harness capacity");
  if (n > MAXIT) return;
  int live[MAXIT + 1], nl = 0;
  for (int i = 0; i < n; ++i) if (!del[i]) live[nl++] = i;
  const It b = Tr::begin(m), e = Tr::end(m), vi = Tr::iter(m);
  // ---- begin / end / x_iter()
  v_assert(!e.valid(), "C05 iter: end iterator is not valid");
  v_assert(vi == b, "C05 iter: x_iter() equals xs_begin()");
  v_assert(b.valid() == (nl > 0), "C05 iter: begin is valid iff a live entity exists");
  if (nl > 0) v_assert((*b).idx() == live[0], "C05 iter: begin skips leading deleted entities");
  else v_assert(b == e, "C05 iter: begin == end when nothing is live");
  // ---- forward: valid() protocol and (begin,end) protocol in one walk; at every position ++/-- and --/++ come back
  {
    int j = 0;
    It it = Tr::iter(m);
    for (; it.valid() && j <= MAXIT; ++it, ++j) {
      v_assert(j < nl && (*it).idx() == live[j < nl ? j : 0], "C05 iter: valid()-loop visits the live entities in ascending order");
      v_assert(it != e, "C05 iter: a valid iterator differs from end");
      if (j + 1 < nl) { It c = it; ++c; --c; v_assert(c == it, "C05 iter: -- after ++ restores the position"); }
      if (j > 0) { It c = it; --c; ++c; v_assert(c == it, "C05 iter: ++ after -- restores the position"); }
    }
    v_assert(j == nl, "C05 iter: valid()-loop visits every live entity exactly once");
    v_assert(it == e, "C05 iter: the exhausted iterator equals end");
  }
  // ---- range-for
  {
    int j = 0;
    for (const auto h : Tr::range(m)) { if (j > MAXIT) break; v_assert(j < nl && h.idx() == live[j < nl ? j : 0], "C05 iter: range-for visits the live entities in ascending order"); ++j; }
    v_assert(j == nl, "C05 iter: range-for visits every live entity exactly once");
  }
  // ---- backward from the last live entity
  if (nl > 0) {
    int j = nl - 1;
    for (It it(&m, H(live[nl - 1])); it.valid() && j >= -1; --it, --j)
      v_assert(j >= 0 && (*it).idx() == live[j >= 0 ? j : 0], "C05 iter: backward stepping visits the live entities in descending order");
    v_assert(j == -1, "C05 iter: backward stepping visits every live entity exactly once");
  }
  // ---- symbolic start handle
  {
    int s = (int)v_nondet_below((unsigned)n + 1);
    int cur = n, nxt = n, prv = -1;   // first live >= s; first live > cur; last live < cur
    for (int i = n - 1; i >= 0; --i) if (i >= s && !del[i]) cur = i;      // n is concrete per case: constant trip counts
#ifdef C05_SELFTEST   /* deliberately wrong oracle (ignores the deleted flags): the check must FAIL; never part of a job */
    for (int i = n - 1; i >= 0; --i) if (i > cur) nxt = i;
#else
    for (int i = n - 1; i >= 0; --i) if (i > cur && !del[i]) nxt = i;
#endif
    for (int i = 0; i < n; ++i) if (i < cur && !del[i]) prv = i;
    It it(&m, H(s));
    v_assert(it.valid() == (cur < n), "C05 iter: iterator(start) is valid iff a live entity >= start exists");
    if (cur < n) {
      v_assert((*it).idx() == cur, "C05 iter: iterator(start) designates the first live entity >= start");
      It c = it; ++c;
      v_assert(c.valid() == (nxt < n), "C05 iter: ++ is valid iff a later live entity exists");
      if (nxt < n) {
        v_assert((*c).idx() == nxt, "C05 iter: ++ moves to the next live entity");
        --c; v_assert(c == it, "C05 iter: -- after ++ restores the position (symbolic start)");
      } else v_assert(c == e, "C05 iter: ++ from the last live entity yields end");
      It d = it; --d;
      v_assert(d.valid() == (prv >= 0), "C05 iter: -- is valid iff an earlier live entity exists");
      if (prv >= 0) {
        v_assert((*d).idx() == prv, "C05 iter: -- moves to the previous live entity");
        ++d; v_assert(d == it, "C05 iter: ++ after -- restores the position (symbolic start)");
      }
    } else v_assert(it == e, "C05 iter: iterator(start) with nothing live behind start equals end");
  }
}

static bool g_vdel[MAXIT], g_edel[MAXIT], g_hedel[MAXIT], g_fdel[MAXIT], g_hfdel[MAXIT], g_cdel[MAXIT];

static __attribute__((noinline)) void iter_case(unsigned i) {
  unsigned base = v_param(0), kind = v_param(1), start = v_param(2), per = v_param(5);
  if (per == 0 || per > C05_PER) per = C05_PER;
  if (i >= per) return;
  unsigned idx = start + i;
  unsigned a = 0, b = 0, n = c05_base_count(base, kind);
  if (kind == K_NONE) { if (idx != 0) return; }
  else if (v_param(3) == 1) { if (idx >= n) return; a = b = idx; }   // singles only
  else if (v_param(3) == 2) {                                         // singles + front two, end two, front and end
    if (idx < n) a = b = idx;
    else if (n >= 2 && idx == n) { a = 0; b = 1; }
    else if (n >= 2 && idx == n + 1) { a = n - 2; b = n - 1; }
    else if (n >= 2 && idx == n + 2) { a = 0; b = n - 1; }
    else return;
  }
  else if (!c05_pair(n, idx, a, b)) return;
  TopologyKernel m;
  c05_build(m, base);
  v_assert(c05_counts_ok(m, base), "C05 harness: base count table");
  if (kind != K_NONE) {
    c05_delete(m, kind, a);
    if (b != a) c05_delete(m, kind, b);
  }
  // stored deleted flags (the reference side): plain global arrays, cheap for the symbolic executor
  const int nV = (int)m.n_vertices(), nE = (int)m.n_edges(), nF = (int)m.n_faces(), nC = (int)m.n_cells();
  if (nV > MAXIT || 2 * nE > MAXIT || 2 * nF > MAXIT || nC > MAXIT) { v_assert(false, "C05 harness capacity"); return; }
  for (int i = 0; i < nV; ++i) g_vdel[i] = m.is_deleted(VH(i));
  for (int i = 0; i < nE; ++i) { g_edel[i] = m.is_deleted(EH(i)); g_hedel[2 * i] = g_hedel[2 * i + 1] = g_edel[i]; }
  for (int i = 0; i < nF; ++i) { g_fdel[i] = m.is_deleted(FH(i)); g_hfdel[2 * i] = g_hfdel[2 * i + 1] = g_fdel[i]; }
  for (int i = 0; i < nC; ++i) g_cdel[i] = m.is_deleted(CH(i));
  check_iter<VTr>(m, g_vdel, nV);
  check_iter<ETr>(m, g_edel, nE);
  check_iter<HETr>(m, g_hedel, 2 * nE);
  check_iter<FTr>(m, g_fdel, nF);
  check_iter<HFTr>(m, g_hfdel, 2 * nF);
  check_iter<CTr>(m, g_cdel, nC);
  v_witness("C05 iter case end");
}
template <unsigned I> struct IterCase { static __attribute__((noinline)) void run() { iter_case(I); } };

extern "C" void harness_c05_iter() {
  unsigned sel = v_nondet_below(C05_PER);
  dispatch<IterCase, C05_PER>(sel);
}
