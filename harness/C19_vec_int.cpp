// C19 (a): VectorT<int|unsigned, 2|3|4> against component-wise formulas, FULL-WIDTH symbolic components.
// Oracle arithmetic is done in the unsigned type of the same width (two's-complement wrap, no UB in the
// harness) and converted back: this is what the compiled library code does on overflow as well (stated bound).
// Stream operators << >> are outside the claim (iostream).
#include "verif.h"
#include <OpenVolumeMesh/Geometry/VectorT.hh>
#include <type_traits>
#include <limits>
#include <cmath>
using namespace OpenVolumeMesh::Geometry;

template <class S> static inline S nd();
template <> inline int nd<int>() { return v_nondet_int(); }
template <> inline unsigned nd<unsigned>() { return v_nondet_u32(); }

template <class S> using U = typename std::make_unsigned<S>::type;
template <class S> static inline S wadd(S a, S b) { return (S)((U<S>)a + (U<S>)b); }
template <class S> static inline S wsub(S a, S b) { return (S)((U<S>)a - (U<S>)b); }
template <class S> static inline S wmul(S a, S b) { return (S)((U<S>)a * (U<S>)b); }
template <class S> static inline S wneg(S a) { return (S)((U<S>)0 - (U<S>)a); }
template <class S> static inline S wabs(S a) { return a < 0 ? wneg(a) : a; }

// symbolic inputs: SymA = one vector (entries that need nothing else read nothing else: counterexample traces
// list only the nondet values that matter, so unused reads would misalign a replay), Sym = two vectors + a scalar
template <class S, int D> struct SymA {
  S a[D];
  VectorT<S, D> va;
  SymA() {
    for (int i = 0; i < D; ++i) a[i] = nd<S>();
    for (int i = 0; i < D; ++i) va[(size_t)i] = a[i];   // operator[] (write)
  }
};
template <class S, int D> struct Sym : SymA<S, D> {
  S b[D], s;
  VectorT<S, D> vb;
  Sym() {
    for (int i = 0; i < D; ++i) b[i] = nd<S>();
    s = nd<S>();
    vb = VectorT<S, D>(&b[0]);                           // iterator constructor
  }
};

// ------------------------------------------------------------------------------------------------ construction / access
template <class S, int D> static void t_ctor() {
  Sym<S, D> x; typedef VectorT<S, D> V;
  V_ASSERT(V::size() == (size_t)D && V::dim() == D);
  for (int i = 0; i < D; ++i) {
    V_ASSERT(x.va[(size_t)i] == x.a[i] && x.vb[(size_t)i] == x.b[i]);
    V_ASSERT(x.va.data()[i] == x.a[i]);
  }
  const V &cva = x.va;
  V_ASSERT(cva[0] == x.a[0] && cva.data()[D - 1] == x.a[D - 1]);
  V u(x.s), w = V::vectorized(x.s), z(x.va);
  z.vectorize(x.s);
  for (int i = 0; i < D; ++i) V_ASSERT(u[(size_t)i] == x.s && w[(size_t)i] == x.s && z[(size_t)i] == x.s);
  if constexpr (D == 2) { V c(x.a[0], x.a[1]); V_ASSERT(c[0] == x.a[0] && c[1] == x.a[1]); }
  if constexpr (D == 3) { V c(x.a[0], x.a[1], x.a[2]); V_ASSERT(c[0] == x.a[0] && c[1] == x.a[1] && c[2] == x.a[2]); }
  if constexpr (D == 4) { V c(x.a[0], x.a[1], x.a[2], x.a[3]); V_ASSERT(c[0] == x.a[0] && c[1] == x.a[1] && c[2] == x.a[2] && c[3] == x.a[3]); }
  V cp(x.va), as; as = x.vb;
  for (int i = 0; i < D; ++i) V_ASSERT(cp[(size_t)i] == x.a[i] && as[(size_t)i] == x.b[i]);
  // swap (member and free function)
  V p(x.va), q(x.vb);
  p.swap(q);
  for (int i = 0; i < D; ++i) V_ASSERT(p[(size_t)i] == x.b[i] && q[(size_t)i] == x.a[i]);
  swap(p, q);
  for (int i = 0; i < D; ++i) V_ASSERT(p[(size_t)i] == x.a[i] && q[(size_t)i] == x.b[i]);
  // component iterators
  V_ASSERT(*x.va.begin() == x.a[0] && (x.va.end() - x.va.begin()) == D && *x.va.rbegin() == x.a[D - 1]);
  V_ASSERT(*cva.cbegin() == x.a[0] && (cva.cend() - cva.cbegin()) == D && *cva.crbegin() == x.a[D - 1] && (cva.crend() - cva.crbegin()) == D);
  // conversions: component-wise static_cast
  typedef typename std::conditional<std::is_signed<S>::value, unsigned, int>::type O;
  VectorT<O, D> co(x.va); VectorT<O, D> co2; co2 = x.vb;
  VectorT<double, D> cd(x.va); VectorT<long long, D> cl(x.va); VectorT<short, D> cs(x.va);
  for (int i = 0; i < D; ++i) {
    V_ASSERT(co[(size_t)i] == static_cast<O>(x.a[i]) && co2[(size_t)i] == static_cast<O>(x.b[i]));
    V_ASSERT(cd[(size_t)i] == static_cast<double>(x.a[i]));
    V_ASSERT(cl[(size_t)i] == static_cast<long long>(x.a[i]));
    V_ASSERT(cs[(size_t)i] == (short)(unsigned short)((U<S>)x.a[i] & 0xffffu));
  }
  VectorT<S, D> back(cd);   // int -> double -> int is the identity
  for (int i = 0; i < D; ++i) V_ASSERT(back[(size_t)i] == x.a[i]);
  v_witness("ctor/access/conversion");
}

// ------------------------------------------------------------------------------------------------ + - negation, comparison, order
template <class S, int D> static void t_lin() {
  Sym<S, D> x; typedef VectorT<S, D> V;
  V sum = x.va + x.vb, dif = x.va - x.vb, neg = -x.va;
  V pe(x.va); V &r1 = (pe += x.vb);
  V me(x.va); V &r2 = (me -= x.vb);
  V_ASSERT(&r1 == &pe && &r2 == &me);
  for (int i = 0; i < D; ++i) {
    V_ASSERT(sum[(size_t)i] == wadd(x.a[i], x.b[i]));
    V_ASSERT(dif[(size_t)i] == wsub(x.a[i], x.b[i]));
    V_ASSERT(neg[(size_t)i] == wneg(x.a[i]));
    V_ASSERT(pe[(size_t)i] == wadd(x.a[i], x.b[i]) && me[(size_t)i] == wsub(x.a[i], x.b[i]));
    V_ASSERT(x.va[(size_t)i] == x.a[i] && x.vb[(size_t)i] == x.b[i]);   // operands untouched
  }
  bool all_eq = true;
  for (int i = 0; i < D; ++i) if (x.a[i] != x.b[i]) all_eq = false;
  V_ASSERT((x.va == x.vb) == all_eq);
  V_ASSERT((x.va != x.vb) == !all_eq);
  V_ASSERT(x.va == x.va && !(x.va != x.va));
  // lexicographic order: decided by the first differing component
  bool less = false, decided = false;
  for (int i = 0; i < D; ++i) if (!decided && x.a[i] != x.b[i]) { decided = true; less = x.a[i] < x.b[i]; }
  V_ASSERT((x.va < x.vb) == less);
  V_ASSERT(!(x.va < x.va));
  if (all_eq) v_witness("lin: equal vectors");
  if (less) v_witness("lin: lexicographically smaller");
  v_witness("lin: end");
}

// ------------------------------------------------------------------------------------------------ min / max / mean reductions, minimize / maximize
template <class S, int D> static void t_red() {
  Sym<S, D> x; typedef VectorT<S, D> V;
  // max()/min(): an upper/lower bound of all components that is attained
  S mx = x.va.max(), mn = x.va.min();
  bool mx_att = false, mn_att = false;
  for (int i = 0; i < D; ++i) {
    V_ASSERT(mx >= x.a[i] && mn <= x.a[i]);
    if (mx == x.a[i]) mx_att = true;
    if (mn == x.a[i]) mn_att = true;
  }
  V_ASSERT(mx_att && mn_att);
  // mean(): arithmetic mean in Scalar arithmetic = (sum of components) / DIM
  S sum = x.a[0];
  for (int i = 1; i < D; ++i) sum = wadd(sum, x.a[i]);
  V_ASSERT(x.va.mean() == (S)(sum / (S)D));
  // component-wise min/max, minimize/maximize
  V mi = x.va.min(x.vb), ma = x.va.max(x.vb);
  V mz(x.va); V &r1 = mz.minimize(x.vb);
  V xz(x.va); V &r2 = xz.maximize(x.vb);
  V md(x.va); bool fmin = md.minimized(x.vb);
  V xd(x.va); bool fmax = xd.maximized(x.vb);
  V_ASSERT(&r1 == &mz && &r2 == &xz);
  bool some_smaller = false, some_larger = false, min_changed = false, max_changed = false;
  for (int i = 0; i < D; ++i) {
    S lo = x.b[i] < x.a[i] ? x.b[i] : x.a[i], hi = x.b[i] > x.a[i] ? x.b[i] : x.a[i];
    V_ASSERT(mi[(size_t)i] == lo && mz[(size_t)i] == lo && md[(size_t)i] == lo);
    V_ASSERT(ma[(size_t)i] == hi && xz[(size_t)i] == hi && xd[(size_t)i] == hi);
    if (x.b[i] < x.a[i]) some_smaller = true;
    if (x.b[i] > x.a[i]) some_larger = true;
    if (md[(size_t)i] != x.a[i]) min_changed = true;
    if (xd[(size_t)i] != x.a[i]) max_changed = true;
  }
  // the returned flag "signalizes coordinate minimization": only the two unambiguous directions are asserted
  V_ASSERT(!some_smaller || fmin);   // a coordinate really decreased -> signalled
  V_ASSERT(fmin || !min_changed);    // nothing signalled -> nothing changed
  V_ASSERT(!some_larger || fmax);
  V_ASSERT(fmax || !max_changed);
  if (some_smaller) v_witness("red: some coordinate minimized");
  if (!fmin) v_witness("red: nothing minimized");
  v_witness("red: end");
}

// absolute-value reductions (signed only: std::abs is not defined for unsigned). INT_MIN components are excluded
// (|INT_MIN| is not representable); mean_abs is claimed only where sum |x_i| does not overflow (signed overflow is
// undefined and the compiled code exploits it there: the division by DIM becomes an unsigned one).
template <class S, int D> static void t_abs() {
  SymA<S, D> x;
  for (int i = 0; i < D; ++i) v_assume(x.a[i] != std::numeric_limits<S>::min());
  long long exact = 0;
  for (int i = 0; i < D; ++i) exact += x.a[i] < 0 ? -(long long)x.a[i] : (long long)x.a[i];
  bool sum_fits = exact <= (long long)std::numeric_limits<S>::max();
  S mxa = x.va.max_abs(), mna = x.va.min_abs(), l8 = x.va.l8_norm();
  bool mx_att = false, mn_att = false;
  S asum = wabs(x.a[0]);
  for (int i = 0; i < D; ++i) {
    S ab = wabs(x.a[i]);
    V_ASSERT(mxa >= ab && mna <= ab);
    if (mxa == ab) mx_att = true;
    if (mna == ab) mn_att = true;
    if (i > 0) asum = wadd(asum, ab);
  }
  V_ASSERT(mx_att && mn_att);
  V_ASSERT(l8 == mxa);                                  // L-infinity norm = max |x_i|
  if (sum_fits) V_ASSERT(x.va.mean_abs() == (S)(asum / (S)D));   // (sum |x_i|) / DIM in Scalar arithmetic
  if (sum_fits) v_witness("abs reductions: sum fits");
  v_witness("abs reductions");
}

// L1 (Manhattan) norm = sum of |x_i| (as documented at l1_norm()).
template <class S, int D> static void t_l1() {
  SymA<S, D> x;
  if constexpr (std::is_signed<S>::value) for (int i = 0; i < D; ++i) v_assume(x.a[i] != std::numeric_limits<S>::min());
  S asum = wabs(x.a[0]);
  for (int i = 1; i < D; ++i) asum = wadd(asum, wabs(x.a[i]));
  v_assert(x.va.l1_norm() == asum, "C19 l1_norm() == sum of |x_i| (L1 / Manhattan norm)");
  v_witness("l1 norm");
}

// ------------------------------------------------------------------------------------------------ products
template <class S, int D> static void t_mul() {
  Sym<S, D> x; typedef VectorT<S, D> V;
  V cw = x.va * x.vb, sr = x.va * x.s, sl = x.s * x.va;
  V ce(x.va); V &r1 = (ce *= x.vb);
  V se(x.va); V &r2 = (se *= x.s);
  V_ASSERT(&r1 == &ce && &r2 == &se);
  S dot = wmul(x.a[0], x.b[0]), sq = wmul(x.a[0], x.a[0]);
  for (int i = 0; i < D; ++i) {
    V_ASSERT(cw[(size_t)i] == wmul(x.a[i], x.b[i]) && ce[(size_t)i] == wmul(x.a[i], x.b[i]));
    V_ASSERT(sr[(size_t)i] == wmul(x.a[i], x.s) && sl[(size_t)i] == wmul(x.a[i], x.s) && se[(size_t)i] == wmul(x.a[i], x.s));
    if (i > 0) { dot = wadd(dot, wmul(x.a[i], x.b[i])); sq = wadd(sq, wmul(x.a[i], x.a[i])); }
  }
  V_ASSERT((x.va | x.vb) == dot);
  V_ASSERT(x.va.dot(x.vb) == dot);
  V_ASSERT(OpenVolumeMesh::Geometry::dot(x.va, x.vb) == dot);
  V_ASSERT(x.va.sqrnorm() == sq);
  v_witness("products");
}

template <class S> static void t_cross() {
  Sym<S, 3> x; typedef VectorT<S, 3> V;
  const S *a = x.a, *b = x.b;
  S c0 = wsub(wmul(a[1], b[2]), wmul(a[2], b[1]));
  S c1 = wsub(wmul(a[2], b[0]), wmul(a[0], b[2]));
  S c2 = wsub(wmul(a[0], b[1]), wmul(a[1], b[0]));
  V p = x.va % x.vb, q = x.va.cross(x.vb), r = cross(x.va, x.vb);
  V_ASSERT(p[0] == c0 && p[1] == c1 && p[2] == c2);
  V_ASSERT(q[0] == c0 && q[1] == c1 && q[2] == c2);
  V_ASSERT(r[0] == c0 && r[1] == c1 && r[2] == c2);
  v_witness("cross product");
}

// ------------------------------------------------------------------------------------------------ division (divisor != 0, no INT_MIN / -1)
template <class S> static inline void assume_div_ok(S n, S d) {
  v_assume(d != 0);
  if constexpr (std::is_signed<S>::value) v_assume(!(n == std::numeric_limits<S>::min() && d == (S)-1));
}
template <class S, int D> static void t_div() {
  Sym<S, D> x; typedef VectorT<S, D> V;
  for (int i = 0; i < D; ++i) { assume_div_ok(x.a[i], x.b[i]); assume_div_ok(x.a[i], x.s); }
  V cw = x.va / x.vb, sr = x.va / x.s;
  V ce(x.va); V &r1 = (ce /= x.vb);
  V se(x.va); V &r2 = (se /= x.s);
  V_ASSERT(&r1 == &ce && &r2 == &se);
  for (int i = 0; i < D; ++i) {
    V_ASSERT(cw[(size_t)i] == (S)(x.a[i] / x.b[i]) && ce[(size_t)i] == (S)(x.a[i] / x.b[i]));
    V_ASSERT(sr[(size_t)i] == (S)(x.a[i] / x.s) && se[(size_t)i] == (S)(x.a[i] / x.s));
  }
  if constexpr (D == 4) {
    for (int i = 0; i < 3; ++i) assume_div_ok(x.a[i], x.a[3]);
    v_assume(x.a[3] != 0);
    V h = x.va.homogenized();
    V_ASSERT(h[0] == (S)(x.a[0] / x.a[3]) && h[1] == (S)(x.a[1] / x.a[3]) && h[2] == (S)(x.a[2] / x.a[3]) && h[3] == (S)1);
  }
  v_witness("division");
}

// ------------------------------------------------------------------------------------------------ euclidean norm (modulo the sqrt stub)
// std::sqrt is an uninterpreted function shared by the implementation and this oracle.
template <class S, int D> static void t_norm() {
  SymA<S, D> x; typedef VectorT<S, D> V;
  S sq = wmul(x.a[0], x.a[0]);
  for (int i = 1; i < D; ++i) sq = wadd(sq, wmul(x.a[i], x.a[i]));
  double n = std::sqrt((double)sq);
  double got = x.va.norm(), got2 = x.va.length();
  V_ASSERT(got == n || (got != got && n != n));
  V_ASSERT(got2 == n || (got2 != got2 && n != n));
  v_witness("norm");
}

#define ENTRIES(S, D, tag) \
  extern "C" void harness_ctor_##tag() { t_ctor<S, D>(); } \
  extern "C" void harness_lin_##tag() { t_lin<S, D>(); } \
  extern "C" void harness_red_##tag() { t_red<S, D>(); } \
  extern "C" void harness_l1_##tag() { t_l1<S, D>(); } \
  extern "C" void harness_mul_##tag() { t_mul<S, D>(); } \
  extern "C" void harness_div_##tag() { t_div<S, D>(); } \
  extern "C" void harness_norm_##tag() { t_norm<S, D>(); }
ENTRIES(int, 2, i2) ENTRIES(int, 3, i3) ENTRIES(int, 4, i4)
ENTRIES(unsigned, 2, u2) ENTRIES(unsigned, 3, u3) ENTRIES(unsigned, 4, u4)
extern "C" void harness_abs_i2() { t_abs<int, 2>(); }
extern "C" void harness_abs_i3() { t_abs<int, 3>(); }
extern "C" void harness_abs_i4() { t_abs<int, 4>(); }
extern "C" void harness_cross_i3() { t_cross<int>(); }
extern "C" void harness_cross_u3() { t_cross<unsigned>(); }
