// Reference model of the renumbering operations on plain snapshots (mesh_common.h: Snap).
// Written from the documented behaviour: deletion removes the upward closure; immediate deletion shifts all
// following handles down by one ("accessible through their old handle decreased by one"), fast deletion swaps
// the victim with the last entity first, deferred deletion only sets flags; swaps are transpositions.
#pragma once
#include "mesh_common.h"

enum Kind { K_V = 0, K_E = 1, K_F = 2, K_C = 3 };

// ---- transpositions (C17) ---------------------------------------------------------------------
static inline int tr(int x, int a, int b) { return x == a ? b : (x == b ? a : x); }
static inline int tr_half(int h, int a, int b) { return 2 * tr(h >> 1, a, b) + (h & 1); }

static void ref_swap_v(Snap &s, int a, int b) {
  for (int e = 0; e < s.nE; ++e) { s.efrom[e] = tr(s.efrom[e], a, b); s.eto[e] = tr(s.eto[e], a, b); }
  bool t = s.vdel[a]; s.vdel[a] = s.vdel[b]; s.vdel[b] = t;
  int i = s.vid[a]; s.vid[a] = s.vid[b]; s.vid[b] = i;
}
static void ref_swap_e(Snap &s, int a, int b) {
  for (int f = 0; f < s.nF; ++f) for (int k = 0; k < s.fval[f]; ++k) s.fhe[f][k] = tr_half(s.fhe[f][k], a, b);
  int t;
  t = s.efrom[a]; s.efrom[a] = s.efrom[b]; s.efrom[b] = t;
  t = s.eto[a]; s.eto[a] = s.eto[b]; s.eto[b] = t;
  bool d = s.edel[a]; s.edel[a] = s.edel[b]; s.edel[b] = d;
  int i = s.eid[a]; s.eid[a] = s.eid[b]; s.eid[b] = i;
}
static void ref_swap_f(Snap &s, int a, int b) {
  for (int c = 0; c < s.nC; ++c) for (int k = 0; k < s.cval[c]; ++k) s.chf[c][k] = tr_half(s.chf[c][k], a, b);
  for (int k = 0; k < MAXFV; ++k) { int t = s.fhe[a][k]; s.fhe[a][k] = s.fhe[b][k]; s.fhe[b][k] = t; }
  int t = s.fval[a]; s.fval[a] = s.fval[b]; s.fval[b] = t;
  bool d = s.fdel[a]; s.fdel[a] = s.fdel[b]; s.fdel[b] = d;
  int i = s.fid[a]; s.fid[a] = s.fid[b]; s.fid[b] = i;
}
static void ref_swap_c(Snap &s, int a, int b) {
  for (int k = 0; k < MAXCV; ++k) { int t = s.chf[a][k]; s.chf[a][k] = s.chf[b][k]; s.chf[b][k] = t; }
  int t = s.cval[a]; s.cval[a] = s.cval[b]; s.cval[b] = t;
  bool d = s.cdel[a]; s.cdel[a] = s.cdel[b]; s.cdel[b] = d;
  int i = s.cid[a]; s.cid[a] = s.cid[b]; s.cid[b] = i;
}

// ---- removal of one entity whose dependants are already gone, order-preserving ---------------------
static inline int sh(int x, int h) { return x > h ? x - 1 : x; }
static inline int sh_half(int x, int h) { return 2 * sh(x >> 1, h) + (x & 1); }
static void ref_remove_v(Snap &s, int h) {
  for (int e = 0; e < s.nE; ++e) { s.efrom[e] = sh(s.efrom[e], h); s.eto[e] = sh(s.eto[e], h); }
  for (int i = h; i + 1 < s.nV; ++i) { s.vdel[i] = s.vdel[i + 1]; s.vid[i] = s.vid[i + 1]; }
  --s.nV;
}
static void ref_remove_e(Snap &s, int h) {
  for (int f = 0; f < s.nF; ++f) for (int k = 0; k < s.fval[f]; ++k) s.fhe[f][k] = sh_half(s.fhe[f][k], h);
  for (int i = h; i + 1 < s.nE; ++i) { s.efrom[i] = s.efrom[i + 1]; s.eto[i] = s.eto[i + 1]; s.edel[i] = s.edel[i + 1]; s.eid[i] = s.eid[i + 1]; }
  --s.nE;
}
static void ref_remove_f(Snap &s, int h) {
  for (int c = 0; c < s.nC; ++c) for (int k = 0; k < s.cval[c]; ++k) s.chf[c][k] = sh_half(s.chf[c][k], h);
  for (int i = h; i + 1 < s.nF; ++i) { s.fval[i] = s.fval[i + 1]; s.fdel[i] = s.fdel[i + 1]; s.fid[i] = s.fid[i + 1]; for (int k = 0; k < MAXFV; ++k) s.fhe[i][k] = s.fhe[i + 1][k]; }
  --s.nF;
}
static void ref_remove_c(Snap &s, int h) {
  for (int i = h; i + 1 < s.nC; ++i) { s.cval[i] = s.cval[i + 1]; s.cdel[i] = s.cdel[i + 1]; s.cid[i] = s.cid[i + 1]; for (int k = 0; k < MAXCV; ++k) s.chf[i][k] = s.chf[i + 1][k]; }
  --s.nC;
}
// physically remove entity h of the given kind: fast = swap with last then drop the last
static void ref_remove(Snap &s, int kind, int h, bool fast) {
  switch (kind) {
  case K_V: if (fast) { ref_swap_v(s, h, s.nV - 1); h = s.nV - 1; } ref_remove_v(s, h); break;
  case K_E: if (fast) { ref_swap_e(s, h, s.nE - 1); h = s.nE - 1; } ref_remove_e(s, h); break;
  case K_F: if (fast) { ref_swap_f(s, h, s.nF - 1); h = s.nF - 1; } ref_remove_f(s, h); break;
  case K_C: if (fast) { ref_swap_c(s, h, s.nC - 1); h = s.nC - 1; } ref_remove_c(s, h); break;
  }
}

// ---- upward closure of a live entity over the LIVE entities ---------------------------------------
struct Closure { bool v[MAXV], e[MAXE], f[MAXF], c[MAXC]; };
static void ref_closure(const Snap &s, int kind, int h, Closure &cl) {
  for (int i = 0; i < MAXV; ++i) cl.v[i] = false;
  for (int i = 0; i < MAXE; ++i) cl.e[i] = false;
  for (int i = 0; i < MAXF; ++i) cl.f[i] = false;
  for (int i = 0; i < MAXC; ++i) cl.c[i] = false;
  if (kind == K_V) cl.v[h] = true; else if (kind == K_E) cl.e[h] = true; else if (kind == K_F) cl.f[h] = true; else cl.c[h] = true;
  if (kind == K_V) for (int e = 0; e < s.nE; ++e) if (!s.edel[e] && (s.efrom[e] == h || s.eto[e] == h)) cl.e[e] = true;
  if (kind <= K_E) for (int f = 0; f < s.nF; ++f) if (!s.fdel[f]) for (int k = 0; k < s.fval[f]; ++k) if (cl.e[s.fhe[f][k] >> 1]) cl.f[f] = true;
  if (kind <= K_F) for (int c = 0; c < s.nC; ++c) if (!s.cdel[c]) for (int k = 0; k < s.cval[c]; ++k) if (cl.f[s.chf[c][k] >> 1]) cl.c[c] = true;
}

// delete entity (kind,h) in the given mode (bit0 deferred, bit1 fast); descending order within each kind
static void ref_delete(Snap &s, int kind, int h, unsigned mode) {
  Closure cl; ref_closure(s, kind, h, cl);
  bool deferred = (mode & 1) != 0, fast = (mode & 2) != 0;
  if (deferred) {
    for (int i = 0; i < s.nC; ++i) if (cl.c[i]) s.cdel[i] = true;
    for (int i = 0; i < s.nF; ++i) if (cl.f[i]) s.fdel[i] = true;
    for (int i = 0; i < s.nE; ++i) if (cl.e[i]) s.edel[i] = true;
    for (int i = 0; i < s.nV; ++i) if (cl.v[i]) s.vdel[i] = true;
    return;
  }
  for (int i = s.nC - 1; i >= 0; --i) if (cl.c[i]) ref_remove(s, K_C, i, fast);
  for (int i = s.nF - 1; i >= 0; --i) if (cl.f[i]) ref_remove(s, K_F, i, fast);
  for (int i = s.nE - 1; i >= 0; --i) if (cl.e[i]) ref_remove(s, K_E, i, fast);
  for (int i = s.nV - 1; i >= 0; --i) if (cl.v[i]) ref_remove(s, K_V, i, fast);
}
// garbage collection: physically remove everything flagged, cells first, descending
static void ref_collect_garbage(Snap &s, bool fast) {
  for (int i = s.nC - 1; i >= 0; --i) if (s.cdel[i]) { s.cdel[i] = false; ref_remove(s, K_C, i, fast); }
  for (int i = s.nF - 1; i >= 0; --i) if (s.fdel[i]) { s.fdel[i] = false; ref_remove(s, K_F, i, fast); }
  for (int i = s.nE - 1; i >= 0; --i) if (s.edel[i]) { s.edel[i] = false; ref_remove(s, K_E, i, fast); }
  for (int i = s.nV - 1; i >= 0; --i) if (s.vdel[i]) { s.vdel[i] = false; ref_remove(s, K_V, i, fast); }
}
static inline int snap_live(const bool *del, int n) { int c = 0; for (int i = 0; i < n; ++i) if (!del[i]) ++c; return c; }

// ---- comparison of the real mesh's snapshot with the reference at SYMBOLIC probe indices ---------------
// (counts are compared directly; entries at probe indices pv/pe/pf/pc and list position pk chosen by the solver)
// always inlined: every call site keeps its own constant assertion texts (a shared out-of-line copy would receive the texts as
// run-time arguments and the translator could only emit a generic description).
// Stored definitions of deferred-deleted (not yet collected) entities are compared by separate assertions (suffix
// "[deleted entity]"): they are observable through edge()/face()/cell() but no longer part of the logical mesh.
#define ASSERT_SNAP_MATCHES(act, ref, what_counts, what_v, what_e, what_f, what_c) do { \
  v_assert((act).nV == (ref).nV && (act).nE == (ref).nE && (act).nF == (ref).nF && (act).nC == (ref).nC, what_counts); \
  if ((act).nV == (ref).nV && (act).nE == (ref).nE && (act).nF == (ref).nF && (act).nC == (ref).nC) { \
    if ((act).nV > 0) { unsigned p_ = v_nondet_below((unsigned)(act).nV); v_assert((act).vdel[p_] == (ref).vdel[p_], what_v); } \
    if ((act).nE > 0) { unsigned p_ = v_nondet_below((unsigned)(act).nE); \
      v_assert((act).edel[p_] == (ref).edel[p_], what_e " (deleted flag)"); \
      bool same_ = (act).efrom[p_] == (ref).efrom[p_] && (act).eto[p_] == (ref).eto[p_]; \
      if (!(ref).edel[p_]) v_assert(same_, what_e); else v_assert(same_, what_e " [deleted entity]"); } \
    if ((act).nF > 0) { unsigned p_ = v_nondet_below((unsigned)(act).nF), k_ = v_nondet_below(MAXFV); \
      v_assert((act).fdel[p_] == (ref).fdel[p_], what_f " (deleted flag)"); \
      bool same_ = (act).fval[p_] == (ref).fval[p_] && ((int)k_ >= (act).fval[p_] || (act).fhe[p_][k_] == (ref).fhe[p_][k_]); \
      if (!(ref).fdel[p_]) v_assert(same_, what_f); else v_assert(same_, what_f " [deleted entity]"); } \
    if ((act).nC > 0) { unsigned p_ = v_nondet_below((unsigned)(act).nC), k_ = v_nondet_below(MAXCV); \
      v_assert((act).cdel[p_] == (ref).cdel[p_], what_c " (deleted flag)"); \
      bool same_ = (act).cval[p_] == (ref).cval[p_] && ((int)k_ >= (act).cval[p_] || (act).chf[p_][k_] == (ref).chf[p_][k_]); \
      if (!(ref).cdel[p_]) v_assert(same_, what_c); else v_assert(same_, what_c " [deleted entity]"); } \
  } } while (0)
#define assert_snap_matches(act, ref, a, b, c, d, e) ASSERT_SNAP_MATCHES(act, ref, a, b, c, d, e)
