// C02: deleting a live entity removes exactly its upward closure; survivors keep their definitions (under the mode's
// renumbering); counts / logical counts / flags / needs_garbage_collection / genus describe exactly the surviving set.
// shard params: 0 base, 1 deletion mode, 2 deletion kind (OP_DEL_*) or OP_GC / OP_SET_MODE as the checked op, 3 chunk,
// 4 pre-operation (OP_NONE: none), 5 pre-operation's argument index, 7 bottom-up kinds switched OFF before everything (bitmask).
#include "ops.h"
#include "refmodel.h"

static void check_counts(const TopologyKernel &m, const Snap &ref) {
  int lv = snap_live(ref.vdel, ref.nV), le = snap_live(ref.edel, ref.nE), lf = snap_live(ref.fdel, ref.nF), lc = snap_live(ref.cdel, ref.nC);
  v_assert((int)m.n_vertices() == ref.nV && (int)m.n_edges() == ref.nE && (int)m.n_faces() == ref.nF && (int)m.n_cells() == ref.nC, "C02 entity counts describe the surviving set");
  v_assert((int)m.n_halfedges() == 2 * ref.nE && (int)m.n_halffaces() == 2 * ref.nF, "C02 half-entity counts");
  v_assert((int)m.n_logical_vertices() == lv && (int)m.n_logical_edges() == le && (int)m.n_logical_faces() == lf && (int)m.n_logical_cells() == lc, "C02 logical counts == live entities");
  v_assert((int)m.n_logical_halfedges() == 2 * le && (int)m.n_logical_halffaces() == 2 * lf, "C02 logical half-entity counts");
  v_assert(m.needs_garbage_collection() == (lv != ref.nV || le != ref.nE || lf != ref.nF || lc != ref.nC), "C02 needs_garbage_collection iff something is flagged");
  int g = 1 - (lv - le + lf - lc);
  v_assert(m.genus() == ((g % 2 == 0) ? g / 2 : -1), "C02 genus formula over the live entities");
}

static __attribute__((noinline)) void do_case(unsigned i) {
  unsigned base = v_param(0), mode = v_param(1), op = v_param(2), chunk = v_param(3), pre = v_param(4), pre_idx = v_param(5), bu_off = v_param(7);
  TopologyKernel m;
  set_mode(m, mode);
  if (bu_off & 8) apply_op(m, OP_BU_OFF, bu_off & 7, 0);      // bit3: disable before building, else after
  build_base(m, base);
  if (!(bu_off & 8)) apply_op(m, OP_BU_OFF, bu_off & 7, 0);
  unsigned a, b;
  unsigned cur_mode = mode;
  if (pre != OP_NONE) {
    if (pre_idx >= op_arity_count(m, pre)) { v_witness("C02 pre-op outside argument space"); return; }
    op_decode(m, pre, pre_idx, a, b);
    if (!op_valid(m, pre, a, b)) { v_witness("C02 pre-op invalid"); return; }
    apply_op(m, pre, a, b);
    if (pre == OP_SET_MODE) cur_mode = a;
  }
  Snap before; take_snapshot(m, before);
  if (before.overflow) return;
  unsigned idx = chunk * CASES_PER_QUERY + i;
  if (idx >= op_arity_count(m, op)) { v_witness("C02 case outside the op's argument space"); return; }
  op_decode(m, op, idx, a, b);
  if (!op_valid(m, op, a, b)) { v_witness("C02 case with a deleted argument"); return; }
  apply_op(m, op, a, b);
  Snap after; take_snapshot(m, after);
  Snap ref = before;
  switch (op) {
  case OP_DEL_V: ref_delete(ref, K_V, (int)a, cur_mode); break;
  case OP_DEL_E: ref_delete(ref, K_E, (int)a, cur_mode); break;
  case OP_DEL_F: ref_delete(ref, K_F, (int)a, cur_mode); break;
  case OP_DEL_C: ref_delete(ref, K_C, (int)a, cur_mode); break;
  case OP_GC: if (cur_mode & 1) ref_collect_garbage(ref, (cur_mode & 2) != 0); break;
  case OP_SET_MODE: if ((cur_mode & 1) && !(a & 1)) ref_collect_garbage(ref, (cur_mode & 2) != 0); break;  // fast flag is switched AFTER the collection
  case OP_CLEAR: ref.nV = ref.nE = ref.nF = ref.nC = 0; break;
  default: break;
  }
  assert_snap_matches(after, ref, "C02 exactly the upward closure is removed (entity counts)", "C02 vertex deleted-flags", "C02 surviving edge keeps its definition / flag",
                      "C02 surviving face keeps its definition / flag", "C02 surviving cell keeps its definition / flag");
  check_counts(m, ref);
  v_witness("C02 case end");
}

extern "C" void harness_c02() {
  unsigned sel = v_nondet_u32();
  v_assume(sel < CASES_PER_QUERY);
  dispatch<CaseW, CASES_PER_QUERY>(sel);
}
