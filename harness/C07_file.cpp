// C07 (reader level): BinaryFileReader::read_topo_chunk driven through the friend hook ::OVMVerifAccess on SYMBOLIC
// one-entity TOPO chunks, in the state the reader is in after the preceding chunks of a file.
// Obligations (C07): no memory error (CBMC pointer/bounds checks, checks="mem"), the chunk is either rejected (reader state
// leaves ReadingChunks or parse_error) or accepted with every stored handle designating an existing entity; and the
// reader's own handle validation must stay sound after an add_face/add_cell that the kernel rejected.
// The same entry with the C06 flag additionally compares the accepted entity with a reference decoding of the bytes written
// from the published layout (binary_file_format.docu / ovmb.ksy: "handle_offset: a value to add to every contained handle").
// shard params: 0 = handle size in bytes of the chunk data (1, 2, 4), 1 = ReadOptions.topology_check.
#include "verif.h"
#include "mesh_common.h"
#include "vstream.h"
#include <OpenVolumeMesh/IO/detail/BinaryFileReader.hh>
#include <OpenVolumeMesh/IO/detail/exceptions.hh>
using namespace OpenVolumeMesh::IO;
using namespace OpenVolumeMesh::IO::detail;

struct OVMVerifAccess {
  typedef BinaryFileReader R;
  static void prepare(R &r, TopologyKernel &m, bool topo_check, TopoType tt, uint64_t nv, uint64_t ne, uint64_t nf, uint64_t nc,
                      uint64_t rv, uint64_t re, uint64_t rf, uint64_t rc) {
    r.mesh_ = &m; r.options_.topology_check = topo_check;
    r.file_header_.file_version = 1; r.file_header_.header_version = 1; r.file_header_.vertex_dim = 3; r.file_header_.topo_type = tt;
    r.file_header_.n_verts = nv; r.file_header_.n_edges = ne; r.file_header_.n_faces = nf; r.file_header_.n_cells = nc;
    r.state_ = ReadState::ReadingChunks;
    r.n_verts_read_ = rv; r.n_edges_read_ = re; r.n_faces_read_ = rf; r.n_cells_read_ = rc;
  }
  static void topo(R &r, Decoder &d) { r.read_topo_chunk(d); }
  static ReadState state(const R &r) { return r.state_; }
  static uint64_t edges_read(const R &r) { return r.n_edges_read_; }
  static uint64_t faces_read(const R &r) { return r.n_faces_read_; }
  static uint64_t cells_read(const R &r) { return r.n_cells_read_; }
};

static uint8_t g_empty[8];

static void put(std::vector<uint8_t> &b, uint64_t v, unsigned n) { for (unsigned i = 0; i < 8; ++i) if (i < n) b.push_back((uint8_t)(v >> (8 * i))); }
// TOPO chunk payload: ArraySpan{first,count} entity valence valence_encoding handle_encoding handle_offset, then the data bytes
static void topo_header(std::vector<uint8_t> &b, uint64_t first, uint32_t count, uint8_t entity, uint8_t valence, uint8_t venc, uint8_t henc, uint64_t hoff) {
  put(b, first, 8); put(b, count, 4); b.push_back(entity); b.push_back(valence); b.push_back(venc); b.push_back(henc); put(b, hoff, 8);
}
// reference decoding of handle k of the data (published layout): little-endian, henc bytes each, plus handle_offset
static uint64_t ref_handle(const uint8_t *data, unsigned k, unsigned hsize, uint64_t hoff) {
  uint64_t v = 0;
  for (unsigned i = 0; i < 4; ++i) if (i < hsize) v |= (uint64_t)data[k * hsize + i] << (8 * i);
  return v + hoff;
}

// returns true when the reader accepted the chunk (no exception, state still ReadingChunks)
static bool run_chunk(BinaryFileReader &r, std::vector<uint8_t> &bytes) {
  Decoder dec(std::move(bytes));
  bool thrown = false;
  try { OVMVerifAccess::topo(r, dec); } catch (const parse_error &) { thrown = true; } catch (const std::exception &) { thrown = true; }
  return !thrown && OVMVerifAccess::state(r) == ReadState::ReadingChunks;
}

// ---- one EDGE chunk on a mesh with 4 vertices read so far
static void edge_chunk(bool c06) {
  unsigned hsize = v_param(0);   // bytes per handle present in the data
  TopologyKernel m; m.enable_bottom_up_incidences(false); m.add_n_vertices(4);
  VIn in(g_empty, 0, ~0ull);
  PropertyCodecs codecs; ReadOptions opt;
  BinaryFileReader r(in.stream(), opt, codecs);
  OVMVerifAccess::prepare(r, m, v_param(1) != 0, TopoType::Polyhedral, 4, 1, 0, 0, 4, 0, 0, 0);
  uint64_t first = v_nondet_u64(), hoff = v_nondet_u64(); uint8_t henc = v_nondet_u8();
  uint8_t data[8];
  std::vector<uint8_t> bytes; bytes.reserve(40);
  topo_header(bytes, first, 1, 1 /*edge*/, 2, 0 /*None*/, henc, hoff);
  for (unsigned i = 0; i < 8; ++i) if (i < 2 * hsize) { data[i] = v_nondet_u8(); bytes.push_back(data[i]); }
  bool accepted = run_chunk(r, bytes);
  if (accepted) {
    v_assert(m.n_edges() == 1 && OVMVerifAccess::edges_read(r) == 1, "C07 reader: accepted one-edge chunk adds exactly one edge");
    if (m.n_edges() == 1) {
      int from = m.edge(EH(0)).from_vertex().idx(), to = m.edge(EH(0)).to_vertex().idx();
      v_assert(from >= 0 && from < 4 && to >= 0 && to < 4, "C07 reader: every vertex handle stored by an accepted edge chunk designates an existing vertex");
      if (c06) {
        v_assert(henc == hsize, "C06 reader vs format: accepted chunk has the handle encoding its byte count implies");
        uint64_t rf = ref_handle(data, 0, hsize, hoff), rt = ref_handle(data, 1, hsize, hoff);
        v_assert((uint64_t)from == rf && (uint64_t)to == rt, "C06 reader vs format: edge vertices = stored handles + handle_offset (published TopoChunkHeader)");
        v_assert(first == 0, "C06 reader vs format: span resumes at the number of edges read so far");
      }
    }
    v_witness("C07 edge chunk accepted");
  } else {
    if (c06) {
      // a chunk that is valid under the published layout must not be rejected
      bool valid = henc == hsize && first == 0 && hoff <= 3 && ref_handle(data, 0, hsize, hoff) < 4 && ref_handle(data, 1, hsize, hoff) < 4;
      v_assert(!valid, "C06 reader vs format: an edge chunk that is valid under the published layout (in-range handles after adding handle_offset) is accepted");
    }
    v_witness("C07 edge chunk rejected");
  }
}
extern "C" void harness_edge_chunk() { edge_chunk(false); }
extern "C" void harness_c06_edge_chunk() { edge_chunk(true); }

// ---- one FACE chunk (valence 3) on the single-tet vertex/edge state, followed by one CELL chunk that refers to the
//      halffaces of that face: the reader's range check uses its own count of faces read
static void build_edges(TopologyKernel &m) {
  m.enable_bottom_up_incidences(false); m.add_n_vertices(4);
  m.add_edge(VH(0), VH(1), true); m.add_edge(VH(1), VH(2), true); m.add_edge(VH(2), VH(0), true);
  m.add_edge(VH(0), VH(3), true); m.add_edge(VH(3), VH(1), true); m.add_edge(VH(3), VH(2), true);
}
extern "C" void harness_face_then_cell() {
  bool topo_check = v_param(1) != 0;
  TopologyKernel m; build_edges(m);
  VIn in(g_empty, 0, ~0ull);
  PropertyCodecs codecs; ReadOptions opt;
  BinaryFileReader r(in.stream(), opt, codecs);
  OVMVerifAccess::prepare(r, m, topo_check, TopoType::Polyhedral, 4, 6, 1, 1, 4, 6, 0, 0);
  // FACE chunk: one triangle, three symbolic 1-byte halfedge handles, symbolic handle_offset
  uint64_t hoff = v_nondet_u64();
  uint8_t h[3];
  std::vector<uint8_t> fb; fb.reserve(32);
  topo_header(fb, 0, 1, 2 /*face*/, 3, 0, 1 /*U8*/, hoff);
  for (unsigned i = 0; i < 3; ++i) { h[i] = v_nondet_u8(); fb.push_back(h[i]); }
  bool face_ok = run_chunk(r, fb);
  if (!face_ok) { v_witness("C07 face chunk rejected"); return; }
  // accepted by the reader: the mesh must contain the face the reader counted, with in-range halfedges
  v_assert(OVMVerifAccess::faces_read(r) == m.n_faces(), "C07 reader: number of faces counted as read equals the number of faces in the mesh (basis of later handle validation)");
  if (m.n_faces() == 1) {
    const std::vector<HEH> &hes = m.face(FH(0)).halfedges();
    bool inr = hes.size() == 3;
    for (unsigned i = 0; i < 3; ++i) if (i < hes.size() && !(hes[i].idx() >= 0 && hes[i].idx() < 12)) inr = false;
    v_assert(inr, "C07 reader: every halfedge handle stored by an accepted face chunk designates an existing halfedge");
  }
  // CELL chunk: one cell made of the two halffaces of face 0 (handles 0 and 1 are < 2 * faces counted as read)
  std::vector<uint8_t> cb; cb.reserve(32);
  topo_header(cb, 0, 1, 3 /*cell*/, 2, 0, 1 /*U8*/, 0);
  cb.push_back(0); cb.push_back(1);
  bool cell_ok = run_chunk(r, cb);   // memory-safety obligations of add_cell are checked by CBMC here
  if (cell_ok && m.n_cells() == 1) {
    const std::vector<HFH> &hfs = m.cell(CH(0)).halffaces();
    bool inr = true;
    for (unsigned i = 0; i < 2; ++i) if (i < hfs.size() && !(hfs[i].idx() >= 0 && (size_t)hfs[i].idx() < 2 * m.n_faces())) inr = false;
    v_assert(inr, "C07 reader: every halfface handle stored by an accepted cell chunk designates an existing halfface");
  }
  v_witness("C07 face then cell end");
}

// ---- CELL chunk with SYMBOLIC halfface handle bytes and SYMBOLIC 64-bit handle_offset after one accepted face:
//      the range check must apply to (stored byte + handle_offset), the value that becomes the handle
extern "C" void harness_cell_chunk_sym() {
  bool topo_check = v_param(1) != 0;
  TopologyKernel m; build_edges(m);
  m.enable_bottom_up_incidences(false);   // as the reader does before reading chunks
  VIn in(g_empty, 0, ~0ull);
  PropertyCodecs codecs; ReadOptions opt;
  BinaryFileReader r(in.stream(), opt, codecs);
  OVMVerifAccess::prepare(r, m, topo_check, TopoType::Polyhedral, 4, 6, 1, 1, 4, 6, 0, 0);
  std::vector<uint8_t> fb; fb.reserve(32);
  topo_header(fb, 0, 1, 2 /*face*/, 3, 0, 1 /*U8*/, 0);
  fb.push_back(0); fb.push_back(2); fb.push_back(4);          // triangle (0,1,2): halfedges 0,2,4 of build_edges
  bool face_ok = run_chunk(r, fb);
  v_assert(face_ok && m.n_faces() == 1, "C07 harness: the valid face chunk is accepted");
  if (!face_ok || m.n_faces() != 1) return;
  uint64_t hoff = v_nondet_u64(); uint8_t c0 = v_nondet_u8(), c1 = v_nondet_u8();
  std::vector<uint8_t> cb; cb.reserve(32);
  topo_header(cb, 0, 1, 3 /*cell*/, 2, 0, 1 /*U8*/, hoff);
  cb.push_back(c0); cb.push_back(c1);
  bool cell_ok = run_chunk(r, cb);
  if (!cell_ok) { v_witness("C07 symbolic cell chunk rejected"); return; }
  v_assert(m.n_cells() == 1, "C07 reader: an accepted one-cell chunk adds exactly one cell");
  if (m.n_cells() == 1) {
    const std::vector<HFH> &hfs = m.cell(CH(0)).halffaces();
    bool inr = hfs.size() == 2;
    for (unsigned i = 0; i < 2; ++i) if (i < hfs.size() && !(hfs[i].idx() >= 0 && hfs[i].idx() < 2)) inr = false;
    v_assert(inr, "C07 reader: every halfface handle stored by an accepted cell chunk designates an existing halfface (stored byte + handle_offset < 2 * faces read)");
    uint64_t e0 = (uint64_t)c0 + hoff, e1 = (uint64_t)c1 + hoff;
    if (hfs.size() == 2) v_assert((uint64_t)hfs[0].idx() == e0 && (uint64_t)hfs[1].idx() == e1, "C07 reader: stored halfface handle == file value + handle_offset (published format)");
  }
  v_witness("C07 symbolic cell chunk accepted");
}

// ---- EDGE chunk, vertex handle bytes a, b and handle_offset from a BOUNDARY SET, enumerated through a symbolic selector (8 cases per query):
//      a, b in {0, 3, 4, 255}, handle_offset in {0, 1, 4, 2^64-1}: 64 cases (v_param(2) = block of 8).  The fully symbolic variants
//      (harness_edge_chunk: no verdict in 600 s; two symbolic bytes + symbolic offset: no verdict in 900 s) explode in read_edges'
//      error path, which formats the symbolic 64-bit handles into its message (std::to_string, inlined digit loops).
static void edge_case(unsigned idx) {
  static const uint8_t HB[4] = {0, 3, 4, 255};
  static const uint64_t HO[4] = {0ull, 1ull, 4ull, ~0ull};
  if (idx >= 64) return;
  const uint8_t a = HB[idx & 3], b = HB[(idx >> 2) & 3]; const uint64_t hoff = HO[(idx >> 4) & 3];
  TopologyKernel m; m.enable_bottom_up_incidences(false); m.add_n_vertices(4);
  VIn in(g_empty, 0, ~0ull);
  PropertyCodecs codecs; ReadOptions opt;
  BinaryFileReader r(in.stream(), opt, codecs);
  OVMVerifAccess::prepare(r, m, v_param(1) != 0, TopoType::Polyhedral, 4, 1, 0, 0, 4, 0, 0, 0);
  std::vector<uint8_t> bytes; bytes.reserve(40);
  topo_header(bytes, 0, 1, 1 /*edge*/, 2, 0 /*None*/, 1 /*U8*/, hoff);
  bytes.push_back(a); bytes.push_back(b);
  bool accepted = run_chunk(r, bytes);
  const uint64_t ea = (uint64_t)a + hoff, eb = (uint64_t)b + hoff;   // wraps for hoff = 2^64-1: 255 + hoff = 254, 4 + hoff = 3, ...
  const bool valid = ea < 4 && eb < 4;
  if (!accepted) {
    v_assert(!valid, "C06 reader vs format: an edge chunk that is valid under the published layout (in-range handles after adding handle_offset) is accepted");
    v_witness("C07 boundary edge chunk rejected"); return;
  }
  v_assert(m.n_edges() == 1 && OVMVerifAccess::edges_read(r) == 1, "C07 reader: accepted one-edge chunk adds exactly one edge");
  if (m.n_edges() == 1) {
    int from = m.edge(EH(0)).from_vertex().idx(), to = m.edge(EH(0)).to_vertex().idx();
    v_assert(from >= 0 && from < 4 && to >= 0 && to < 4, "C07 reader: every vertex handle stored by an accepted edge chunk designates an existing vertex");
    v_assert((uint64_t)from == ea && (uint64_t)to == eb, "C07 reader: stored vertex handle == file value + handle_offset (published format)");
  }
  v_witness("C07 boundary edge chunk accepted");
}
static void do_case(unsigned i) { edge_case(v_param(2) * 8 + i); }
extern "C" void harness_edge_chunk_enum() {
  unsigned sel = v_nondet_u32();
  v_assume(sel < 8);
  dispatch<CaseW, 8>(sel);
}
