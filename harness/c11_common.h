// C11 helpers: brute-force acceptance predicates over the snapshot and before/after comparison.
#pragma once
#include "mesh_common.h"

static inline int c11_below(int n) { unsigned x = v_nondet_u32(); v_assume(x < (unsigned)n); return (int)x; }

// everything stored before is still there, unchanged (b may have MORE entities than a at the end of each kind)
static inline bool c11_prefix_equal(const Snap &a, const Snap &b) {
  if (b.nV < a.nV || b.nE < a.nE || b.nF < a.nF || b.nC < a.nC) return false;
  bool ok = true;
  for (int i = 0; i < a.nV; ++i) if (a.vdel[i] != b.vdel[i]) ok = false;
  for (int i = 0; i < a.nE; ++i) if (a.efrom[i] != b.efrom[i] || a.eto[i] != b.eto[i] || a.edel[i] != b.edel[i]) ok = false;
  for (int i = 0; i < a.nF; ++i) { if (a.fval[i] != b.fval[i] || a.fdel[i] != b.fdel[i]) ok = false; else for (int k = 0; k < a.fval[i]; ++k) if (a.fhe[i][k] != b.fhe[i][k]) ok = false; }
  for (int i = 0; i < a.nC; ++i) { if (a.cval[i] != b.cval[i] || a.cdel[i] != b.cdel[i]) ok = false; else for (int k = 0; k < a.cval[i]; ++k) if (a.chf[i][k] != b.chf[i][k]) ok = false; }
  return ok;
}
static inline bool c11_same_counts(const Snap &a, const Snap &b) { return a.nV == b.nV && a.nE == b.nE && a.nF == b.nF && a.nC == b.nC; }
// the API-level counters agree with the snapshot (n_halfedges/n_halffaces/logical counts are part of the observable state)
static inline bool c11_counts_consistent(const TopologyKernel &m, const Snap &s, int ndelV, int ndelE, int ndelF, int ndelC) {
  return (int)m.n_vertices() == s.nV && (int)m.n_edges() == s.nE && (int)m.n_faces() == s.nF && (int)m.n_cells() == s.nC &&
         (int)m.n_halfedges() == 2 * s.nE && (int)m.n_halffaces() == 2 * s.nF &&
         (int)m.n_logical_vertices() == s.nV - ndelV && (int)m.n_logical_edges() == s.nE - ndelE && (int)m.n_logical_faces() == s.nF - ndelF && (int)m.n_logical_cells() == s.nC - ndelC;
}
static inline void c11_count_deleted(const Snap &s, int &dv, int &de, int &df, int &dc) {
  dv = de = df = dc = 0;
  for (int i = 0; i < s.nV; ++i) if (s.vdel[i]) ++dv;
  for (int i = 0; i < s.nE; ++i) if (s.edel[i]) ++de;
  for (int i = 0; i < s.nF; ++i) if (s.fdel[i]) ++df;
  for (int i = 0; i < s.nC; ++i) if (s.cdel[i]) ++dc;
}

// ---- add_face: the list is a closed loop: every halfedge ends where the next one starts, the last one where the first starts
static inline bool c11_closed_loop(const Snap &s, const int *h, int n) {
  if (n <= 0) return false;
  bool ok = true;
  for (int i = 0; i < n; ++i) if (snap_he_to(s, h[i]) != snap_he_from(s, h[(i + 1) % n])) ok = false;
  return ok;
}
// ---- add_cell: every halfedge of the listed halffaces occurs exactly once, and its opposite occurs (exactly once) too
static inline bool c11_closed_surface(const Snap &s, const int *g, int n) {
  if (n <= 0) return false;
  int cnt[2 * MAXE];
  for (int h = 0; h < 2 * s.nE; ++h) cnt[h] = 0;
  for (int i = 0; i < n; ++i) for (int k = 0; k < s.fval[g[i] >> 1]; ++k) ++cnt[snap_hf_he(s, g[i], k)];
  bool ok = true;
  for (int h = 0; h < 2 * s.nE; ++h) if (cnt[h] > 1 || cnt[h] != cnt[h ^ 1]) ok = false;
  return ok;
}
