// C15 (tetrahedral kernel): base meshes built through the TETRAHEDRAL kernel's own API, brute-force reference helpers over the
// snapshot of the stored top-down definitions (mesh_common.h), permutation parity, independent label tables.
#pragma once
#include "mesh_common.h"
#include <OpenVolumeMesh/Mesh/TetrahedralMeshTopologyKernel.hh>

typedef TetrahedralMeshTopologyKernel TetMesh;

// --------------------------------------------------------------------------- bases
// T_ONE    1 tet                               4V  6E 4F 1C
// T_FACE   2 tets sharing face {0,1,2}         5V  9E 7F 2C   (second cell sees the shared face in the opposite rotation)
// T_RING   3 tets closed around edge {0,1}     5V 10E 9F 3C
// T_EDGE   2 tets sharing only edge {0,1}      6V 11E 8F 2C
// T_VERTEX 2 tets sharing only vertex 0        7V 12E 8F 2C
enum TBase { T_ONE = 0, T_FACE = 1, T_RING = 2, T_EDGE = 3, T_VERTEX = 4, N_TBASES = 5 };

static inline CH tcell4(TetMesh &m, int a, int b, int c, int d) { return m.add_cell(VH(a), VH(b), VH(c), VH(d)); }
static inline CH tcellv(TetMesh &m, int a, int b, int c, int d) { return m.add_cell(vec4(VH(a), VH(b), VH(c), VH(d))); }

static void build_tets(TetMesh &m, unsigned b) {
  switch (b) {
  case T_ONE: m.add_n_vertices(4); tcell4(m, 0, 1, 2, 3); break;
  case T_FACE: m.add_n_vertices(5); tcell4(m, 0, 1, 2, 3); tcellv(m, 0, 2, 1, 4); break;
  case T_RING: m.add_n_vertices(5); tcellv(m, 0, 1, 2, 3); tcell4(m, 0, 1, 3, 4); tcellv(m, 0, 1, 4, 2); break;
  case T_EDGE: m.add_n_vertices(6); tcell4(m, 0, 1, 2, 3); tcellv(m, 1, 0, 4, 5); break;
  case T_VERTEX: m.add_n_vertices(7); tcellv(m, 0, 1, 2, 3); tcell4(m, 0, 4, 5, 6); break;
  default: break;
  }
}

// --------------------------------------------------------------------------- brute force on the snapshot
// (constant loop bounds + guards: callable with symbolic indices)
// k-th vertex of halfface hfh = from-vertex of its k-th halfedge (stored definition)
static inline int bf_hf_v(const Snap &s, int hfh, int k) { return snap_he_from(s, snap_hf_he(s, hfh, k)); }
static inline bool bf_hf_has_v(const Snap &s, int hfh, int v) { return bf_hf_v(s, hfh, 0) == v || bf_hf_v(s, hfh, 1) == v || bf_hf_v(s, hfh, 2) == v; }
// position of v in the triangle hfh (-1 if absent)
static inline int bf_hf_pos(const Snap &s, int hfh, int v) { return bf_hf_v(s, hfh, 0) == v ? 0 : (bf_hf_v(s, hfh, 1) == v ? 1 : (bf_hf_v(s, hfh, 2) == v ? 2 : -1)); }
// is every face a triangle, every cell made of 4 halffaces (over ALL stored entities, deleted or not)
static inline bool bf_shape_ok(const Snap &s) {
  bool ok = !s.overflow;
  for (int f = 0; f < MAXF; ++f) if (f < s.nF && s.fval[f] != 3) ok = false;
  for (int c = 0; c < MAXC; ++c) if (c < s.nC && s.cval[c] != 4) ok = false;
  return ok;
}
// the vertex of cell c (valence 4, triangles) that does not lie on its halfface hfh; -1 if none, -2 if several
static inline int bf_apex(const Snap &s, int c, int hfh) {
  int r = -1;
  for (int k = 0; k < 4; ++k) for (int j = 0; j < 3; ++j) {
    int v = bf_hf_v(s, s.chf[c][k], j);
    if (!bf_hf_has_v(s, hfh, v)) { if (r == -1 || r == v) r = v; else r = -2; }
  }
  return r;
}
static inline bool bf_cell_has_v(const Snap &s, int c, int v) {
  bool r = false;
  for (int k = 0; k < 4; ++k) if (bf_hf_has_v(s, s.chf[c][k], v)) r = true;
  return r;
}
// does cell c (4 triangular halffaces) have exactly four distinct vertices: its first halfface has three distinct ones and all other
// vertices on its halffaces are one and the same further vertex
static inline bool bf_cell_4verts(const Snap &s, int c) {
  int F = s.chf[c][0], a = bf_hf_v(s, F, 0), b = bf_hf_v(s, F, 1), d = bf_hf_v(s, F, 2);
  return a != b && b != d && a != d && bf_apex(s, c, F) >= 0;
}
// reference vertex tuple of a cell: vertices of halfface hfh (one of its halffaces) in stored cyclic order from position `start`, then the apex
static inline void bf_tuple(const Snap &s, int c, int hfh, int start, int out[4]) {
  out[0] = bf_hf_v(s, hfh, start % 3); out[1] = bf_hf_v(s, hfh, (start + 1) % 3); out[2] = bf_hf_v(s, hfh, (start + 2) % 3); out[3] = bf_apex(s, c, hfh);
}
// parity (0 even, 1 odd) of the permutation taking tuple p to tuple q; -1 if they are not permutations of 4 distinct values
static inline int perm_parity(const int p[4], const int q[4]) {
  int idx[4];
  for (int i = 0; i < 4; ++i) { idx[i] = -1; for (int j = 0; j < 4; ++j) if (q[i] == p[j]) idx[i] = (idx[i] == -1) ? j : -2; }
  for (int i = 0; i < 4; ++i) if (idx[i] < 0) return -1;
  for (int i = 0; i < 4; ++i) for (int j = i + 1; j < 4; ++j) if (idx[i] == idx[j]) return -1;
  int inv = 0;
  for (int i = 0; i < 4; ++i) for (int j = i + 1; j < 4; ++j) if (idx[i] > idx[j]) ++inv;
  return inv & 1;
}
static inline bool vec_is(const std::vector<VH> &r, int a, int b, int c, int d) {
  return r.size() == 4 && r[0].idx() == a && r[1].idx() == b && r[2].idx() == c && r[3].idx() == d;
}
static inline bool vec_is3(const std::vector<VH> &r, int a, int b, int c) {
  return r.size() == 3 && r[0].idx() == a && r[1].idx() == b && r[2].idx() == c;
}
// live, well-shaped tets only
static inline bool bf_live_tet(const Snap &s, int c) { return c >= 0 && c < s.nC && !s.cdel[c] && s.cval[c] == 4; }

// shape invariants through the PUBLIC API (valence()) for every stored face / cell, plus 4 distinct vertices for live cells
static void check_shape(const TetMesh &m, const Snap &s) {
  v_assert(!s.overflow, "C15 harness capacity (snapshot) suffices");
  if (s.overflow) return;
  for (int f = 0; f < s.nF; ++f) v_assert(m.valence(FH(f)) == 3 && s.fval[f] == 3, "C15 every face of a tetrahedral mesh has three edges");
  for (int c = 0; c < s.nC; ++c) {
    v_assert(m.valence(CH(c)) == 4 && s.cval[c] == 4, "C15 every cell of a tetrahedral mesh has four faces");
    if (s.cval[c] == 4 && !s.cdel[c]) v_assert(bf_cell_4verts(s, c), "C15 every live cell has four distinct vertices");
  }
}
