// C15 (tetrahedral kernel): base meshes built through the TETRAHEDRAL kernel's own API, brute-force reference helpers over the
// snapshot of the stored top-down definitions (mesh_common.h), permutation parity.
#pragma once
#include "mesh_common.h"
#include <OpenVolumeMesh/Mesh/TetrahedralMeshTopologyKernel.hh>

typedef TetrahedralMeshTopologyKernel TetMesh;

// --------------------------------------------------------------------------- bases
// T_ONE    1 tet                               4V  6E 4F 1C
// T_FACE   2 tets sharing face {0,1,2}         5V  9E 7F 2C   (second cell sees the shared face in the opposite rotation)
// T_RING   3 tets closed around edge {0,1}     5V 10E 9F 3C
// T_EDGE   2 tets sharing only edge {0,1}      6V 11E 8F 2C
// T_VERTEX 2 tets sharing only vertex 0        7V 12E 8F 2C
enum TBase { T_ONE = 0, T_FACE = 1, T_RING = 2, T_EDGE = 3, T_VERTEX = 4, N_TBASES = 5 };

static inline CH tcell4(TetMesh &m, int a, int b, int c, int d) { return m.add_cell(VH(a), VH(b), VH(c), VH(d)); }
static inline CH tcellv(TetMesh &m, int a, int b, int c, int d) { return m.add_cell(vec4(VH(a), VH(b), VH(c), VH(d))); }

static void build_tets(TetMesh &m, unsigned b) {
  switch (b) {
  case T_ONE: m.add_n_vertices(4); tcell4(m, 0, 1, 2, 3); break;
  case T_FACE: m.add_n_vertices(5); tcell4(m, 0, 1, 2, 3); tcellv(m, 0, 2, 1, 4); break;
  case T_RING: m.add_n_vertices(5); tcellv(m, 0, 1, 2, 3); tcell4(m, 0, 1, 3, 4); tcellv(m, 0, 1, 4, 2); break;
  case T_EDGE: m.add_n_vertices(6); tcell4(m, 0, 1, 2, 3); tcellv(m, 1, 0, 4, 5); break;
  case T_VERTEX: m.add_n_vertices(7); tcellv(m, 0, 1, 2, 3); tcell4(m, 0, 4, 5, 6); break;
  default: break;
  }
}

// --------------------------------------------------------------------------- reference tables
// The definition side of every oracle: flat GLOBAL arrays derived from the snapshot (which is read off the stored edge / face / cell
// definitions).  Flat 1-D globals on purpose: they are read at SYMBOLIC indices, and CBMC 6.11 mis-evaluates hoisted address
// computations into 2-D arrays inside structs (HARNESS_GUIDE "known traps").  Only meaningful if every face has valence 3 and every
// cell valence 4 (R_ok).
enum { RHF = 2 * MAXF, RHE = 2 * MAXE };
static int R_nV, R_nE, R_nF, R_nC;
static bool R_ok;
static int R_hefrom[RHE], R_heto[RHE];      // halfedge -> from / to vertex
static bool R_edel[MAXE], R_fdel[MAXF], R_cdel[MAXC], R_vdel[MAXV];
static int R_hfhe[RHF * 3];                 // halfface h, position k -> halfedge   (side 1 = reversed list of opposite halfedges)
static int R_hfv[RHF * 3];                  // halfface h, position k -> from-vertex of that halfedge
static int R_chf[MAXC * 4];                 // cell c, position k -> halfface
static int R_ic[RHF];                       // halfface -> the live cell listing it (-1 none, -2 several)

static void ref_build(const Snap &s) {
  R_ok = !s.overflow;
  if (s.overflow) return;
  R_nV = s.nV; R_nE = s.nE; R_nF = s.nF; R_nC = s.nC;
  for (int v = 0; v < s.nV; ++v) R_vdel[v] = s.vdel[v];
  for (int e = 0; e < s.nE; ++e) {
    R_edel[e] = s.edel[e];
    R_hefrom[2 * e] = s.efrom[e]; R_heto[2 * e] = s.eto[e];
    R_hefrom[2 * e + 1] = s.eto[e]; R_heto[2 * e + 1] = s.efrom[e];
  }
  for (int f = 0; f < s.nF; ++f) {
    R_fdel[f] = s.fdel[f];
    if (s.fval[f] != 3) { R_ok = false; continue; }
    for (int k = 0; k < 3; ++k) {
      int h0 = s.fhe[f][k], h1 = s.fhe[f][2 - k] ^ 1;
      R_hfhe[(2 * f) * 3 + k] = h0; R_hfhe[(2 * f + 1) * 3 + k] = h1;
      R_hfv[(2 * f) * 3 + k] = (h0 & 1) ? s.eto[h0 >> 1] : s.efrom[h0 >> 1];
      R_hfv[(2 * f + 1) * 3 + k] = (h1 & 1) ? s.eto[h1 >> 1] : s.efrom[h1 >> 1];
    }
    R_ic[2 * f] = -1; R_ic[2 * f + 1] = -1;
  }
  for (int c = 0; c < s.nC; ++c) {
    R_cdel[c] = s.cdel[c];
    if (s.cval[c] != 4) { R_ok = false; continue; }
    for (int k = 0; k < 4; ++k) {
      int h = s.chf[c][k];
      R_chf[c * 4 + k] = h;
      if (!s.cdel[c]) R_ic[h] = (R_ic[h] == -1) ? c : -2;
    }
  }
}

// helpers: constant loop bounds, single loads from the flat tables -> callable with symbolic indices
static inline int r_he_from(int he) { return R_hefrom[he]; }
static inline int r_he_to(int he) { return R_heto[he]; }
static inline int r_hf_he(int h, int k) { return R_hfhe[h * 3 + k]; }
static inline int r_hf_v(int h, int k) { return R_hfv[h * 3 + k]; }
static inline bool r_hf_has_v(int h, int v) { return r_hf_v(h, 0) == v || r_hf_v(h, 1) == v || r_hf_v(h, 2) == v; }
static inline int r_hf_pos(int h, int v) { return r_hf_v(h, 0) == v ? 0 : (r_hf_v(h, 1) == v ? 1 : (r_hf_v(h, 2) == v ? 2 : -1)); }
static inline int r_hf_pos_he(int h, int he) { return r_hf_he(h, 0) == he ? 0 : (r_hf_he(h, 1) == he ? 1 : (r_hf_he(h, 2) == he ? 2 : -1)); }
static inline int r_chf(int c, int k) { return R_chf[c * 4 + k]; }
static inline bool r_cell_has_hf(int c, int h) { return r_chf(c, 0) == h || r_chf(c, 1) == h || r_chf(c, 2) == h || r_chf(c, 3) == h; }
static inline bool r_cell_has_v(int c, int v) { return r_hf_has_v(r_chf(c, 0), v) || r_hf_has_v(r_chf(c, 1), v) || r_hf_has_v(r_chf(c, 2), v) || r_hf_has_v(r_chf(c, 3), v); }
static inline bool r_live_tet(int c) { return R_ok && c >= 0 && c < R_nC && !R_cdel[c]; }
// the vertex of cell c that does not lie on halfface h; -1 if none, -2 if several
// (noinline: CBMC's unwind counters are per call frame; inlined into an outer loop the nest's back-edges accumulate past --unwind)
static __attribute__((noinline)) int r_apex(int c, int h) {
  int r = -1;
  for (int k = 0; k < 4; ++k) for (int j = 0; j < 3; ++j) {
    int v = r_hf_v(r_chf(c, k), j);
    if (!r_hf_has_v(h, v)) { if (r == -1 || r == v) r = v; else r = -2; }
  }
  return r;
}
// exactly four distinct vertices: the first halfface has three distinct ones and everything else on the cell is one further vertex
static inline bool r_cell_4verts(int c) {
  int F = r_chf(c, 0), a = r_hf_v(F, 0), b = r_hf_v(F, 1), d = r_hf_v(F, 2);
  return a != b && b != d && a != d && r_apex(c, F) >= 0;
}
// reference tuple: vertices of halfface h (of cell c) in stored cyclic order from position `start`, then the apex
static inline void r_tuple(int c, int h, int start, int out[4]) {
  out[0] = r_hf_v(h, start % 3); out[1] = r_hf_v(h, (start + 1) % 3); out[2] = r_hf_v(h, (start + 2) % 3); out[3] = r_apex(c, h);
}
// the cell's halfface whose stored vertex cycle is a rotation of (x,y,z); -1 if none
static __attribute__((noinline)) int r_cell_hf_with_cycle(int c, int x, int y, int z) {
  int r = -1;
  for (int k = 0; k < 4; ++k) {
    int h = r_chf(c, k), p = r_hf_pos(h, x);
    if (p >= 0 && r_hf_v(h, (p + 1) % 3) == y && r_hf_v(h, (p + 2) % 3) == z) r = h;
  }
  return r;
}
static inline bool r_cell_lists_he(int c, int he) {
  bool r = false;
  for (int k = 0; k < 4; ++k) if (r_hf_pos_he(r_chf(c, k), he) >= 0) r = true;
  return r;
}

// parity (0 even, 1 odd) of the permutation taking tuple p to tuple q; -1 if they are not permutations of 4 distinct values
static __attribute__((noinline)) int perm_parity(const int p[4], const int q[4]) {
  int idx[4];
  for (int i = 0; i < 4; ++i) { idx[i] = -1; for (int j = 0; j < 4; ++j) if (q[i] == p[j]) idx[i] = (idx[i] == -1) ? j : -2; }
  for (int i = 0; i < 4; ++i) if (idx[i] < 0) return -1;
  for (int i = 0; i < 4; ++i) for (int j = i + 1; j < 4; ++j) if (idx[i] == idx[j]) return -1;
  int inv = 0;
  for (int i = 0; i < 4; ++i) for (int j = i + 1; j < 4; ++j) if (idx[i] > idx[j]) ++inv;
  return inv & 1;
}
static inline bool vec_is(const std::vector<VH> &r, int a, int b, int c, int d) {
  return r.size() == 4 && r[0].idx() == a && r[1].idx() == b && r[2].idx() == c && r[3].idx() == d;
}
static inline bool vec_is3(const std::vector<VH> &r, int a, int b, int c) {
  return r.size() == 3 && r[0].idx() == a && r[1].idx() == b && r[2].idx() == c;
}

// shape invariants: every stored face has three edges, every stored cell four faces (public API valence() and the stored
// definitions), every live cell four distinct vertices.  Builds the reference tables.
static void check_shape(const TetMesh &m, const Snap &s) {
  v_assert(!s.overflow, "C15 harness capacity (snapshot) suffices");
  ref_build(s);
  if (s.overflow) return;
  for (int f = 0; f < s.nF; ++f) v_assert(m.valence(FH(f)) == 3 && s.fval[f] == 3, "C15 every face of a tetrahedral mesh has three edges");
  for (int c = 0; c < s.nC; ++c) v_assert(m.valence(CH(c)) == 4 && s.cval[c] == 4, "C15 every cell of a tetrahedral mesh has four faces");
  if (R_ok) for (int c = 0; c < s.nC; ++c) if (!s.cdel[c]) v_assert(r_cell_4verts(c), "C15 every live cell has four distinct vertices");
}
