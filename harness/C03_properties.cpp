// C03: property values stay attached to their entities through every renumbering; new entities get the default; exactly one
// element per entity slot.  Values are SYMBOLIC; the expected position of every value comes from the reference model's identity
// tracking (refmodel.h), compared at symbolic probe indices.
// shard params: 0 base, 1 deletion mode, 2 op, 3 chunk, 4 pre-op, 5 pre-op argument index, 7 bottom-up kinds switched OFF (bit3: before building).
#include "ops.h"
#include "refmodel.h"
#ifndef NCASES
#define NCASES 4
#endif

static int  o_iv[MAXV], o_ie[MAXE], o_ihe[2 * MAXE], o_if[MAXF], o_ihf[2 * MAXF], o_ic[MAXC], o_late[MAXE];
static bool o_bv[MAXV], o_bhf[2 * MAXF];

static __attribute__((noinline)) void do_case(unsigned i) {
  unsigned base = v_param(0), mode = v_param(1), op = v_param(2), chunk = v_param(3), pre = v_param(4), pre_idx = v_param(5), bu_off = v_param(7);
  TopologyKernel m;
  set_mode(m, mode);
  if (bu_off & 8) apply_op(m, OP_BU_OFF, bu_off & 7, 0);
  build_base(m, base);
  if (bu_off && !(bu_off & 8)) apply_op(m, OP_BU_OFF, bu_off & 7, 0);
  auto iv = m.request_vertex_property<int>("iv", -7);
  auto ie = m.request_edge_property<int>("ie", -7);
  auto ihe = m.request_halfedge_property<int>("ihe", -7);
  auto iff = m.request_face_property<int>("if", -7);
  auto ihf = m.request_halfface_property<int>("ihf", -7);
  auto ic = m.request_cell_property<int>("ic", -7);
  auto bv = m.request_vertex_property<bool>("bv", true);
  auto bhf = m.request_halfface_property<bool>("bhf", false);
  auto mp = m.request_mesh_property<int>("mp", 3);
  unsigned a, b;
  if (pre != OP_NONE) {
    if (pre_idx >= op_arity_count(m, pre)) { v_witness("C03 pre-op outside argument space"); return; }
    op_decode(m, pre, pre_idx, a, b);
    if (!op_valid(m, pre, a, b)) { v_witness("C03 pre-op invalid"); return; }
    apply_op(m, pre, a, b);
  }
  auto late = m.request_edge_property<int>("late", 11);     // created in the middle of the history
  Snap before; take_snapshot(m, before);
  if (before.overflow) return;
  // symbolic values everywhere
  for (int k = 0; k < before.nV; ++k) { iv[VH(k)] = o_iv[k] = v_nondet_int(); bool t = v_nondet_bool(); bv[VH(k)] = t; o_bv[k] = t; }
  for (int k = 0; k < before.nE; ++k) { ie[EH(k)] = o_ie[k] = v_nondet_int(); late[EH(k)] = o_late[k] = v_nondet_int(); }
  for (int k = 0; k < 2 * before.nE; ++k) ihe[HEH(k)] = o_ihe[k] = v_nondet_int();
  for (int k = 0; k < before.nF; ++k) iff[FH(k)] = o_if[k] = v_nondet_int();
  for (int k = 0; k < 2 * before.nF; ++k) { ihf[HFH(k)] = o_ihf[k] = v_nondet_int(); bool t = v_nondet_bool(); bhf[HFH(k)] = t; o_bhf[k] = t; }
  for (int k = 0; k < before.nC; ++k) ic[CH(k)] = o_ic[k] = v_nondet_int();
  int mpv = v_nondet_int(); mp[MeshHandle(0)] = mpv;
  unsigned idx = chunk * NCASES + i;
  if (idx >= op_arity_count(m, op)) { v_witness("C03 case outside the op's argument space"); return; }
  op_decode(m, op, idx, a, b);
  if (!op_valid(m, op, a, b)) { v_witness("C03 case with invalid argument"); return; }
  apply_op(m, op, a, b);
  // reference renumbering with identity tracking
  Snap ref = before;
  int newV = 0, newE = 0;                  // entities appended by the op (must hold the default)
  switch (op) {
  case OP_DEL_V: ref_delete(ref, K_V, (int)a, mode); break;
  case OP_DEL_E: ref_delete(ref, K_E, (int)a, mode); break;
  case OP_DEL_F: ref_delete(ref, K_F, (int)a, mode); break;
  case OP_DEL_C: ref_delete(ref, K_C, (int)a, mode); break;
  case OP_GC: if (mode & 1) ref_collect_garbage(ref, (mode & 2) != 0); break;
  case OP_SWAP_V: ref_swap_v(ref, (int)a, (int)b); break;
  case OP_SWAP_E: ref_swap_e(ref, (int)a, (int)b); break;
  case OP_SWAP_F: ref_swap_f(ref, (int)a, (int)b); break;
  case OP_SWAP_C: ref_swap_c(ref, (int)a, (int)b); break;
  case OP_ADD_V: newV = 1; break;
  case OP_ADD_NV: newV = 2; break;
  case OP_ADD_E: case OP_ADD_E_DUP: newE = (int)m.n_edges() - before.nE; break;
  default: break;
  }
  const int nV = (int)m.n_vertices(), nE = (int)m.n_edges(), nF = (int)m.n_faces(), nC = (int)m.n_cells();
  v_assert(nV == ref.nV + newV && nE == ref.nE + newE && nF == ref.nF && nC == ref.nC, "C03 harness: reference model agrees on entity counts");
  if (!(nV == ref.nV + newV && nE == ref.nE + newE && nF == ref.nF && nC == ref.nC)) return;
  // exactly one element per entity slot
  v_assert((int)iv.size() == nV && (int)bv.size() == nV, "C03 vertex properties have one element per vertex");
  v_assert((int)ie.size() == nE && (int)late.size() == nE && (int)ihe.size() == 2 * nE, "C03 edge/halfedge properties have one element per (half)edge");
  v_assert((int)iff.size() == nF && (int)ihf.size() == 2 * nF && (int)bhf.size() == 2 * nF, "C03 face/halfface properties have one element per (half)face");
  v_assert((int)ic.size() == nC && (int)mp.size() == 1, "C03 cell/mesh properties have one element per cell / one for the mesh");
  // values follow the entities (symbolic probes)
  if (ref.nV > 0) { unsigned j = v_nondet_below((unsigned)ref.nV); v_assert(iv[VH((int)j)] == o_iv[ref.vid[j]], "C03 int vertex property follows its vertex");
                    v_assert(bv[VH((int)j)] == o_bv[ref.vid[j]], "C03 bool vertex property follows its vertex"); }
  if (ref.nE > 0) { unsigned j = v_nondet_below((unsigned)ref.nE), sd = v_nondet_below(2);
                    v_assert(ie[EH((int)j)] == o_ie[ref.eid[j]] && late[EH((int)j)] == o_late[ref.eid[j]], "C03 int edge properties (incl. one created mid-history) follow their edge");
                    v_assert(ihe[HEH((int)(2 * j + sd))] == o_ihe[2 * ref.eid[j] + (int)sd], "C03 halfedge property follows its halfedge and stays on its side"); }
  if (ref.nF > 0) { unsigned j = v_nondet_below((unsigned)ref.nF), sd = v_nondet_below(2);
                    v_assert(iff[FH((int)j)] == o_if[ref.fid[j]], "C03 int face property follows its face");
                    v_assert(ihf[HFH((int)(2 * j + sd))] == o_ihf[2 * ref.fid[j] + (int)sd], "C03 halfface property follows its halfface and stays on its side");
                    v_assert(bhf[HFH((int)(2 * j + sd))] == o_bhf[2 * ref.fid[j] + (int)sd], "C03 bool halfface property follows its halfface and stays on its side"); }
  if (ref.nC > 0) { unsigned j = v_nondet_below((unsigned)ref.nC); v_assert(ic[CH((int)j)] == o_ic[ref.cid[j]], "C03 int cell property follows its cell"); }
  v_assert(mp[MeshHandle(0)] == mpv, "C03 mesh property keeps its value");
  // new entities hold the default
  for (int k = 0; k < newV; ++k) v_assert(iv[VH(ref.nV + k)] == -7 && bv[VH(ref.nV + k)] == true, "C03 new vertex starts with the property default");
  for (int k = 0; k < newE; ++k) v_assert(ie[EH(ref.nE + k)] == -7 && late[EH(ref.nE + k)] == 11 && ihe[HEH(2 * (ref.nE + k))] == -7 && ihe[HEH(2 * (ref.nE + k) + 1)] == -7, "C03 new edge starts with the property defaults");
  v_witness("C03 case end");
}

extern "C" void harness_c03() {
  unsigned sel = v_nondet_u32();
  v_assume(sel < NCASES);
  dispatch<CaseW, NCASES>(sel);
}

// ---- vertex positions follow the same rule (GeometryKernel) -------------------------------------------------------------
#include <OpenVolumeMesh/Core/GeometryKernel.hh>
#include <OpenVolumeMesh/Geometry/VectorT.hh>
typedef OpenVolumeMesh::Geometry::VectorT<int, 3> Vec3i_;
typedef OpenVolumeMesh::GeometryKernel<Vec3i_, TopologyKernel> GeoMesh;
static int o_px[MAXV], o_py[MAXV], o_pz[MAXV];
template <unsigned I> struct GCase { static __attribute__((noinline)) void run(); };
static void do_geo_case(unsigned i) {
  unsigned base = v_param(0), mode = v_param(1), op = v_param(2), chunk = v_param(3), pre = v_param(4), pre_idx = v_param(5);
  GeoMesh m;
  set_mode(m, mode);
  build_base(m, base);
  unsigned a, b;
  if (pre != OP_NONE) {
    if (pre_idx >= op_arity_count(m, pre)) { v_witness("C03 geo pre-op outside argument space"); return; }
    op_decode(m, pre, pre_idx, a, b);
    if (!op_valid(m, pre, a, b)) { v_witness("C03 geo pre-op invalid"); return; }
    apply_op(m, pre, a, b);
  }
  Snap before; take_snapshot(m, before);
  if (before.overflow) return;
  for (int k = 0; k < before.nV; ++k) { o_px[k] = v_nondet_int(); o_py[k] = v_nondet_int(); o_pz[k] = v_nondet_int(); m.set_vertex(VH(k), Vec3i_(o_px[k], o_py[k], o_pz[k])); }
  unsigned idx = chunk * NCASES + i;
  if (idx >= op_arity_count(m, op)) { v_witness("C03 geo case outside the op's argument space"); return; }
  op_decode(m, op, idx, a, b);
  if (!op_valid(m, op, a, b)) { v_witness("C03 geo case with invalid argument"); return; }
  apply_op(m, op, a, b);
  Snap ref = before; int newV = 0;
  switch (op) {
  case OP_DEL_V: ref_delete(ref, K_V, (int)a, mode); break;
  case OP_DEL_E: ref_delete(ref, K_E, (int)a, mode); break;
  case OP_GC: if (mode & 1) ref_collect_garbage(ref, (mode & 2) != 0); break;
  case OP_SWAP_V: ref_swap_v(ref, (int)a, (int)b); break;
  case OP_ADD_V: newV = 1; break;
  case OP_ADD_NV: newV = 2; break;
  default: break;
  }
  v_assert((int)m.n_vertices() == ref.nV + newV, "C03 harness: reference model agrees on the vertex count");
  if ((int)m.n_vertices() != ref.nV + newV) return;
  if (ref.nV > 0) {
    unsigned j = v_nondet_below((unsigned)ref.nV);
    const Vec3i_ &p = m.vertex(VH((int)j));
    v_assert(p[0] == o_px[ref.vid[j]] && p[1] == o_py[ref.vid[j]] && p[2] == o_pz[ref.vid[j]], "C03 vertex position follows its vertex");
  }
  for (int k = 0; k < newV; ++k) { const Vec3i_ &p = m.vertex(VH(ref.nV + k)); v_assert(p[0] == 0 && p[1] == 0 && p[2] == 0, "C03 new vertex starts at the default position"); }
  v_witness("C03 geo case end");
}
template <unsigned I> void GCase<I>::run() { do_geo_case(I); v_witness("case returned"); }
extern "C" void harness_c03_geom() {
  unsigned sel = v_nondet_u32();
  v_assume(sel < NCASES);
  dispatch<GCase, NCASES>(sel);
}
