// C01: bottom-up incidence queries == brute-force scan of the top-down definitions, after K <= 2 operations on a base mesh.
// shard params: 0 base, 1 deletion mode (bit0 deferred, bit1 fast), 2 op1, 3 chunk of the selected op's argument space,
// 4 op2 (OP_NONE for K=1), 5 fixed argument index of the other op, 6 which op the symbolic selector ranges over (0: op1, 1: op2),
// 7 op3 (K=3; applied with argument index 0, e.g. collect_garbage).
#include "ops.h"
#include "oracle_bu.h"

#ifndef NCASES
#define NCASES CASES_PER_QUERY
#endif
#ifndef ORACLE_LEVEL
#define ORACLE_LEVEL 2
#endif

static __attribute__((noinline)) void do_case(unsigned i) {
  unsigned base = v_param(0), mode = v_param(1), op1 = v_param(2), chunk = v_param(3), op2 = v_param(4), fixed = v_param(5), which = v_param(6), op3 = v_param(7);
  TopologyKernel m;
  set_mode(m, mode);
  build_base(m, base);
  unsigned sel_idx = chunk * NCASES + i;
  unsigned idx1 = which == 0 ? sel_idx : fixed, idx2 = which == 0 ? fixed : sel_idx;
  unsigned a, b;
  if (idx1 >= op_arity_count(m, op1)) { v_witness("C01 case outside the op's argument space"); return; }
  op_decode(m, op1, idx1, a, b);
  if (!op_valid(m, op1, a, b)) { v_witness("C01 case with invalid argument"); return; }
  apply_op(m, op1, a, b);
  if (op2 != OP_NONE) {
    if (idx2 >= op_arity_count(m, op2)) { v_witness("C01 case outside the op's argument space"); return; }
    op_decode(m, op2, idx2, a, b);
    if (!op_valid(m, op2, a, b)) { v_witness("C01 case with invalid argument"); return; }
    apply_op(m, op2, a, b);
  }
  if (op3 != OP_NONE && op_arity_count(m, op3) > 0) { op_decode(m, op3, 0, a, b); if (op_valid(m, op3, a, b)) apply_op(m, op3, a, b); }
  check_bottom_up(m, ORACLE_LEVEL);
  v_witness("C01 case end");
}

extern "C" void harness_c01() {
  unsigned sel = v_nondet_u32();
  v_assume(sel < NCASES);
  dispatch<Case, NCASES>(sel);   // (no per-case completion witnesses here: each costs a SAT call on a 4M-variable formula)
}
