// C01: bottom-up incidence queries == brute-force scan of the top-down definitions, after K operations on a base mesh.
// shard params: 0 = base, 1 = deletion mode (bit0 deferred, bit1 fast), 2 = op kind, 3 = chunk of the op's argument space.
#include "ops.h"
#include "oracle_bu.h"

#ifndef ORACLE_LEVEL
#define ORACLE_LEVEL 2
#endif

static __attribute__((noinline)) void do_case(unsigned i) {
  unsigned base = v_param(0), mode = v_param(1), op = v_param(2), chunk = v_param(3);
  TopologyKernel m;
  set_mode(m, mode);
  build_base(m, base);
  unsigned idx = chunk * CASES_PER_QUERY + i;
  if (idx >= op_arity_count(m, op)) return;
  unsigned a, b; op_decode(m, op, idx, a, b);
  if (!op_valid(m, op, a, b)) return;
  apply_op(m, op, a, b);
#ifdef SECOND_OP
  // K = 2: a second operation of kind v_param(4..) chosen by a second symbolic selector is not dispatched here
#endif
  check_bottom_up(m, ORACLE_LEVEL);
  v_witness("C01 case end");
}

extern "C" void harness_c01() {
  unsigned sel = v_nondet_u32();
  v_assume(sel < CASES_PER_QUERY);
  dispatch<Case, CASES_PER_QUERY>(sel);
}
