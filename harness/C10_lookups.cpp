// C10: lookup queries are sound and complete w.r.t. a brute-force search over the stored definitions, on a base mesh
// after 0 or 1 operations.  The lookups' ARGUMENT TUPLES are free symbolic values (see c10_oracle.h); the operation
// applied before is chosen by selector dispatch.
// shard params: 0 = base, 1 = deletion mode (bit0 deferred, bit1 fast), 2 = op kind (OP_NONE = base as built), 3 = chunk of the op's argument space.
#include "ops.h"
#include "c10_oracle.h"

#ifndef C10_GROUPS
#define C10_GROUPS G_ALL
#endif

static unsigned g_groups = C10_GROUPS;

// extra base of this property: a duplicate edge that was created BEFORE the edge a face is built on
enum { C10_B_DUPFIRST = 100 };
static void c10_build_base(TopologyKernel &m, unsigned base) {
  if (base == C10_B_DUPFIRST) {   // 3V 4E 1F: E0=(0,1), E1=(0,1) duplicate, E2=(1,2), E3=(2,0), F0 = (E1, E2, E3) i.e. vertices 0,1,2
    m.add_n_vertices(3);
    m.add_edge(VH(0), VH(1));
    EH d = m.add_edge(VH(0), VH(1), true);
    EH e = m.add_edge(VH(1), VH(2)), f = m.add_edge(VH(2), VH(0));
    m.add_face(vec3(d.halfedge_handle(0), e.halfedge_handle(0), f.halfedge_handle(0)), true);
    return;
  }
  build_base(m, base);
}

// entity counts of the base family (= specs.py BASE_COUNTS), to skip out-of-range cases before building anything
static const unsigned char BASE_N[N_BASES][4] = {{0,0,0,0},{5,5,1,0},{4,6,4,1},{5,9,7,2},{6,11,8,2},{7,12,8,2},{5,9,9,3},{8,12,6,1},{12,20,11,2},{7,12,9,2},{4,5,2,0},{6,12,10,3}};
static inline unsigned base_op_count(unsigned base, unsigned op) {
  unsigned nv = 3, ne = 4, nf = 1, nc = 0;   // C10_B_DUPFIRST
  if (base < N_BASES) { nv = BASE_N[base][0]; ne = BASE_N[base][1]; nf = BASE_N[base][2]; nc = BASE_N[base][3]; }
  switch (op) {
  case OP_NONE: return 1;
  case OP_DEL_V: return nv; case OP_DEL_E: return ne; case OP_DEL_F: return nf; case OP_DEL_C: return nc;
  case OP_SWAP_V: return nv * nv; case OP_SWAP_E: return ne * ne; case OP_SWAP_F: return nf * nf; case OP_SWAP_C: return nc * nc;
  case OP_GC: case OP_ADD_V: return 1;
  default: return 0;
  }
}

#ifndef C10_PER
#define C10_PER 4   // cases per query (measured: one case = 25 s (B_LOWDIM) .. 60 s (B_TET) .. 110 s (B_TET2_FACE) of symbolic execution)
#endif

static __attribute__((noinline)) void do_case(unsigned i) {
  unsigned base = v_param(0), mode = v_param(1), op = v_param(2), chunk = v_param(3);
  unsigned idx = chunk * C10_PER + i;
  if (i >= C10_PER || idx >= base_op_count(base, op)) return;
  TopologyKernel m;
  set_mode(m, mode);
  c10_build_base(m, base);
  if (op != OP_NONE) {
    V_ASSERT(base_op_count(base, op) == op_arity_count(m, op));   // harness self-check of the table
    unsigned a, b; op_decode(m, op, idx, a, b);
    if (!op_valid(m, op, a, b)) return;
    apply_op(m, op, a, b);
  }
  check_lookups(m, g_groups);
  v_witness("C10 case end");
}

static inline void run_groups(unsigned groups) {
  g_groups = groups;
  unsigned sel = v_nondet_u32();
  v_assume(sel < C10_PER);
  dispatch<Case, C10_PER>(sel);
}

extern "C" void harness_c10() { run_groups(C10_GROUPS); }
// split by lookup family (same cases; smaller queries)
extern "C" void harness_c10_a() { run_groups(G_HE | G_HE_CELL | G_HF_HES | G_HF_CELL | G_HFV | G_INC | G_NVC); }
extern "C" void harness_c10_b() { run_groups(G_HF_VS); }
extern "C" void harness_c10_c() { run_groups(G_HF_EXT); }
