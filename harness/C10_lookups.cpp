// C10: lookup queries are sound and complete w.r.t. a brute-force search over the stored definitions, on a base mesh
// after 0 or 1 operations.  The lookups' ARGUMENT TUPLES are free symbolic values (see c10_oracle.h); the operation
// applied before is chosen by selector dispatch.
// shard params: 0 = base, 1 = deletion mode (bit0 deferred, bit1 fast), 2 = op kind (OP_NONE = base as built), 3 = chunk of the op's argument space.
#include "ops.h"
#include "c10_oracle.h"

#ifndef C10_GROUPS
#define C10_GROUPS G_ALL
#endif

static unsigned g_groups = C10_GROUPS;

static __attribute__((noinline)) void do_case(unsigned i) {
  unsigned base = v_param(0), mode = v_param(1), op = v_param(2), chunk = v_param(3);
  TopologyKernel m;
  set_mode(m, mode);
  build_base(m, base);
  if (op == OP_NONE) {
    if (chunk != 0 || i != 0) return;
  } else {
    unsigned idx = chunk * CASES_PER_QUERY + i;
    if (idx >= op_arity_count(m, op)) return;
    unsigned a, b; op_decode(m, op, idx, a, b);
    if (!op_valid(m, op, a, b)) return;
    apply_op(m, op, a, b);
  }
  check_lookups(m, g_groups);
  v_witness("C10 case end");
}

static inline void run_groups(unsigned groups) {
  g_groups = groups;
  unsigned sel = v_nondet_u32();
  v_assume(sel < CASES_PER_QUERY);
  dispatch<Case, CASES_PER_QUERY>(sel);
}

extern "C" void harness_c10() { run_groups(C10_GROUPS); }
// split by lookup family (same cases; smaller queries)
extern "C" void harness_c10_edges() { run_groups(G_HE | G_HE_CELL | G_INC | G_NVC); }
extern "C" void harness_c10_faces() { run_groups(G_HF_HES | G_HF_VS | G_HF_EXT | G_HF_CELL); }
extern "C" void harness_c10_hfv() { run_groups(G_HFV); }
