// The meshes whose OVMB files are used by the file-level harnesses (C06 c, C07 reader level, C18).
// Shared by the native generator (tools/gen_ovmb.cpp: real writer -> bytes) and by the harnesses
// (which rebuild the same mesh concretely to compare what the reader produced).
#pragma once
#include "mesh_common.h"
#include <OpenVolumeMesh/Mesh/PolyhedralMesh.hh>

typedef OpenVolumeMesh::GeometricPolyhedralMeshV3d VMesh;   // GeometryKernel<Vec3d, TopologyKernel>

enum FileMesh { FM_EMPTY = 0, FM_TET = 1, FM_TETP = 2, N_FILE_MESHES = 3 };

// exactly representable coordinates, all different, some negative
static inline double fm_coord(unsigned v, unsigned d) { double x = (double)(v * 3 + d + 1) * 0.375; return ((v + d) & 1) ? -x : x; }
static inline int fm_prop_value(unsigned v) { return 1000 + 17 * (int)v; }
enum { FM_PROP_DEFAULT = 7 };

static void build_file_mesh(VMesh &m, unsigned which) {
  if (which == FM_EMPTY) return;
  build_base(m, B_TET);   // 4V 6E 4F 1C (mesh_common.h)
  for (unsigned v = 0; v < 4; ++v) m.set_vertex(VH((int)v), OpenVolumeMesh::Geometry::Vec3d(fm_coord(v, 0), fm_coord(v, 1), fm_coord(v, 2)));
  if (which == FM_TETP) {
    auto p = m.request_vertex_property<int>("p", (int)FM_PROP_DEFAULT);
    for (unsigned v = 0; v < 4; ++v) p[VH((int)v)] = fm_prop_value(v);
    m.set_persistent(p);
  }
}
