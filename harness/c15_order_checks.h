// C15: the vertex-order contracts of the tetrahedral kernel for ONE cell / ONE halfface of the state described by the reference tables
// (c15_common.h), against brute force over the stored definitions.  Shared by C15_order.cpp (bases, after swaps / deletions) and
// C15_collapse.cpp (states produced by collapse_edge).  The contracts are quoted from TetrahedralMeshTopologyKernel.hh.
#pragma once
#include "c15_common.h"

// ---- checks for one cell c (live tet) ; tv = symbolic vertex argument
static void check_cell(const TetMesh &m, int c, int tv) {
  const int F = r_chf(c, 0);
  int ref[4]; r_tuple(c, F, 0, ref);
  // get_cell_vertices(ch): "1.-3. vertices of ch's first halfface, ccw, starting with the first from_vertex of the halfface's first halfedge. 4. the 4th vertex"
  { std::vector<VH> r = m.get_cell_vertices(CH(c));
    v_assert(vec_is(r, ref[0], ref[1], ref[2], ref[3]), "C15 get_cell_vertices(ch) == first halfface's vertices in stored order, then the apex"); }
  // get_cell_vertices(ch, vh): "... in a specific order, starting with vh"
  if (r_cell_has_v(c, tv)) {
    std::vector<VH> r = m.get_cell_vertices(CH(c), VH(tv));
    v_assert(r.size() == 4 && r[0].idx() == tv, "C15 get_cell_vertices(ch,vh) starts with vh");
    int p = r_hf_pos(F, tv);
    if (p >= 0) {
      int e[4]; r_tuple(c, F, p, e);
      v_assert(vec_is(r, e[0], e[1], e[2], e[3]), "C15 get_cell_vertices(ch,vh), vh on the first halfface: its cyclic order from vh, then the apex");
    }
    if (r.size() == 4) {
      int q[4] = { r[0].idx(), r[1].idx(), r[2].idx(), r[3].idx() };
      v_assert(perm_parity(ref, q) == 0, "C15 get_cell_vertices(ch,vh) is an orientation-preserving (even) reordering of the cell's four vertices");
    }
    // vertex_opposite_halfface: "the first halfface of the tet ch that does not contain the vertex vh"
    int exp = -1;
    for (int k = 3; k >= 0; --k) if (!r_hf_has_v(r_chf(c, k), tv)) exp = r_chf(c, k);
    HFH o = m.vertex_opposite_halfface(CH(c), VH(tv));
    v_assert(o.idx() == exp && exp >= 0, "C15 vertex_opposite_halfface(ch,vh) == first halfface of ch not containing vh");
    // inverse direction; the halfface argument is passed as a constant under a symbolic guard (it depends on the symbolic vh)
    for (int k = 0; k < 4; ++k) if (o.idx() == r_chf(c, k) && R_ic[r_chf(c, k)] == c)
      v_assert(m.halfface_opposite_vertex(HFH(r_chf(c, k))).idx() == tv, "C15 halfface_opposite_vertex(vertex_opposite_halfface(ch,vh)) == vh");
  }
  // tet vertex iterator: "vertices of the tet's first halfface, starting with the first halfedge's from_vertex, then the fourth vertex"
  { TetVertexIter it = m.tv_iter(CH(c));
    bool ok = true; int n = 0;
    for (; it.valid() && n < 6; ++it, ++n) if (n < 4 && (*it).idx() != ref[n]) ok = false;
    v_assert(ok && n == 4, "C15 tv_iter(ch) enumerates exactly the four vertices in get_cell_vertices order");
    std::pair<TetVertexIter, TetVertexIter> rg = m.tet_vertices(CH(c));
    int k = 0; bool ok2 = true;
    for (TetVertexIter jt = rg.first; jt != rg.second && k < 6; ++jt, ++k) if (k < 4 && (*jt).idx() != ref[k]) ok2 = false;
    v_assert(ok2 && k == 4, "C15 tet_vertices(ch) range enumerates the same four vertices"); }
}

// ---- checks for one halfface h of a live face; tv / the = symbolic vertex / halfedge arguments
static void check_halfface(const TetMesh &m, int h, int tv, int the) {
  const int ic = R_ic[h];
  if (ic == -2) return;                                   // halfface used by two live cells: outside the precondition
  const int h0 = r_hf_v(h, 0), h1 = r_hf_v(h, 1), h2 = r_hf_v(h, 2);
  // TopologyKernel::get_halfface_vertices x3 ("Get vertices of a halfface [ordered to start from vh / from_vertex_handle(heh)]")
  { std::vector<VH> r = m.get_halfface_vertices(HFH(h));
    v_assert(vec_is3(r, h0, h1, h2), "C15 get_halfface_vertices(hfh) == from-vertices of its halfedges in stored order"); }
  const int pv = r_hf_pos(h, tv);
  if (pv >= 0) {
    std::vector<VH> r = m.get_halfface_vertices(HFH(h), VH(tv));
    v_assert(vec_is3(r, r_hf_v(h, pv), r_hf_v(h, (pv + 1) % 3), r_hf_v(h, (pv + 2) % 3)), "C15 get_halfface_vertices(hfh,vh) == cyclic order starting at vh");
  }
  const int hef = r_he_from(the), het = r_he_to(the);
  const int pe = r_hf_pos(h, hef);
  if (!R_edel[the >> 1] && pe >= 0) {
    std::vector<VH> r = m.get_halfface_vertices(HFH(h), HEH(the));
    v_assert(vec_is3(r, r_hf_v(h, pe), r_hf_v(h, (pe + 1) % 3), r_hf_v(h, (pe + 2) % 3)), "C15 get_halfface_vertices(hfh,heh) == cyclic order starting at from_vertex(heh)");
  }
  // halfface_opposite_vertex: "the vertex of the incident cell not contained in hfh; invalid if hfh is boundary"
  VH ov = m.halfface_opposite_vertex(HFH(h));
  if (ic == -1) {
    v_assert(!ov.is_valid(), "C15 halfface_opposite_vertex(boundary hfh) is invalid");
    std::vector<VH> r = m.get_cell_vertices(HFH(h));
    v_assert(r.empty(), "C15 get_cell_vertices(boundary hfh) is empty");
    return;
  }
  if (!r_live_tet(ic)) return;
  const int apex = r_apex(ic, h);
  v_assert(ov.idx() == apex && apex >= 0, "C15 halfface_opposite_vertex(hfh) == the vertex of the incident cell not on hfh");
  if (ov.is_valid()) {
    // mutually inverse -- in the sense the documentation allows: vertex_opposite_halfface returns a halfface of the cell not containing the vertex;
    // a tet has exactly one, so it must be hfh again
    v_assert(m.vertex_opposite_halfface(CH(ic), ov).idx() == h, "C15 vertex_opposite_halfface(incident_cell(hfh), halfface_opposite_vertex(hfh)) == hfh");
  }
  // get_cell_vertices(hfh): "1.-3. vertices of hfh, ccw, starting with the first from_vertex of the halfface's first halfedge. 4. the 4th vertex"
  { std::vector<VH> r = m.get_cell_vertices(HFH(h));
    v_assert(vec_is(r, h0, h1, h2, apex), "C15 get_cell_vertices(hfh) == hfh's vertices in stored order, then the apex"); }
  // get_cell_vertices(hfh, heh): "1. heh.from_vertex 2. heh.to_vertex 3. 3rd vertex of hfh 4. 4th vertex; heh is expected to be incident to hfh"
  if (!R_edel[the >> 1] && r_hf_pos_he(h, the) >= 0) {
    std::vector<VH> r = m.get_cell_vertices(HFH(h), HEH(the));
    int third = (h0 != hef && h0 != het) ? h0 : ((h1 != hef && h1 != het) ? h1 : h2);
    v_assert(vec_is(r, hef, het, third, apex), "C15 get_cell_vertices(hfh,heh) == (from(heh), to(heh), third vertex of hfh, apex)");
  }
}

