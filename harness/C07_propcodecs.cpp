// C07 unit obligations on the registered OVMB property codecs, reached the way the file reader reaches them:
//   BinaryFileReader::read_prop_chunk    -> prop.decoder->deserialize(storage, chunk_reader, first, first+count)
//        (after its checks: count != 0, first < n, n - first >= count; the payload size is NOT checked there)
//   BinaryFileReader::read_propdir_chunk -> prop_decoder->request_property(mesh, entity, name, serialized_default)
//        (serialized_default: a byte vector of any length 0.. taken from the DIRP chunk by Decoder::readVec)
// The codec under test is registered in a local PropertyCodecs through the repository's own
// PropertyCodecs::register_codec<Codec>(ovmb_name) exactly as add_default_types()/add_ovm_vector_types() do, and looked up
// by name through the real get_decoder().  (The static initialiser of g_default_property_codecs is not run in the symbolic
// build -- ll2c --drop-ctor=PropertyCodecs.cc -- because all 30 codecs x 7 entity kinds in one module exceed CBMC's
// function-pointer removal; the native replay build runs it as usual.)
// The chunk payload / serialized default is a symbolic byte vector with an exactly-sized heap allocation, as
// BinaryIStream::make_decoder / Decoder::readVec produce it.  CODEC selects the codec at compile time (one job per codec).
#include "verif.h"
#include <OpenVolumeMesh/IO/PropertyCodecs.hh>
#include <OpenVolumeMesh/IO/PropertyCodecsT_impl.hh>
#include <OpenVolumeMesh/IO/detail/Decoder.hh>
#include <OpenVolumeMesh/IO/detail/exceptions.hh>
#include <OpenVolumeMesh/Core/Properties/PropertyStorageT.hh>
#include <OpenVolumeMesh/Core/ResourceManager.hh>
#include <OpenVolumeMesh/Geometry/VectorT.hh>
#include <utility>
using namespace OpenVolumeMesh;
using namespace OpenVolumeMesh::IO;
using namespace OpenVolumeMesh::IO::detail;

// BoolPropCodec is defined inside IO/PropertyCodecs.cc; its registration template instantiation
// PropertyCodecs::register_codec<Codecs::BoolPropCodec> is emitted by that unit and linked from there.
namespace OpenVolumeMesh::IO::Codecs { struct BoolPropCodec; }
extern template void OpenVolumeMesh::IO::PropertyCodecs::register_codec<OpenVolumeMesh::IO::Codecs::BoolPropCodec>(std::string const &);

// ---- codec table: X(id, ovmb name, value type, Codec, bytes per element (0 = variable))
#define P(T) Codecs::SimplePropCodec<Codecs::Primitive<T>>
#define H(T) Codecs::SimplePropCodec<Codecs::OVMHandle<T>>
#define A(S, N) Codecs::SimplePropCodec<Codecs::ArrayLike<VectorT<S, N>, N>>
#define V(S, N) VectorT<S, N>
#define CODEC_TABLE(X) \
  X(0, "b", bool, Codecs::BoolPropCodec, 0) \
  X(1, "u8", uint8_t, P(uint8_t), 1) X(2, "u16", uint16_t, P(uint16_t), 2) X(3, "u32", uint32_t, P(uint32_t), 4) X(4, "u64", uint64_t, P(uint64_t), 8) \
  X(5, "i8", int8_t, P(int8_t), 1) X(6, "i16", int16_t, P(int16_t), 2) X(7, "i32", int32_t, P(int32_t), 4) X(8, "i64", int64_t, P(int64_t), 8) \
  X(9, "f", float, P(float), 4) X(10, "d", double, P(double), 8) X(11, "s32", std::string, P(std::string), 0) \
  X(12, "vh", VH, H(VH), 4) X(13, "eh", EH, H(EH), 4) X(14, "heh", HEH, H(HEH), 4) X(15, "fh", FH, H(FH), 4) X(16, "hfh", HFH, H(HFH), 4) X(17, "ch", CH, H(CH), 4) \
  X(18, "2d", V(double, 2), A(double, 2), 16) X(19, "3d", V(double, 3), A(double, 3), 24) X(20, "4d", V(double, 4), A(double, 4), 32) \
  X(21, "2f", V(float, 2), A(float, 2), 8) X(22, "3f", V(float, 3), A(float, 3), 12) X(23, "4f", V(float, 4), A(float, 4), 16) \
  X(24, "2u32", V(uint32_t, 2), A(uint32_t, 2), 8) X(25, "3u32", V(uint32_t, 3), A(uint32_t, 3), 12) X(26, "4u32", V(uint32_t, 4), A(uint32_t, 4), 16) \
  X(27, "2i32", V(int32_t, 2), A(int32_t, 2), 8) X(28, "3i32", V(int32_t, 3), A(int32_t, 3), 12) X(29, "4i32", V(int32_t, 4), A(int32_t, 4), 16)
#ifndef CODEC
#define CODEC 3
#endif
template <int ID> struct CodecSel;
#define X(id, name, T, C, esz) template <> struct CodecSel<id> { using type = T; using codec = C; static constexpr unsigned ESZ = esz; static const char *ovmb() { return name; } };
CODEC_TABLE(X)
#undef X
using Sel = CodecSel<CODEC>;
using T = Sel::type;
static constexpr unsigned ESZ = Sel::ESZ;

template <template <unsigned> class F, unsigned... Is>
static inline void dispatch_seq(unsigned sel, std::integer_sequence<unsigned, Is...>) { ((sel == Is ? (F<Is>::run(), 0) : 0), ...); }
static uint8_t g_raw[96];  // the symbolic bytes
// lengths LO..HI, one literal-constant case per length (selector dispatch), all in one solver query
#define LEN_HARNESS(name, LO, HI)                                                                                   \
  static void body_##name(unsigned len);                                                                            \
  template <unsigned I> struct Case_##name { static __attribute__((noinline)) void run() { body_##name((LO) + I); } }; \
  extern "C" void harness_##name() {                                                                                \
    for (unsigned i_ = 0; i_ < (HI); ++i_) g_raw[i_] = v_nondet_u8();                                               \
    unsigned sel = v_nondet_below((HI) - (LO) + 1);                                                                 \
    dispatch_seq<Case_##name>(sel, std::make_integer_sequence<unsigned, (HI) - (LO) + 1>{}); }                      \
  static void body_##name(unsigned len)

enum Outcome { OK = 0, PARSE_ERROR = 1, OTHER = 2 };
#define RUN(out, stmt) do { out = OK; try { stmt; } catch (const parse_error &) { out = PARSE_ERROR; } catch (...) { out = OTHER; } } while (0)

#ifndef NELEM
#define NELEM 2      // entity count n of the property (reader: n_verts_read_ etc.)
#endif

// the only ResourceManager members request_property needs are the entity counts (pure virtual there; TopologyKernel in the reader)
struct Counts : public ResourceManager {
  size_t n_vertices() const override { return NELEM; }
  size_t n_edges() const override { return NELEM; }
  size_t n_halfedges() const override { return 2 * NELEM; }
  size_t n_faces() const override { return NELEM; }
  size_t n_halffaces() const override { return 2 * NELEM; }
  size_t n_cells() const override { return NELEM; }
};

static const PropertyDecoderBase *lookup(PropertyCodecs &pc) {
  pc.register_codec<Sel::codec>(Sel::ovmb());
  return pc.get_decoder(Sel::ovmb());
}

static constexpr bool IS_BOOL = (CODEC == 0), IS_STR = (CODEC == 11);
// bytes that the first element needs before any data-dependent check can happen (string: the u32 length word; bool: one byte)
static constexpr unsigned MINB = IS_BOOL ? 1 : IS_STR ? 4 : ESZ;
#ifndef PAY_MAX
#define PAY_MAX (IS_STR ? 12 : NELEM * ESZ + 1)
#endif

// ---------------------------------------------------------------------------------------------------------------
// deserialize as read_prop_chunk calls it, span {first, count} symbolic within its checks.
//   deser_sufficient: the payload holds at least count*ESZ bytes (what a well-formed chunk guarantees; string: one element
//                     and at least its length word) -> must be memory-safe; fixed-size codecs must succeed.
//   deser_as_called : a non-empty payload that is too short for ONE element (1..MINB-1 bytes; 0 bytes for 1-byte codecs),
//                     span {0,1} -> C07 demands memory safety and parse_error.
#if CODEC != 0
LEN_HARNESS(deser_sufficient, MINB, PAY_MAX) {
  PropertyCodecs pc;
  const PropertyDecoderBase *d = lookup(pc);
  V_ASSERT(d != nullptr);
  PropertyStorageT<T> st(nullptr, "p", EntityType::Vertex, T(), true);
  st.resize(NELEM);
  unsigned first = v_nondet_below(NELEM), count = v_nondet_below(NELEM + 1);
  v_assume(count >= 1 && NELEM - first >= count);          // the checks of read_prop_chunk
  if (IS_STR) v_assume(count == 1); else v_assume((uint64_t)count * ESZ <= len);
  std::vector<uint8_t> vec_(g_raw, g_raw + len);
  Decoder dec(std::move(vec_));
  int out;
  RUN(out, d->deserialize(&st, dec, first, first + count));
  V_ASSERT(out != OTHER);
  V_ASSERT(st.size() == NELEM);
  if (!IS_STR) { V_ASSERT(out == OK); V_ASSERT(dec.pos() == (size_t)count * ESZ); v_witness("deserialize(sufficient payload): accepted"); }
  else {
    uint32_t n = (uint32_t)g_raw[0] | ((uint32_t)g_raw[1] << 8) | ((uint32_t)g_raw[2] << 16) | ((uint32_t)g_raw[3] << 24);
    V_ASSERT((out == OK) == (n <= len - 4));
    if (out == OK) { V_ASSERT(dec.pos() == 4 + (size_t)n); v_witness("deserialize(string, length word present): accepted"); }
    else v_witness("deserialize(string, length word present): declared length beyond payload -> parse_error");
  }
}
LEN_HARNESS(deser_as_called, (MINB > 1 ? 1 : 0), (MINB > 1 ? MINB - 1 : 0)) {
  PropertyCodecs pc;
  const PropertyDecoderBase *d = lookup(pc);
  V_ASSERT(d != nullptr);
  PropertyStorageT<T> st(nullptr, "p", EntityType::Vertex, T(), true);
  st.resize(NELEM);
  std::vector<uint8_t> vec_(g_raw, g_raw + len);
  Decoder dec(std::move(vec_));
  int out;
  RUN(out, d->deserialize(&st, dec, 0, 1));                // span {first 0, count 1}: passes every check of read_prop_chunk
  (void)out;                                               // C07: must be memory-safe (and refuse); the memory checks are the obligation
  v_witness("deserialize(short payload): returned");
}
#else
// bool: bit-packed LSB first, ceil(count/8) bytes; BoolPropCodec::decode_n calls need() itself. n = 17 entities.
// span {first, count}: one query per span (count = v_param(1), first = v_param(2)), payload length 0..3 by selector dispatch
// (a symbolic span makes CBMC's unwinding of the rotated nested loop in decode_n diverge: spurious unwinding failures).
static void deser_bool_case(unsigned first, unsigned count, unsigned len) {
  PropertyCodecs pc;
  const PropertyDecoderBase *d = lookup(pc);
  V_ASSERT(d != nullptr);
  PropertyStorageT<bool> st(nullptr, "p", EntityType::Vertex, false, true);
  st.resize(17);
  std::vector<uint8_t> vec_(g_raw, g_raw + len);
  Decoder dec(std::move(vec_));
  int out;
  RUN(out, d->deserialize(&st, dec, first, first + count));
  V_ASSERT(out != OTHER);
  unsigned need = (count + 7) / 8;
  V_ASSERT((out == OK) == (need <= len));
  if (out == OK) {
    V_ASSERT(dec.pos() == need);
    unsigned k = v_nondet_below(17);
    if (k < count) V_ASSERT(st[first + k] == (bool)((g_raw[k / 8] >> (k % 8)) & 1));
    if (k < first || k >= first + count) V_ASSERT(st[k] == false);                      // nothing else is written
    v_witness("deserialize bool: accepted");
  } else v_witness("deserialize bool: parse_error");
}
template <unsigned I> struct CaseBool { static __attribute__((noinline)) void run() { deser_bool_case(v_param(2), v_param(1), I); } };
extern "C" void harness_deser_bool() {   // shard: count = v_param(1) in 1..17, first = v_param(2) in 0..17-count
  for (unsigned i = 0; i < 3; ++i) g_raw[i] = v_nondet_u8();
  unsigned sel = v_nondet_below(4);
  dispatch_seq<CaseBool>(sel, std::make_integer_sequence<unsigned, 4>{});
}
#endif

// ---------------------------------------------------------------------------------------------------------------
// request_property as read_propdir_chunk calls it: the default value is decoded from `serialized_default`.
//   request_sufficient: MINB .. DEF_MAX bytes  -> memory-safe; success or parse_error (bool: byte not 0/1; string: length beyond buffer)
//   request_as_called : 0 .. MINB-1 bytes      -> C07 demands memory safety and parse_error
#ifndef DEF_MAX
#define DEF_MAX (MINB + 2 > 8 ? MINB + 2 : 8)
#endif
static int request(unsigned len, std::shared_ptr<PropertyStorageBase> &prop, std::string const &name) {
  PropertyCodecs pc;
  const PropertyDecoderBase *d = lookup(pc);
  V_ASSERT(d != nullptr);
  Counts mesh;
  std::vector<uint8_t> def(g_raw, g_raw + len);
  int out;
  RUN(out, prop = d->request_property(mesh, EntityType::Vertex, name, def));
  if (out == OK) { V_ASSERT(prop != nullptr && prop->size() == NELEM && prop->persistent() && prop->name() == name); }
  prop.reset();    // the property dies with `mesh` below; drop the handle first
  return out;
}
LEN_HARNESS(request_sufficient, MINB, DEF_MAX) {
  std::shared_ptr<PropertyStorageBase> prop; std::string name("p");
  int out = request(len, prop, name);
  V_ASSERT(out != OTHER);
  if constexpr (IS_BOOL || IS_STR) {
    if constexpr (IS_BOOL) V_ASSERT((out == OK) == (g_raw[0] <= 1));
    else { uint32_t n = (uint32_t)g_raw[0] | ((uint32_t)g_raw[1] << 8) | ((uint32_t)g_raw[2] << 16) | ((uint32_t)g_raw[3] << 24); V_ASSERT((out == OK) == (n <= len - 4)); }
    if (out == OK) v_witness("request_property(sufficient default): accepted"); else v_witness("request_property(sufficient default): parse_error");
  } else {
    V_ASSERT(out == OK);
    v_witness("request_property(sufficient default): accepted");
  }
}
// too short but not empty: 1..MINB-1 bytes (1-byte codecs: the empty default)
LEN_HARNESS(request_as_called, (MINB > 1 ? 1 : 0), MINB - 1) {
  std::shared_ptr<PropertyStorageBase> prop; std::string name("p");
  int out = request(len, prop, name);
  (void)out;                                               // C07: must be memory-safe (and refuse); the memory checks are the obligation
  v_witness("request_property(short default): returned");
}
// the empty default (DIRP entry with serialized_default length 0): Decoder over an empty vector, data() == nullptr
extern "C" void harness_request_empty_default() {
  std::shared_ptr<PropertyStorageBase> prop; std::string name("p");
  int out = request(0, prop, name);
  (void)out;
  v_witness("request_property(empty default): returned");
}
