// C07 unit obligations on the registered OVMB property codecs, reached the way the file reader reaches them:
//   BinaryFileReader::read_prop_chunk    -> prop.decoder->deserialize(storage, chunk_reader, first, first+count)
//        (after its checks: count != 0, first < n, n - first >= count; the payload size is NOT checked there)
//   BinaryFileReader::read_propdir_chunk -> prop_decoder->request_property(mesh, entity, name, serialized_default)
//        (serialized_default: a byte vector of any length 0.. taken from the DIRP chunk by Decoder::readVec)
// The codec under test is registered in a local PropertyCodecs through the repository's own
// PropertyCodecs::register_codec<Codec>(ovmb_name) exactly as add_default_types()/add_ovm_vector_types() do, and looked up
// by name through the real get_decoder().  (The static initialiser of g_default_property_codecs is not run in the symbolic
// build -- ll2c --drop-ctor=PropertyCodecs.cc -- because all 30 codecs x 7 entity kinds in one module exceed CBMC's
// function-pointer removal; the native replay build runs it as usual.)
// The chunk payload / serialized default is a symbolic byte vector with an exactly-sized heap allocation, as
// BinaryIStream::make_decoder / Decoder::readVec produce it.  CODEC selects the codec at compile time (one job per codec).
// THIS FILE: inputs that are long enough for the decoded elements (what a well-formed file guarantees) -> must be memory-safe.
// Inputs that are too short (which the reader does not rule out) are in C07_codec_short.cpp (findings F2/F3).
#include "io_codecs.h"

// bytes that the first element needs before any data-dependent check can happen (string: the u32 length word; bool: one byte)
static constexpr unsigned MINB = IS_BOOL ? 1 : IS_STR ? 4 : ESZ;
// payload lengths: k*ESZ and k*ESZ+1 for k = 1..NELEM (string: 4..7), by selector dispatch
static constexpr unsigned NPAY = IS_STR ? 4 : 2 * NELEM;
static constexpr unsigned pay_len(unsigned i) { return IS_STR ? 4 + i : (i / 2 + 1) * ESZ + (i % 2); }
static constexpr unsigned PAY_MAX = pay_len(NPAY - 1);

#if CODEC != 0
// ---------------------------------------------------------------------------------------------------------------
// deserialize as read_prop_chunk calls it, span {first, count} symbolic within its checks, payload holds at least
// count*ESZ bytes (string: one element and at least its length word) -> must be memory-safe; fixed-size codecs must succeed.
static void deser_sufficient_case(unsigned len) {
  PropertyCodecs pc;
  const PropertyDecoderBase *d = lookup(pc);
  V_ASSERT(d != nullptr);
  PropertyStorageT<T> st(nullptr, "p", EntityType::Vertex, T(), true);
  st.resize(NELEM);
  unsigned first = v_nondet_below(NELEM), count = v_nondet_below(NELEM + 1);
  v_assume(count >= 1 && NELEM - first >= count);          // the checks of read_prop_chunk
  if (IS_STR) v_assume(count == 1); else v_assume((uint64_t)count * ESZ <= len);
  std::vector<uint8_t> vec_(g_raw, g_raw + len);
  Decoder dec(std::move(vec_));
  int out;
  RUN(out, d->deserialize(&st, dec, first, first + count));
  V_ASSERT(out != OTHER);
  V_ASSERT(st.size() == NELEM);
  if constexpr (!IS_STR) { V_ASSERT(out == OK); V_ASSERT(dec.pos() == (size_t)count * ESZ); v_witness("deserialize(sufficient payload): accepted"); }
  else {
    uint32_t n = (uint32_t)g_raw[0] | ((uint32_t)g_raw[1] << 8) | ((uint32_t)g_raw[2] << 16) | ((uint32_t)g_raw[3] << 24);
    V_ASSERT((out == OK) == (n <= len - 4));
    if (out == OK) { V_ASSERT(dec.pos() == 4 + (size_t)n); v_witness("deserialize(string, length word present): accepted"); }
    else v_witness("deserialize(string, length word present): declared length beyond payload -> parse_error");
  }
}
template <unsigned I> struct CaseDS { static __attribute__((noinline)) void run() { deser_sufficient_case(pay_len(I)); } };
extern "C" void harness_deser_sufficient() {
  for (unsigned i = 0; i < PAY_MAX; ++i) g_raw[i] = v_nondet_u8();
  unsigned sel = v_nondet_below(NPAY);
  dispatch_seq<CaseDS>(sel, std::make_integer_sequence<unsigned, NPAY>{});
}
#else
// bool: bit-packed LSB first, ceil(count/8) bytes; BoolPropCodec::decode_n calls need() itself. n = 17 entities.
// span {first, count}: one query per span (count = v_param(1), first = v_param(2)), payload length 0..3 by selector dispatch
// (a symbolic span makes CBMC's unwinding of the rotated nested loop in decode_n diverge: spurious unwinding failures).
static void deser_bool_case(unsigned first, unsigned count, unsigned len) {
  PropertyCodecs pc;
  const PropertyDecoderBase *d = lookup(pc);
  V_ASSERT(d != nullptr);
  PropertyStorageT<bool> st(nullptr, "p", EntityType::Vertex, false, true);
  st.resize(17);
  std::vector<uint8_t> vec_(g_raw, g_raw + len);
  Decoder dec(std::move(vec_));
  int out;
  RUN(out, d->deserialize(&st, dec, first, first + count));
  V_ASSERT(out != OTHER);
  unsigned need = (count + 7) / 8;
  V_ASSERT((out == OK) == (need <= len));
  if (out == OK) {
    V_ASSERT(dec.pos() == need);
    unsigned k = v_nondet_below(17);
    if (k < count) V_ASSERT(st[first + k] == (bool)((g_raw[k / 8] >> (k % 8)) & 1));
    if (k < first || k >= first + count) V_ASSERT(st[k] == false);                      // nothing else is written
    v_witness("deserialize bool: accepted");
  } else v_witness("deserialize bool: parse_error");
}
template <unsigned I> struct CaseBool { static __attribute__((noinline)) void run() { deser_bool_case(v_param(2), v_param(1), I); } };
extern "C" void harness_deser_bool() {   // shard: count = v_param(1) in 1..17, first = v_param(2) in 0..17-count
  for (unsigned i = 0; i < 3; ++i) g_raw[i] = v_nondet_u8();
  unsigned sel = v_nondet_below(4);
  dispatch_seq<CaseBool>(sel, std::make_integer_sequence<unsigned, 4>{});
}
#endif

// ---------------------------------------------------------------------------------------------------------------
// request_property as read_propdir_chunk calls it: the default value is decoded from `serialized_default`.
//   request_sufficient: MINB .. DEF_MAX bytes  -> memory-safe; success (string: or parse_error when the declared length exceeds the buffer)
#if CODEC != 0   /* request_property for bool is not encodable (CBMC symex diverges), see spec_C07.py */
#ifndef DEF_MAX
#define DEF_MAX (MINB + 2)
#endif
static int request(unsigned len, std::shared_ptr<PropertyStorageBase> &prop, std::string const &name) {
  PropertyCodecs pc;
  const PropertyDecoderBase *d = lookup(pc);
  V_ASSERT(d != nullptr);
  Counts mesh;
  std::vector<uint8_t> def(g_raw, g_raw + len);
  int out;
  RUN(out, prop = d->request_property(mesh, EntityType::Vertex, name, def));
  if (out == OK) { V_ASSERT(prop != nullptr && prop->size() == NELEM && prop->persistent() && prop->name() == name); }
  prop.reset();    // the property dies with `mesh` below; drop the handle first
  return out;
}
LEN_HARNESS(request_sufficient, MINB, DEF_MAX) {
  std::shared_ptr<PropertyStorageBase> prop; std::string name("p");
  int out = request(len, prop, name);
  V_ASSERT(out != OTHER);
  if constexpr (IS_STR) {
    uint32_t n = (uint32_t)g_raw[0] | ((uint32_t)g_raw[1] << 8) | ((uint32_t)g_raw[2] << 16) | ((uint32_t)g_raw[3] << 24); V_ASSERT((out == OK) == (n <= len - 4));
    if (out == OK) v_witness("request_property(sufficient default): accepted"); else v_witness("request_property(sufficient default): parse_error");
  } else {
    V_ASSERT(out == OK);
    v_witness("request_property(sufficient default): accepted");
  }
}
#endif
