// C07 unit obligations on the registered OVMB property codecs, reached the way the file reader reaches them:
//   BinaryFileReader::read_prop_chunk  -> prop.decoder->deserialize(storage, chunk_reader, first, first+count)
//                                         (after: count != 0, first < n, n - first >= count; NO check of the payload size)
//   BinaryFileReader::read_propdir_chunk -> prop_decoder->request_property(mesh, entity, name, serialized_default)
//                                         (serialized_default: a byte vector of any length 0.. taken from the DIRP chunk)
// The decoder objects are looked up by their OVMB type name in the real registry g_default_property_codecs
// (IO/PropertyCodecs.cc, initialised by the real static initialiser).  The chunk payload / default is a symbolic byte vector
// with an exactly-sized heap allocation, as BinaryIStream::make_decoder / Decoder::readVec produce it.
#include "verif.h"
#include <OpenVolumeMesh/IO/PropertyCodecs.hh>
#include <OpenVolumeMesh/IO/detail/Decoder.hh>
#include <OpenVolumeMesh/IO/detail/exceptions.hh>
#include <OpenVolumeMesh/Core/Properties/PropertyStorageT.hh>
#include <OpenVolumeMesh/Core/ResourceManager.hh>
#include <OpenVolumeMesh/Geometry/VectorT.hh>
#include <utility>
using namespace OpenVolumeMesh;
using namespace OpenVolumeMesh::IO;
using namespace OpenVolumeMesh::IO::detail;

template <template <unsigned> class F, unsigned... Is>
static inline void dispatch_seq(unsigned sel, std::integer_sequence<unsigned, Is...>) { ((sel == Is ? (F<Is>::run(), 0) : 0), ...); }
static uint8_t g_raw[64];  // the symbolic bytes
// lengths LO..HI in chunks of CH per solver query: shard parameter v_param(0) = chunk index
#define LEN_HARNESS_C(name, LO, HI, CH)                                                                             \
  static void body_##name(unsigned len);                                                                            \
  template <unsigned I> struct Case_##name { static __attribute__((noinline)) void run() {                          \
    unsigned len = (LO) + v_param(0) * (CH) + I; if (len <= (HI)) body_##name(len); } };                            \
  extern "C" void harness_##name() {                                                                                \
    for (unsigned i_ = 0; i_ < (HI); ++i_) g_raw[i_] = v_nondet_u8();                                               \
    unsigned sel = v_nondet_below(CH); v_assume((LO) + v_param(0) * (CH) + sel <= (HI));                            \
    dispatch_seq<Case_##name>(sel, std::make_integer_sequence<unsigned, (CH)>{}); }                                 \
  static void body_##name(unsigned len)

enum Outcome { OK = 0, PARSE_ERROR = 1, OTHER = 2 };
#define RUN(out, stmt) do { out = OK; try { stmt; } catch (const parse_error &) { out = PARSE_ERROR; } catch (...) { out = OTHER; } } while (0)

#ifndef NELEM
#define NELEM 3      // entity count n of the property (reader: n_verts_read_ etc.)
#endif

// ---------------------------------------------------------------------------------------------------------------
// deserialize as read_prop_chunk calls it. SUFFICIENT = the payload holds at least count*ESZ bytes (what a well-formed
// chunk guarantees); !SUFFICIENT = any payload length (what a file can contain).
template <class T, unsigned ESZ, bool SUFFICIENT>
static void deserialize_body(const char *ovmb_name, unsigned len) {
  const PropertyDecoderBase *d = g_default_property_codecs.get_decoder(ovmb_name);
  V_ASSERT(d != nullptr);
  PropertyStorageT<T> st(nullptr, "p", EntityType::Vertex, T(), true);
  st.resize(NELEM);
  unsigned first = v_nondet_below(NELEM), count = v_nondet_below(NELEM + 1);
  v_assume(count >= 1 && NELEM - first >= count);          // the checks of read_prop_chunk
  if (SUFFICIENT) v_assume((uint64_t)count * ESZ <= len);
  std::vector<uint8_t> vec_(g_raw, g_raw + len);
  Decoder dec(std::move(vec_));
  int out;
  RUN(out, d->deserialize(&st, dec, first, first + count));
  V_ASSERT(out != OTHER);
  if (SUFFICIENT) { V_ASSERT(out == OK); V_ASSERT(dec.pos() == (size_t)count * ESZ); V_ASSERT(st.size() == NELEM); }
  if (out == OK) v_witness("deserialize: accepted"); else v_witness("deserialize: parse_error");
}

// bool: bit-packed, ceil(count/8) bytes; BoolPropCodec::decode_n calls need() itself
LEN_HARNESS_C(deser_bool, 0, 3, 4) {
  const PropertyDecoderBase *d = g_default_property_codecs.get_decoder("b");
  V_ASSERT(d != nullptr);
  PropertyStorageT<bool> st(nullptr, "p", EntityType::Vertex, false, true);
  st.resize(17);
  unsigned first = v_nondet_below(17), count = v_nondet_below(18);
  v_assume(count >= 1 && 17 - first >= count);
  std::vector<uint8_t> vec_(g_raw, g_raw + len);
  Decoder dec(std::move(vec_));
  int out;
  RUN(out, d->deserialize(&st, dec, first, first + count));
  V_ASSERT(out != OTHER);
  unsigned need = (count + 7) / 8;
  V_ASSERT((out == OK) == (need <= len));
  if (out == OK) {
    V_ASSERT(dec.pos() == need);
    unsigned k = v_nondet_below(17);
    if (k < count) V_ASSERT(st[first + k] == (bool)((g_raw[k / 8] >> (k % 8)) & 1));   // LSB-first bit packing
    if (k < first || k >= first + count) V_ASSERT(st[k] == false);                      // nothing else is written
    v_witness("deserialize bool: accepted");
  } else v_witness("deserialize bool: parse_error");
}
