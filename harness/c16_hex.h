// C16 helpers: hexahedral bases built through HexahedralMeshTopologyKernel, a larger snapshot (the 2x2 sheet does not
// fit mesh_common.h's Snap), and the oracles for the XF/XB/YF/YB/ZF/ZB convention, the orientation helpers, hex
// navigation, HexVertexIter and the sheet circulators -- all brute force over the stored top-down definitions.
#pragma once
#include "mesh_common.h"
#include <OpenVolumeMesh/Mesh/HexahedralMeshTopologyKernel.hh>

typedef HexahedralMeshTopologyKernel HexK;

// --------------------------------------------------------------------------- snapshot (capacity: 2x2 sheet = 18V 33E 20F 4C)
// Helpers that loop are noinline on purpose: CBMC counts loop iterations per call frame, and ll2c's goto-structured
// loops do not always reset the count on loop exit, so inlined helper loops would accumulate iterations across calls.
#define HS_FN static __attribute__((noinline))
enum { HXV = 18, HXE = 34, HXF = 21, HXFV = 5, HXC = 4, HXCV = 7 };
struct HSnap {
  int nV, nE, nF, nC;
  bool vdel[HXV];
  int efrom[HXE], eto[HXE]; bool edel[HXE];
  int fval[HXF]; int fhe[HXF][HXFV]; bool fdel[HXF];
  int cval[HXC]; int chf[HXC][HXCV]; bool cdel[HXC];
  int inc[2 * HXF];     // derived: the live cell listing the halfface; -1 none, -2 several
  bool overflow;
};

HS_FN int hs_pos_in_cell(const HSnap &s, int c, int hfh) {   // index of hfh in the cell's list, -1 if absent
  int r = -1;
  for (int k = HXCV - 1; k >= 0; --k) if (k < s.cval[c] && s.chf[c][k] == hfh) r = k;
  return r;
}
HS_FN int hs_incident_cell_scan(const HSnap &s, int hfh) {
  int r = -1;
  for (int c = 0; c < HXC; ++c) if (c < s.nC && !s.cdel[c] && hs_pos_in_cell(s, c, hfh) >= 0) r = (r == -1) ? c : -2;
  return r;
}
HS_FN void hs_take_faces(const TopologyKernel &m, HSnap &s) {
  for (int i = 0; i < s.nF; ++i) {
    const std::vector<HEH> &hes = m.face(FH(i)).halfedges();
    s.fval[i] = (int)hes.size();
    if (s.fval[i] > HXFV) { s.overflow = true; return; }
    for (int k = 0; k < s.fval[i]; ++k) s.fhe[i][k] = hes[(size_t)k].idx();
    s.fdel[i] = m.is_deleted(FH(i));
  }
}
HS_FN void hs_take_cells(const TopologyKernel &m, HSnap &s) {
  for (int i = 0; i < s.nC; ++i) {
    const std::vector<HFH> &hfs = m.cell(CH(i)).halffaces();
    s.cval[i] = (int)hfs.size();
    if (s.cval[i] > HXCV) { s.overflow = true; return; }
    for (int k = 0; k < s.cval[i]; ++k) s.chf[i][k] = hfs[(size_t)k].idx();
    s.cdel[i] = m.is_deleted(CH(i));
  }
}
HS_FN void hs_take(const TopologyKernel &m, HSnap &s) {
  s.overflow = false;
  s.nV = (int)m.n_vertices(); s.nE = (int)m.n_edges(); s.nF = (int)m.n_faces(); s.nC = (int)m.n_cells();
  if (s.nV > HXV || s.nE > HXE || s.nF > HXF || s.nC > HXC) { s.overflow = true; return; }
  for (int i = 0; i < s.nV; ++i) s.vdel[i] = m.is_deleted(VH(i));
  for (int i = 0; i < s.nE; ++i) { s.efrom[i] = m.edge(EH(i)).from_vertex().idx(); s.eto[i] = m.edge(EH(i)).to_vertex().idx(); s.edel[i] = m.is_deleted(EH(i)); }
  hs_take_faces(m, s);
  if (s.overflow) return;
  hs_take_cells(m, s);
  if (s.overflow) return;
  for (int h = 0; h < 2 * s.nF; ++h) s.inc[h] = hs_incident_cell_scan(s, h);
}

// All helpers below have constant loop bounds with guards, so they may be called with symbolic indices.
static inline int hs_he_from(const HSnap &s, int he) { return (he & 1) ? s.eto[he >> 1] : s.efrom[he >> 1]; }
static inline int hs_he_to(const HSnap &s, int he) { return (he & 1) ? s.efrom[he >> 1] : s.eto[he >> 1]; }
// k-th halfedge of halfface hfh (side 1 = reversed list of the opposite halfedges)
static inline int hs_hf_he(const HSnap &s, int hfh, int k) {
  int f = hfh >> 1, n = s.fval[f];
  return (hfh & 1) ? (s.fhe[f][n - 1 - k] ^ 1) : s.fhe[f][k];
}
HS_FN bool hs_hf_has_he(const HSnap &s, int hfh, int he) {
  int f = hfh >> 1; bool r = false;
  int want = (hfh & 1) ? (he ^ 1) : he;
  for (int k = 0; k < HXFV; ++k) if (k < s.fval[f] && s.fhe[f][k] == want) r = true;
  return r;
}
HS_FN bool hs_face_has_edge(const HSnap &s, int f, int e) {
  bool r = false;
  for (int k = 0; k < HXFV; ++k) if (k < s.fval[f] && (s.fhe[f][k] >> 1) == e) r = true;
  return r;
}
HS_FN bool hs_face_has_vertex(const HSnap &s, int f, int v) {
  bool r = false;
  for (int k = 0; k < HXFV; ++k) if (k < s.fval[f]) { int e = s.fhe[f][k] >> 1; if (s.efrom[e] == v || s.eto[e] == v) r = true; }
  return r;
}
HS_FN bool hs_faces_share_vertex(const HSnap &s, int f, int g) {
  bool r = false;
  for (int k = 0; k < HXFV; ++k) if (k < s.fval[f]) { int e = s.fhe[f][k] >> 1; if (hs_face_has_vertex(s, g, s.efrom[e]) || hs_face_has_vertex(s, g, s.eto[e])) r = true; }
  return r;
}
static inline int hs_incident_cell(const HSnap &s, int hfh) { return s.inc[hfh]; }   // live cell listing hfh; -1 none, -2 several
// the halfface of cell c, other than hfh, that contains the opposite of halfedge he; -1 none, -2 several
HS_FN int hs_adj_in_cell(const HSnap &s, int c, int hfh, int he) {
  int r = -1;
  for (int k = 0; k < HXCV; ++k) if (k < s.cval[c] && s.chf[c][k] != hfh && hs_hf_has_he(s, s.chf[c][k], he ^ 1)) r = (r == -1) ? s.chf[c][k] : -2;
  return r;
}
HS_FN bool hs_cell_has_edge(const HSnap &s, int c, int e) {
  bool r = false;
  for (int k = 0; k < HXCV; ++k) if (k < s.cval[c] && hs_face_has_edge(s, s.chf[c][k] >> 1, e)) r = true;
  return r;
}
// is there a live edge of cell c joining vertices a and b?
HS_FN bool hs_cell_edge_between(const HSnap &s, int c, int a, int b) {
  bool r = false;
  for (int e = 0; e < HXE; ++e) if (e < s.nE && !s.edel[e] && ((s.efrom[e] == a && s.eto[e] == b) || (s.efrom[e] == b && s.eto[e] == a)) && hs_cell_has_edge(s, c, e)) r = true;
  return r;
}
static inline bool hs_boundary_hf(const HSnap &s, int hfh) { return s.inc[hfh] == -1; }

static inline int hprobe_below(int n) { unsigned x = v_nondet_u32(); v_assume(n > 0 ? x < (unsigned)n : x == 0); return (int)x; }

// --------------------------------------------------------------------------- bases, built with the hexahedral kernel
static inline FH hquad(HexK &m, int a, int b, int c, int d) { return m.add_face(vec4(VH(a), VH(b), VH(c), VH(d))); }
enum HexBase { HB_HEX = 0, HB_HEX2 = 1, HB_SHEET = 2, HB_HEX2_VERTS = 3, HB_HEX2_FAST = 4, N_HEXBASES = 5 };

// the six faces of the B_HEX layout of mesh_common.h on vertices 0..7 (F0 bottom, F1 top, F2..F5 the sides)
static void hex_faces(HexK &m) {
  hquad(m, 0, 1, 2, 3); hquad(m, 7, 6, 5, 4); hquad(m, 1, 0, 4, 5); hquad(m, 2, 1, 5, 6); hquad(m, 3, 2, 6, 7); hquad(m, 0, 3, 7, 4);
}
// B_HEX's halfface list: (F0,F1) are opposite, but (F2,F3) are adjacent -- NOT in convention order; add_cell(.., true) has to reorder
// the same six halffaces in convention order (F0,F1 | F5,F3 | F4,F2): accepted as is, also without topology check
static inline std::vector<HFH> hex_list0_ordered() { return vec6(hf(FH(0), 1), hf(FH(1), 1), hf(FH(5), 1), hf(FH(3), 1), hf(FH(4), 1), hf(FH(2), 1)); }
static inline std::vector<HFH> hex_list0() { return vec6(hf(FH(0), 1), hf(FH(1), 1), hf(FH(2), 1), hf(FH(3), 1), hf(FH(4), 1), hf(FH(5), 1)); }
// the five further faces of B_HEX2's second hex on top of F1 = (7,6,5,4): F6..F10
static void hex2_faces(HexK &m) {
  hquad(m, 11, 10, 9, 8); hquad(m, 5, 4, 8, 9); hquad(m, 6, 5, 9, 10); hquad(m, 7, 6, 10, 11); hquad(m, 4, 7, 11, 8);
}
static inline std::vector<HFH> hex_list1_ordered() { return vec6(hf(FH(1), 0), hf(FH(6), 1), hf(FH(10), 1), hf(FH(8), 1), hf(FH(9), 1), hf(FH(7), 1)); }
static inline std::vector<HFH> hex_list1() { return vec6(hf(FH(1), 0), hf(FH(6), 1), hf(FH(7), 1), hf(FH(8), 1), hf(FH(9), 1), hf(FH(10), 1)); }

static inline std::vector<VH> vec8(int a, int b, int c, int d, int e, int f, int g, int h) {
  std::vector<VH> v; v.reserve(8);
  v.push_back(VH(a)); v.push_back(VH(b)); v.push_back(VH(c)); v.push_back(VH(d)); v.push_back(VH(e)); v.push_back(VH(f)); v.push_back(VH(g)); v.push_back(VH(h));
  return v;
}

static void build_hex_base(HexK &m, unsigned b) {
  switch (b) {
  case HB_HEX:
    m.add_n_vertices(8); hex_faces(m);
    m.add_cell(hex_list0(), true);
    break;
  case HB_HEX2:
    m.add_n_vertices(12); hex_faces(m);
    m.add_cell(hex_list0(), true);
    hex2_faces(m);
    m.add_cell(hex_list1(), true);
    break;
  case HB_HEX2_FAST:   // same mesh as HB_HEX2 from lists already in convention order, no topology check (cheap context for other subjects)
    m.add_n_vertices(12); hex_faces(m);
    m.add_cell(hex_list0_ordered(), false);
    hex2_faces(m);
    m.add_cell(hex_list1_ordered(), false);
    break;
  case HB_HEX2_VERTS:   // two hexes sharing a face, built with add_cell(8 vertices) in the documented order
    m.add_n_vertices(12);
    m.add_cell(vec8(0, 1, 2, 3, 4, 7, 6, 5), true);         // front 0,1,2,3; behind 0:4 behind 3:7 behind 2:6 behind 1:5
    m.add_cell(vec8(4, 5, 6, 7, 8, 11, 10, 9), true);       // glued on the back face (4,5,6,7)
    break;
  case HB_SHEET: {      // 2x2 sheet: vertices (x,y,z) = x + 3*y + 9*z, x,y in 0..2, z in 0..1; four hexes by add_cell(8 vertices)
    m.add_n_vertices(18);
    for (int y = 0; y < 2; ++y) for (int x = 0; x < 2; ++x) {
      int a = x + 3 * y;   // front = z 0 layer: a, a+1, a+4, a+3; back = +9
      m.add_cell(vec8(a, a + 1, a + 4, a + 3, a + 9, a + 12, a + 13, a + 10), true);
    }
    break; }
  default: break;
  }
}

// --------------------------------------------------------------------------- oracles
static const int ORDER_TOP[4] = {2, 4, 3, 5};

// shape: every live face has four edges, every live cell six halffaces
HS_FN bool check_shape(const HexK &m, const HSnap &s) {
  bool ok = true;
  for (int f = 0; f < s.nF; ++f) if (!s.fdel[f]) {
    v_assert(s.fval[f] == 4, "C16 every face of a hexahedral mesh has four halfedges");
    v_assert(m.valence(FH(f)) == 4, "C16 valence(face) == 4");
    if (s.fval[f] != 4) ok = false;
  }
  for (int c = 0; c < s.nC; ++c) if (!s.cdel[c]) {
    v_assert(s.cval[c] == 6, "C16 every cell of a hexahedral mesh has six halffaces");
    v_assert(m.valence(CH(c)) == 6, "C16 valence(cell) == 6");
    if (s.cval[c] != 6) ok = false;
  }
  return ok;
}

// the XF,XB,YF,YB,ZF,ZB layout of cell c (precondition: shape holds)
HS_FN void check_convention(const HSnap &s, int c) {
  // halffaces 2k and 2k+1 share no vertex
  for (int k = 0; k < 3; ++k)
    v_assert(!hs_faces_share_vertex(s, s.chf[c][2 * k] >> 1, s.chf[c][2 * k + 1] >> 1), "C16 halffaces 2k and 2k+1 of a cell share no vertex");
  // walking around the first halfface's halfedges meets halffaces 2,4,3,5 in that cyclic order
  int first = s.chf[c][0];
  int a0 = hs_adj_in_cell(s, c, first, hs_hf_he(s, first, 0));
  int off = -1;
  for (int j = 0; j < 4; ++j) if (a0 == s.chf[c][ORDER_TOP[j]]) off = j;
  v_assert(off >= 0, "C16 the halfface across the first halfface's first halfedge is one of halffaces 2..5");
  if (off >= 0)
    for (int j = 1; j < 4; ++j)
      v_assert(hs_adj_in_cell(s, c, first, hs_hf_he(s, first, j)) == s.chf[c][ORDER_TOP[(off + j) % 4]], "C16 first halfface's halfedges meet halffaces 2,4,3,5 in cyclic order");
  // eight distinct vertices
  int nv = 0;
  for (int v = 0; v < s.nV; ++v) { bool in = false; for (int k = 0; k < 6; ++k) if (hs_face_has_vertex(s, s.chf[c][k] >> 1, v)) in = true; if (in) ++nv; }
  v_assert(nv == 8, "C16 a hexahedron has eight distinct vertices");
}

// orientation(), opposite_halfface_handle_in_cell, x/y/z front/back, get_oriented_halfface, orthogonal_orientation vs the stored list.
// Cell enumerated; halfface th and orientation constants o, o1, o2 are free symbolic probes.
HS_FN void check_orientation_cell(const HexK &m, const HSnap &s, int c, int th, unsigned char o, unsigned char o1, unsigned char o2) {
  CH ch(c);
  v_assert(m.xfront_halfface(ch).idx() == s.chf[c][0], "C16 xfront_halfface == stored halfface 0");
  v_assert(m.xback_halfface(ch).idx() == s.chf[c][1], "C16 xback_halfface == stored halfface 1");
  v_assert(m.yfront_halfface(ch).idx() == s.chf[c][2], "C16 yfront_halfface == stored halfface 2");
  v_assert(m.yback_halfface(ch).idx() == s.chf[c][3], "C16 yback_halfface == stored halfface 3");
  v_assert(m.zfront_halfface(ch).idx() == s.chf[c][4], "C16 zfront_halfface == stored halfface 4");
  v_assert(m.zback_halfface(ch).idx() == s.chf[c][5], "C16 zback_halfface == stored halfface 5");
  v_assert(m.get_oriented_halfface(o, ch).idx() == (o < 6 ? s.chf[c][o < 6 ? o : 0] : -1), "C16 get_oriented_halfface(o, c) == stored halfface o, invalid for o >= 6");
  int pos = hs_pos_in_cell(s, c, th);
  v_assert((int)m.orientation(HFH(th), ch) == (pos >= 0 ? pos : (int)HexK::INVALID), "C16 orientation(hf, c) == position of hf in the cell's list, INVALID if absent");
  v_assert(m.opposite_halfface_handle_in_cell(HFH(th), ch).idx() == (pos >= 0 ? s.chf[c][(pos >= 0 ? pos : 0) ^ 1] : -1), "C16 opposite_halfface_handle_in_cell == stored halfface at position^1, invalid if hf not in cell");
  // orthogonal_orientation against the layout: walking around halfface o1's halfedges, the halfface met after o2 is orthogonal_orientation(o1,o2)
  unsigned char oo = HexK::orthogonal_orientation(o1, o2);
  if ((o1 >> 1) == (o2 >> 1)) v_assert(oo == HexK::INVALID, "C16 orthogonal_orientation of two orientations on one axis is INVALID");
  else {
    int A = s.chf[c][o1], B = s.chf[c][o2];
    int j = -1;
    for (int k = 0; k < 4; ++k) if (hs_adj_in_cell(s, c, A, hs_hf_he(s, A, k)) == B) j = k;
    v_assert(j >= 0, "C16 halffaces on different axes of a cell are adjacent");
    if (j >= 0) {
      int C = hs_adj_in_cell(s, c, A, hs_hf_he(s, A, (j + 1) % 4));
      v_assert(oo < 6 && s.chf[c][oo < 6 ? oo : 0] == C, "C16 orthogonal_orientation(o1,o2) designates the halfface met after o2 when walking around o1 (fixed handedness)");
    }
  }
}
static void check_orientation_helpers(const HexK &m, const HSnap &s, int only = -1) {
  const int th = hprobe_below(2 * s.nF);
  const unsigned char o = v_nondet_u8();
  const unsigned char o1 = v_nondet_u8(), o2 = v_nondet_u8();
  v_assume(o1 < 6 && o2 < 6);
  for (int c = 0; c < s.nC; ++c) if (!s.cdel[c] && (only < 0 || c == only)) check_orientation_cell(m, s, c, th, o, o1, o2);
}

// is_boundary helpers on the hexahedral kernel vs brute force (halfface probe symbolic)
HS_FN void check_boundary(const HexK &m, const HSnap &s) {
  const int th = hprobe_below(2 * s.nF);
  if (s.nF > 0 && !s.fdel[th >> 1]) {
    bool b0 = hs_boundary_hf(s, th), b1 = hs_boundary_hf(s, th ^ 1);
    v_assert(m.is_boundary(HFH(th)) == b0, "C16 is_boundary(hf) == no live cell lists hf");
    v_assert(m.is_boundary(FH(th >> 1)) == (b0 || b1), "C16 is_boundary(f) == one of its halffaces is boundary");
  }
  for (int c = 0; c < s.nC; ++c) if (!s.cdel[c]) {
    bool b = false;
    for (int k = 0; k < 6; ++k) if (hs_boundary_hf(s, s.chf[c][k] ^ 1)) b = true;
    v_assert(m.is_boundary(CH(c)) == b, "C16 is_boundary(c) == some face of c has no cell on the other side");
  }
}

// one "way" of adjacent_halfface_on_sheet from the stored definitions: R in cell C, S = halfface of C across e,
// N = cell on the other side of S, result = halfface of N across e from opposite(S).  -1 if any step does not exist.
HS_FN int hs_sheet_way(const HSnap &s, int R, int e) {
  int C = hs_incident_cell(s, R);
  int r = -1;
  if (C >= 0) {
    int S = hs_adj_in_cell(s, C, R, e);
    if (S >= 0 && S != (R ^ 1)) {
      int N = hs_incident_cell(s, S ^ 1);
      if (N >= 0) {
        int T = hs_adj_in_cell(s, N, S ^ 1, e);   // opposite(S) contains e; T contains opposite(e)
        if (T >= 0) r = T;
      }
    }
  }
  return r;
}

// adjacent_halfface_on_sheet / adjacent_halfface_on_surface / neighboring_outside_halfface for halfface R and its k-th halfedge
HS_FN void check_nav_one(const HexK &m, const HSnap &s, int R, int k) {
  int e = hs_hf_he(s, R, k);
  // --- sheet
  int exp = hs_sheet_way(s, R, e);
  if (exp < 0) { int t = hs_sheet_way(s, R ^ 1, e ^ 1); exp = t >= 0 ? (t ^ 1) : -1; }
  v_assert(m.adjacent_halfface_on_sheet(HFH(R), HEH(e)).idx() == exp, "C16 adjacent_halfface_on_sheet == the halfface continuing hf across he on the neighbouring cell (either side), else invalid");
  // --- surface: some other halfface X around e (X contains e) such that X or opposite(X) is boundary; the boundary one is returned
  int n_ans = 0;
  int got = m.adjacent_halfface_on_surface(HFH(R), HEH(e)).idx();
  int got2 = m.neighboring_outside_halfface(HFH(R), HEH(e)).idx();
  bool got_ok = false, got2_ok = false;
  for (int f = 0; f < s.nF; ++f) {
    if (s.fdel[f] || !hs_face_has_edge(s, f, e >> 1)) continue;
    int X = hs_hf_has_he(s, 2 * f, e) ? 2 * f : 2 * f + 1;     // the side of f that contains e itself
    if (X == R) continue;
    int ans = hs_boundary_hf(s, X) ? X : (hs_boundary_hf(s, X ^ 1) ? (X ^ 1) : -1);
    if (ans >= 0) { ++n_ans; if (ans == got) got_ok = true; if (ans == got2) got2_ok = true; }
  }
  if (n_ans == 0) {
    v_assert(got == -1, "C16 adjacent_halfface_on_surface is invalid when no other face around he has a boundary side");
    v_assert(got2 == -1, "C16 neighboring_outside_halfface is invalid when no other face around he has a boundary side");
  } else {
    v_assert(got_ok, "C16 adjacent_halfface_on_surface returns the boundary halfface of another face around he");
    v_assert(got2_ok, "C16 neighboring_outside_halfface returns the boundary halfface of another face around he");
  }
}
static void check_navigation(const HexK &m, const HSnap &s, int rlo, int rhi) {
  for (int R = rlo; R < rhi && R < 2 * s.nF; ++R) if (!s.fdel[R >> 1]) { check_nav_one(m, s, R, 0); check_nav_one(m, s, R, 1); check_nav_one(m, s, R, 2); check_nav_one(m, s, R, 3); }
}

// HexVertexIter / hex_vertices: documented cube pattern
HS_FN void check_hex_vertices_cell(const HexK &m, const HSnap &s, int c) {
  int hv[9]; int n = 0;
  for (HexVertexIter it = m.hv_iter(CH(c)); it.valid() && n < 9; ++it) hv[n++] = (*it).idx();
  v_assert(n == 8, "C16 hv_iter yields exactly eight vertices in one lap");
  if (n != 8) return;
  // the range form yields the same sequence
  std::pair<HexVertexIter, HexVertexIter> rg = m.hex_vertices(CH(c));
  int n2 = 0; bool same = true;
  for (HexVertexIter it = rg.first; it != rg.second && n2 < 9; ++it, ++n2) if (n2 < 8 && (*it).idx() != hv[n2]) same = false;
  v_assert(n2 == 8 && same, "C16 hex_vertices range == hv_iter sequence");
  bool distinct = true;
  for (int i = 0; i < 8; ++i) for (int j = i + 1; j < 8; ++j) if (hv[i] == hv[j]) distinct = false;
  v_assert(distinct, "C16 hex_vertices are eight distinct vertices");
  // first four: first halfface's vertices AGAINST its cyclic order, starting at the source of its first halfedge
  int first = s.chf[c][0], opp = s.chf[c][1];
  for (int j = 0; j < 4; ++j)
    v_assert(hv[j] == hs_he_from(s, hs_hf_he(s, first, (4 - j) % 4)), "C16 hex_vertices[0..3] == first halfface's vertices against its order from the first halfedge's source");
  // last four: the opposite halfface's vertices
  for (int j = 4; j < 8; ++j) v_assert(hs_face_has_vertex(s, opp >> 1, hv[j]), "C16 hex_vertices[4..7] are vertices of the opposite (second) halfface");
  // cube pattern: 0-4, 1-7, 2-6, 3-5 joined by edges of the cell
  v_assert(hs_cell_edge_between(s, c, hv[0], hv[4]), "C16 hex_vertices 0-4 joined by a cell edge");
  v_assert(hs_cell_edge_between(s, c, hv[1], hv[7]), "C16 hex_vertices 1-7 joined by a cell edge");
  v_assert(hs_cell_edge_between(s, c, hv[2], hv[6]), "C16 hex_vertices 2-6 joined by a cell edge");
  v_assert(hs_cell_edge_between(s, c, hv[3], hv[5]), "C16 hex_vertices 3-5 joined by a cell edge");
}
static void check_hex_vertices(const HexK &m, const HSnap &s, int only = -1) {
  for (int c = 0; c < s.nC; ++c) if (!s.cdel[c] && (only < 0 || c == only)) check_hex_vertices_cell(m, s, c);
}

// sheet circulators; centre and direction enumerated (the constructors sort), target symbolic
HS_FN void check_csc_one(const HexK &m, const HSnap &s, int c, int d, int tc) {
  // neighbours across the four halffaces whose orientation is neither d nor opposite(d)
  int exp = 0;
  for (int k = 0; k < 6; ++k) if ((k >> 1) != (d >> 1) && hs_incident_cell(s, s.chf[c][k] ^ 1) == tc) exp = 1;
  CellSheetCellIter it = m.csc_iter(CH(c), (unsigned char)d);
  int cnt = 0, n = 0;
  for (; it.valid() && n < 8; ++it, ++n) if ((*it).idx() == tc) ++cnt;
  v_assert(!it.valid(), "C16 cell_sheet_cells terminates");
  v_assert(cnt == exp, "C16 cell_sheet_cells(c,d) == set of cells across the four halffaces not on axis d");
}
HS_FN void check_hfshf_one(const HexK &m, const HSnap &s, int R, int thf) {
  int C = hs_incident_cell(s, R);
  if (C < 0) { v_assert(!m.hfshf_iter(HFH(R)).valid(), "C16 halfface_sheet_halffaces of a boundary halfface is empty"); return; }
  int d = hs_pos_in_cell(s, C, R);
  // matching halffaces: halffaces of the sheet neighbours (across the four halffaces not on R's axis) that continue R across one of its
  // edges, i.e. contain a halfedge of opposite(R)
  int exp = 0; bool nb = false;
  int N = hs_incident_cell(s, thf);
  for (int k = 0; k < 6; ++k) if ((k >> 1) != (d >> 1) && N >= 0 && hs_incident_cell(s, s.chf[C][k] ^ 1) == N) nb = true;
  if (nb) { bool touches = false; for (int k = 0; k < 4; ++k) if (hs_hf_has_he(s, thf, hs_hf_he(s, R ^ 1, k))) touches = true; if (touches) exp = 1; }
  HalfFaceSheetHalfFaceIter it = m.hfshf_iter(HFH(R));
  int cnt = 0, n = 0; bool edges_ok = true;
  for (; it.valid() && n < 8; ++it, ++n) {
    if ((*it).idx() == thf) ++cnt;
    int ce = it.common_edge().idx();
    if (!(ce >= 0 && ce < s.nE && hs_face_has_edge(s, R >> 1, ce) && hs_face_has_edge(s, (*it).idx() >> 1, ce))) edges_ok = false;
  }
  v_assert(!it.valid(), "C16 halfface_sheet_halffaces terminates");
  v_assert(cnt == exp, "C16 halfface_sheet_halffaces(hf) == the matching halffaces of the sheet neighbours");
  v_assert(edges_ok, "C16 common_edge() is an edge of both the reference and the current halfface");
}
static void check_sheet_iters(const HexK &m, const HSnap &s, int rlo, int rhi) {
  const int tc = hprobe_below(s.nC), thf = hprobe_below(2 * s.nF);
  if (rlo == 0) for (int c = 0; c < s.nC; ++c) if (!s.cdel[c]) for (int d = 0; d < 6; ++d) check_csc_one(m, s, c, d, tc);
  for (int R = rlo; R < rhi && R < 2 * s.nF; ++R) if (!s.fdel[R >> 1]) check_hfshf_one(m, s, R, thf);
}

// parts: bit0 convention, bit1 orientation helpers, bit2 boundary, bit3 navigation, bit4 hex_vertices, bit5 sheet circulators;
// [rlo,rhi) = range of reference halffaces for the navigation / halfface-sheet parts (sharding)
enum { P_CONV = 1, P_ORI = 2, P_BND = 4, P_NAV = 8, P_HV = 16, P_SHEET = 32, P_ALL = 63 };
static void check_hex_all(const HexK &m, unsigned parts = P_ALL, int rlo = 0, int rhi = 2 * HXF, int only = -1) {   // only >= 0: per-cell parts for that cell only
  HSnap s; hs_take(m, s);
  v_assert(!s.overflow, "C16 harness snapshot capacity");
  if (s.overflow) return;
  if (!check_shape(m, s)) return;
  if (parts & P_CONV) for (int c = 0; c < s.nC; ++c) if (!s.cdel[c] && (only < 0 || c == only)) check_convention(s, c);
  if (parts & P_ORI) check_orientation_helpers(m, s, only);
  if (parts & P_BND) check_boundary(m, s);
  if (parts & P_NAV) check_navigation(m, s, rlo, rhi);
  if (parts & P_HV) check_hex_vertices(m, s, only);
  if (parts & P_SHEET) check_sheet_iters(m, s, rlo, rhi);
}

// ---------------------------------------------------------------------------- add_cell(8 vertices): documented positions
// halfface vertex lists of add_cell(vertices) in terms of the documented positions: XF XB YF YB ZF ZB
static const int DOC_FACE[6][4] = {{3, 2, 1, 0}, {7, 6, 5, 4}, {1, 2, 6, 7}, {4, 5, 3, 0}, {1, 7, 4, 0}, {2, 3, 5, 6}};
// cube edges of the documented picture
static const int DOC_EDGE[12][2] = {{0, 1}, {1, 2}, {2, 3}, {3, 0}, {4, 7}, {7, 6}, {6, 5}, {5, 4}, {0, 4}, {1, 7}, {2, 6}, {3, 5}};
static const int DOC_BEHIND[4] = {4, 7, 6, 5};   // position behind front position 0,1,2,3

// hex_vertices(c) is the documented pattern of the vertex list v[0..7] given to add_cell(vertices), up to a rotation about the first axis
HS_FN void check_hv_matches_input(const HexK &m, int c, const int *v) {
  int hv[9]; int n = 0;
  for (HexVertexIter it = m.hv_iter(CH(c)); it.valid() && n < 9; ++it) hv[n++] = (*it).idx();
  v_assert(n == 8, "C16 hv_iter yields exactly eight vertices in one lap");
  if (n != 8) return;
  int r = -1;
  for (int j = 0; j < 4; ++j) if (hv[0] == v[j]) r = j;
  v_assert(r >= 0, "C16 hex_vertices of a cell made from 8 vertices starts on the documented front face");
  if (r < 0) return;
  bool ok = true;
  for (int j = 0; j < 4; ++j) if (hv[j] != v[(r + j) % 4]) ok = false;
  if (hv[4] != v[DOC_BEHIND[r]] || hv[7] != v[DOC_BEHIND[(r + 1) % 4]] || hv[6] != v[DOC_BEHIND[(r + 2) % 4]] || hv[5] != v[DOC_BEHIND[(r + 3) % 4]]) ok = false;
  v_assert(ok, "C16 hex_vertices of a cell made from 8 vertices == the documented pattern of the input, up to a rotation about the first axis");
}

// no two live faces with the same vertex set, no two live edges with the same end points
HS_FN bool hs_same_face_vertices(const HSnap &s, int f, int g) {
  if (s.fval[f] != s.fval[g]) return false;
  bool all = true;
  for (int k = 0; k < HXFV; ++k) if (k < s.fval[f]) { int e = s.fhe[f][k] >> 1; if (!hs_face_has_vertex(s, g, s.efrom[e]) || !hs_face_has_vertex(s, g, s.eto[e])) all = false; }
  return all;
}
HS_FN void check_no_duplicates(const HSnap &s) {
  bool dupe = false, dupf = false;
  for (int a = 0; a < s.nE; ++a) for (int b = a + 1; b < s.nE; ++b)
    if (!s.edel[a] && !s.edel[b] && ((s.efrom[a] == s.efrom[b] && s.eto[a] == s.eto[b]) || (s.efrom[a] == s.eto[b] && s.eto[a] == s.efrom[b]))) dupe = true;
  for (int a = 0; a < s.nF; ++a) if (!s.fdel[a]) for (int b = a + 1; b < s.nF; ++b) if (!s.fdel[b] && hs_same_face_vertices(s, a, b)) dupf = true;
  v_assert(!dupe, "C16 add_cell(vertices) reuses existing edges: no two live edges join the same vertices");
  v_assert(!dupf, "C16 add_cell(vertices) reuses existing faces: no two live faces have the same vertices");
}
