// Shared mesh-state scheme for the mesh-level harnesses (DESIGN.md 2.0):
//   base meshes built through the real add_* API with concrete arguments,
//   snapshot of the observable top-down state into plain arrays,
//   brute-force oracles over the snapshot, selector dispatch helpers.
#pragma once
#include "verif.h"
#include <OpenVolumeMesh/Core/TopologyKernel.hh>
#include <utility>
#include <vector>

using namespace OpenVolumeMesh;

// --------------------------------------------------------------------------- small builders
// (std::vector<T>{a,b,c} is avoided on purpose: reserve+push_back keeps the IR type-faithful)
template <class H> static inline std::vector<H> vec2(H a, H b) { std::vector<H> v; v.reserve(2); v.push_back(a); v.push_back(b); return v; }
template <class H> static inline std::vector<H> vec3(H a, H b, H c) { std::vector<H> v; v.reserve(3); v.push_back(a); v.push_back(b); v.push_back(c); return v; }
template <class H> static inline std::vector<H> vec4(H a, H b, H c, H d) { std::vector<H> v; v.reserve(4); v.push_back(a); v.push_back(b); v.push_back(c); v.push_back(d); return v; }
template <class H> static inline std::vector<H> vec5(H a, H b, H c, H d, H e) { std::vector<H> v; v.reserve(5); v.push_back(a); v.push_back(b); v.push_back(c); v.push_back(d); v.push_back(e); return v; }
template <class H> static inline std::vector<H> vec6(H a, H b, H c, H d, H e, H f) { std::vector<H> v; v.reserve(6); v.push_back(a); v.push_back(b); v.push_back(c); v.push_back(d); v.push_back(e); v.push_back(f); return v; }

static inline FH tri(TopologyKernel &m, int a, int b, int c) { return m.add_face(vec3(VH(a), VH(b), VH(c))); }
static inline FH quad(TopologyKernel &m, int a, int b, int c, int d) { return m.add_face(vec4(VH(a), VH(b), VH(c), VH(d))); }
static inline HFH hf(FH f, int s) { return f.halfface_handle(s); }

// --------------------------------------------------------------------------- base family
enum Base { B_EMPTY = 0, B_LOWDIM = 1, B_TET = 2, B_TET2_FACE = 3, B_TET2_EDGE = 4, B_TET2_VERTEX = 5, B_TET3_RING = 6, B_HEX = 7, B_HEX2 = 8,
            B_PRISM_PYR = 9, B_TRI2 = 10, B_TET3_FAN = 11, B_TWOFACE = 12, B_TET_ODD = 13, N_BASES = 14 };

// one tetrahedron on vertices a,b,c,d (new faces as needed; shared faces are found by the caller)
static inline CH tet_on(TopologyKernel &m, int a, int b, int c, int d) {
  FH A = tri(m, a, b, c), B = tri(m, a, d, b), C = tri(m, b, d, c), D = tri(m, a, c, d);
  return m.add_cell(vec4(hf(A, 0), hf(B, 0), hf(C, 0), hf(D, 0)));
}

static void build_base(TopologyKernel &m, unsigned b) {
  switch (b) {
  case B_EMPTY: break;
  case B_LOWDIM: {  // triangle + dangling edge + isolated vertex + a duplicate edge
    m.add_n_vertices(5);
    tri(m, 0, 1, 2);                // E0 (0,1) E1 (1,2) E2 (2,0), F0
    m.add_edge(VH(2), VH(3));       // E3 dangling
    m.add_edge(VH(0), VH(1), true); // E4 duplicate of E0
    break; }                        // V4 isolated
  case B_TRI2: {    // two triangles sharing an edge, no cells (4V 5E 2F)
    m.add_n_vertices(4);
    tri(m, 0, 1, 2); tri(m, 2, 1, 3);
    break; }
  case B_TET: {     // 4V 6E 4F 1C
    m.add_n_vertices(4);
    tet_on(m, 0, 1, 2, 3);
    break; }
  case B_TET2_FACE: {  // two tets sharing face (0,1,2): 5V 9E 7F 2C
    m.add_n_vertices(5);
    tet_on(m, 0, 1, 2, 3);   // F0=(0,1,2) F1=(0,3,1) F2=(1,3,2) F3=(0,2,3)
    FH E = tri(m, 0, 1, 4), F = tri(m, 1, 2, 4), G = tri(m, 2, 0, 4);
    m.add_cell(vec4(hf(FH(0), 1), hf(E, 0), hf(F, 0), hf(G, 0)));
    break; }
  case B_TET2_EDGE: {  // two tets sharing only edge (0,1): 6V 11E 8F 2C
    m.add_n_vertices(6);
    tet_on(m, 0, 1, 2, 3);
    tet_on(m, 1, 0, 4, 5);
    break; }
  case B_TET2_VERTEX: {  // two tets sharing only vertex 0: 7V 12E 8F 2C
    m.add_n_vertices(7);
    tet_on(m, 0, 1, 2, 3);
    tet_on(m, 0, 4, 5, 6);
    break; }
  case B_TET3_RING: {  // three tets closed around edge (0,1), ring 2,3,4: 5V 10E 9F 3C
    m.add_n_vertices(5);
    FH a2 = tri(m, 0, 1, 2), a3 = tri(m, 0, 1, 3), a4 = tri(m, 0, 1, 4);
    // tet (0,1,2,3): faces (0,1,2) (0,3,1) (1,3,2) (0,2,3)
    FH p = tri(m, 1, 3, 2), q = tri(m, 0, 2, 3);
    m.add_cell(vec4(hf(a2, 0), hf(a3, 1), hf(p, 0), hf(q, 0)));
    // tet (0,1,3,4): faces (0,1,3) (0,4,1) (1,4,3) (0,3,4)
    FH r = tri(m, 1, 4, 3), s = tri(m, 0, 3, 4);
    m.add_cell(vec4(hf(a3, 0), hf(a4, 1), hf(r, 0), hf(s, 0)));
    // tet (0,1,4,2): faces (0,1,4) (0,2,1) (1,2,4) (0,4,2)
    FH t = tri(m, 1, 2, 4), u = tri(m, 0, 4, 2);
    m.add_cell(vec4(hf(a4, 0), hf(a2, 1), hf(t, 0), hf(u, 0)));
    break; }
  case B_TET3_FAN: {  // three tets in an open fan around edge (0,1), 2,3,4,5: 6V 12E 10F 3C
    m.add_n_vertices(6);
    FH a2 = tri(m, 0, 1, 2), a3 = tri(m, 0, 1, 3), a4 = tri(m, 0, 1, 4), a5 = tri(m, 0, 1, 5);
    FH p = tri(m, 1, 3, 2), q = tri(m, 0, 2, 3);
    m.add_cell(vec4(hf(a2, 0), hf(a3, 1), hf(p, 0), hf(q, 0)));
    FH t = tri(m, 1, 5, 4), u = tri(m, 0, 4, 5);   // attached out of order on purpose
    m.add_cell(vec4(hf(a4, 0), hf(a5, 1), hf(t, 0), hf(u, 0)));
    FH r = tri(m, 1, 4, 3), s = tri(m, 0, 3, 4);
    m.add_cell(vec4(hf(a3, 0), hf(a4, 1), hf(r, 0), hf(s, 0)));
    break; }
  case B_HEX: {  // 8V 12E 6F 1C
    m.add_n_vertices(8);
    FH f0 = quad(m, 0, 1, 2, 3), f1 = quad(m, 7, 6, 5, 4), f2 = quad(m, 1, 0, 4, 5), f3 = quad(m, 2, 1, 5, 6), f4 = quad(m, 3, 2, 6, 7), f5 = quad(m, 0, 3, 7, 4);
    m.add_cell(vec6(hf(f0, 1), hf(f1, 1), hf(f2, 1), hf(f3, 1), hf(f4, 1), hf(f5, 1)));
    break; }
  case B_HEX2: {  // two hexes sharing quad (4,5,6,7): 12V 20E 11F 2C
    m.add_n_vertices(12);
    FH f0 = quad(m, 0, 1, 2, 3), f1 = quad(m, 7, 6, 5, 4), f2 = quad(m, 1, 0, 4, 5), f3 = quad(m, 2, 1, 5, 6), f4 = quad(m, 3, 2, 6, 7), f5 = quad(m, 0, 3, 7, 4);
    m.add_cell(vec6(hf(f0, 1), hf(f1, 1), hf(f2, 1), hf(f3, 1), hf(f4, 1), hf(f5, 1)));
    FH g1 = quad(m, 11, 10, 9, 8), g2 = quad(m, 5, 4, 8, 9), g3 = quad(m, 6, 5, 9, 10), g4 = quad(m, 7, 6, 10, 11), g5 = quad(m, 4, 7, 11, 8);
    m.add_cell(vec6(hf(f1, 0), hf(g1, 1), hf(g2, 1), hf(g3, 1), hf(g4, 1), hf(g5, 1)));
    break; }
  case B_PRISM_PYR: {  // triangular prism (0..5) + pyramid with apex 6 on quad (1,2,5,4): 7V, mixed valences
    m.add_n_vertices(7);
    FH t0 = tri(m, 0, 2, 1), t1 = tri(m, 3, 4, 5);
    FH q0 = quad(m, 0, 1, 4, 3), q1 = quad(m, 1, 2, 5, 4), q2 = quad(m, 2, 0, 3, 5);
    m.add_cell(vec5(hf(t0, 0), hf(t1, 0), hf(q0, 0), hf(q1, 0), hf(q2, 0)));
    FH s0 = tri(m, 1, 2, 6), s1 = tri(m, 2, 5, 6), s2 = tri(m, 5, 4, 6), s3 = tri(m, 4, 1, 6);
    m.add_cell(vec5(hf(q1, 1), hf(s0, 0), hf(s1, 0), hf(s2, 0), hf(s3, 0)));
    break; }
  case B_TET_ODD: {  // one tetrahedron whose faces were created with the outward orientation: the cell lists the ODD halffaces (4V 6E 4F 1C)
    m.add_n_vertices(4);
    FH A = tri(m, 2, 1, 0), B = tri(m, 1, 3, 0), C = tri(m, 2, 3, 1), D = tri(m, 3, 2, 0);
    m.add_cell(vec4(hf(A, 1), hf(B, 1), hf(C, 1), hf(D, 1)));
    break; }
  case B_TWOFACE: {  // tet X=(0,1,2,3); 6-face cell Y glued to X across TWO faces (0,1,2) and (1,3,2); tet Z across (0,3,1): 6V 13E 11F 3C
    m.add_n_vertices(6);
    tet_on(m, 0, 1, 2, 3);   // F0=(0,1,2) F1=(0,3,1) F2=(1,3,2) F3=(0,2,3); X lists [F0,F1,F2,F3]: Y, Z, Y, boundary
    FH y0 = tri(m, 0, 1, 4), y1 = tri(m, 2, 0, 4), y2 = tri(m, 3, 2, 4), y3 = tri(m, 1, 3, 4);
    m.add_cell(vec6(hf(FH(0), 1), hf(FH(2), 1), hf(y0, 0), hf(y1, 0), hf(y2, 0), hf(y3, 0)));
    FH z0 = tri(m, 3, 1, 5), z1 = tri(m, 0, 3, 5), z2 = tri(m, 1, 0, 5);
    m.add_cell(vec4(hf(FH(1), 1), hf(z0, 0), hf(z1, 0), hf(z2, 0)));
    break; }
  default: break;
  }
}

// --------------------------------------------------------------------------- snapshot of the top-down state
enum { MAXV = 14, MAXE = 24, MAXF = 14, MAXFV = 6, MAXC = 4, MAXCV = 7 };
struct Snap {
  int nV, nE, nF, nC;
  bool vdel[MAXV];
  int efrom[MAXE], eto[MAXE]; bool edel[MAXE];
  int fval[MAXF]; int fhe[MAXF][MAXFV]; bool fdel[MAXF];
  int cval[MAXC]; int chf[MAXC][MAXCV]; bool cdel[MAXC];
  bool overflow;
  int vid[MAXV], eid[MAXE], fid[MAXF], cid[MAXC];   // identity tracking for the reference model (original index of the entity in each slot)
};

static void take_snapshot(const TopologyKernel &m, Snap &s) {
  s.overflow = false;
  for (int i = 0; i < MAXV; ++i) { s.vdel[i] = false; s.vid[i] = i; }
  for (int i = 0; i < MAXE; ++i) s.eid[i] = i;
  for (int i = 0; i < MAXF; ++i) s.fid[i] = i;
  for (int i = 0; i < MAXC; ++i) s.cid[i] = i;
  for (int i = 0; i < MAXE; ++i) { s.efrom[i] = 0; s.eto[i] = 0; s.edel[i] = false; }
  for (int i = 0; i < MAXF; ++i) { s.fval[i] = 0; s.fdel[i] = false; for (int k = 0; k < MAXFV; ++k) s.fhe[i][k] = 0; }
  for (int i = 0; i < MAXC; ++i) { s.cval[i] = 0; s.cdel[i] = false; for (int k = 0; k < MAXCV; ++k) s.chf[i][k] = 0; }
  s.nV = (int)m.n_vertices(); s.nE = (int)m.n_edges(); s.nF = (int)m.n_faces(); s.nC = (int)m.n_cells();
  if (s.nV > MAXV || s.nE > MAXE || s.nF > MAXF || s.nC > MAXC) { s.overflow = true; return; }
  for (int i = 0; i < s.nV; ++i) s.vdel[i] = m.is_deleted(VH(i));
  for (int i = 0; i < s.nE; ++i) { s.efrom[i] = m.edge(EH(i)).from_vertex().idx(); s.eto[i] = m.edge(EH(i)).to_vertex().idx(); s.edel[i] = m.is_deleted(EH(i)); }
  for (int i = 0; i < s.nF; ++i) {
    const std::vector<HEH> &hes = m.face(FH(i)).halfedges();
    s.fval[i] = (int)hes.size();
    if (s.fval[i] > MAXFV) { s.overflow = true; return; }
    for (int k = 0; k < s.fval[i]; ++k) s.fhe[i][k] = hes[(size_t)k].idx();
    s.fdel[i] = m.is_deleted(FH(i));
  }
  for (int i = 0; i < s.nC; ++i) {
    const std::vector<HFH> &hfs = m.cell(CH(i)).halffaces();
    s.cval[i] = (int)hfs.size();
    if (s.cval[i] > MAXCV) { s.overflow = true; return; }
    for (int k = 0; k < s.cval[i]; ++k) s.chf[i][k] = hfs[(size_t)k].idx();
    s.cdel[i] = m.is_deleted(CH(i));
  }
}

// brute-force helpers on a snapshot (the "definition side" of every oracle).  All loops run to the constant
// capacity with a guard, so that they can be called with SYMBOLIC indices without creating symbolic loop bounds.
static inline int snap_he_from(const Snap &s, int he) { return (he & 1) ? s.eto[he >> 1] : s.efrom[he >> 1]; }
static inline int snap_he_to(const Snap &s, int he) { return (he & 1) ? s.efrom[he >> 1] : s.eto[he >> 1]; }
// k-th halfedge of halfface hfh (side 1 = reversed list of opposite halfedges)
static inline int snap_hf_he(const Snap &s, int hfh, int k) {
  int f = hfh >> 1, n = s.fval[f];
  return (hfh & 1) ? (s.fhe[f][n - 1 - k] ^ 1) : s.fhe[f][k];
}
static inline int snap_count_he_in_hf(const Snap &s, int hfh, int he) {
  int f = hfh >> 1, c = 0;
  int want = (hfh & 1) ? (he ^ 1) : he;   // side 1 lists the opposite halfedges
  for (int k = 0; k < MAXFV; ++k) if (k < s.fval[f] && s.fhe[f][k] == want) ++c;
  return c;
}
static inline bool snap_face_has_edge(const Snap &s, int f, int e) {
  bool r = false;
  for (int k = 0; k < MAXFV; ++k) if (k < s.fval[f] && (s.fhe[f][k] >> 1) == e) r = true;
  return r;
}
static inline bool snap_face_has_vertex(const Snap &s, int f, int v) {
  bool r = false;
  for (int k = 0; k < MAXFV; ++k) if (k < s.fval[f]) { int e = s.fhe[f][k] >> 1; if (s.efrom[e] == v || s.eto[e] == v) r = true; }
  return r;
}
static inline bool snap_cell_has_hf(const Snap &s, int c, int hfh) {
  bool r = false;
  for (int k = 0; k < MAXCV; ++k) if (k < s.cval[c] && s.chf[c][k] == hfh) r = true;
  return r;
}
static inline bool snap_cell_has_face(const Snap &s, int c, int f) {
  bool r = false;
  for (int k = 0; k < MAXCV; ++k) if (k < s.cval[c] && (s.chf[c][k] >> 1) == f) r = true;
  return r;
}
static inline bool snap_cell_has_edge(const Snap &s, int c, int e) {
  bool r = false;
  for (int k = 0; k < MAXCV; ++k) if (k < s.cval[c] && snap_face_has_edge(s, s.chf[c][k] >> 1, e)) r = true;
  return r;
}
static inline bool snap_cell_has_vertex(const Snap &s, int c, int v) {
  bool r = false;
  for (int k = 0; k < MAXCV; ++k) if (k < s.cval[c] && snap_face_has_vertex(s, s.chf[c][k] >> 1, v)) r = true;
  return r;
}
// the live cell listing halfface hfh (-1 if none; -2 if more than one: outside the precondition)
static inline int snap_incident_cell(const Snap &s, int hfh) {
  int r = -1;
  for (int c = 0; c < MAXC; ++c) if (c < s.nC && !s.cdel[c] && snap_cell_has_hf(s, c, hfh)) r = (r == -1) ? c : -2;
  return r;
}
static inline bool snap_equal(const Snap &a, const Snap &b) {
  if (a.nV != b.nV || a.nE != b.nE || a.nF != b.nF || a.nC != b.nC) return false;
  for (int i = 0; i < a.nV; ++i) if (a.vdel[i] != b.vdel[i]) return false;
  for (int i = 0; i < a.nE; ++i) if (a.efrom[i] != b.efrom[i] || a.eto[i] != b.eto[i] || a.edel[i] != b.edel[i]) return false;
  for (int i = 0; i < a.nF; ++i) { if (a.fval[i] != b.fval[i] || a.fdel[i] != b.fdel[i]) return false; for (int k = 0; k < a.fval[i]; ++k) if (a.fhe[i][k] != b.fhe[i][k]) return false; }
  for (int i = 0; i < a.nC; ++i) { if (a.cval[i] != b.cval[i] || a.cdel[i] != b.cdel[i]) return false; for (int k = 0; k < a.cval[i]; ++k) if (a.chf[i][k] != b.chf[i][k]) return false; }
  return true;
}

// --------------------------------------------------------------------------- selector dispatch
// sel is symbolic; each case runs F<I>::run() (a distinct noinline function with literal constants), so the
// symbolic executor forks on sel and every case is executed with constant-folded containers.
template <template <unsigned> class F, unsigned... Is>
static inline void dispatch_seq(unsigned sel, std::integer_sequence<unsigned, Is...>) {
  ((sel == Is ? (F<Is>::run(), 0) : 0), ...);
}
template <template <unsigned> class F, unsigned N>
static inline void dispatch(unsigned sel) { dispatch_seq<F>(sel, std::make_integer_sequence<unsigned, N>{}); }

// generic trampoline: Case<I>::run() -> do_case(I), do_case being defined by the harness
static void do_case(unsigned i);
template <unsigned I> struct Case { static __attribute__((noinline)) void run() { do_case(I); } };
// CaseW: as Case, plus a per-case completion witness (a distinct call site per I).  Every dispatched case must complete
// normally; a case whose paths are all cut (undefined behaviour read through an invalid pointer, non-termination within the
// unwinding bound, ...) leaves its witness unreachable, which the driver replays natively (selector value I) and reports.
template <unsigned I> struct CaseW { static __attribute__((noinline)) void run() { do_case(I); v_witness("case returned"); } };
enum { CASES_PER_QUERY = 8 };

// deletion modes: bit0 = deferred, bit1 = fast
static inline void set_mode(TopologyKernel &m, unsigned mode) { m.enable_deferred_deletion((mode & 1) != 0); m.enable_fast_deletion((mode & 2) != 0); }
