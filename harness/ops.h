// Operation kinds applied by the mesh-level harnesses; arguments are entity indices.
#pragma once
#include "mesh_common.h"
enum Op { OP_NONE = 0, OP_DEL_V, OP_DEL_E, OP_DEL_F, OP_DEL_C, OP_ADD_V, OP_ADD_E, OP_ADD_E_DUP, OP_ADD_F, OP_ADD_C,
          OP_SWAP_V, OP_SWAP_E, OP_SWAP_F, OP_SWAP_C, OP_GC, OP_CLEAR, OP_BU_TOGGLE, OP_SET_E, OP_SET_F, OP_SET_C, OP_ADD_NV, OP_SET_MODE, OP_BU_OFF, OP_READD_C, N_OPS };

// a: first entity index, b: second (pairs) -- both already decoded to be in range by the caller
static void apply_op(TopologyKernel &m, unsigned op, unsigned a, unsigned b) {
  switch (op) {
  case OP_DEL_V: m.delete_vertex(VH((int)a)); break;
  case OP_DEL_E: m.delete_edge(EH((int)a)); break;
  case OP_DEL_F: m.delete_face(FH((int)a)); break;
  case OP_DEL_C: m.delete_cell(CH((int)a)); break;
  case OP_ADD_V: m.add_vertex(); break;
  case OP_ADD_NV: m.add_n_vertices(2); break;
  case OP_ADD_E: m.add_edge(VH((int)a), VH((int)b), false); break;
  case OP_ADD_E_DUP: m.add_edge(VH((int)a), VH((int)b), true); break;
  case OP_SWAP_V: m.swap_vertex_indices(VH((int)a), VH((int)b)); break;
  case OP_SWAP_E: m.swap_edge_indices(EH((int)a), EH((int)b)); break;
  case OP_SWAP_F: m.swap_face_indices(FH((int)a), FH((int)b)); break;
  case OP_SWAP_C: m.swap_cell_indices(CH((int)a), CH((int)b)); break;
  case OP_GC: m.collect_garbage(); break;
  case OP_SET_MODE: m.enable_deferred_deletion((a & 1) != 0); m.enable_fast_deletion((a & 2) != 0); break;   // deferred->immediate collects garbage
  case OP_BU_OFF: if (a & 1) m.enable_vertex_bottom_up_incidences(false); if (a & 2) m.enable_edge_bottom_up_incidences(false); if (a & 4) m.enable_face_bottom_up_incidences(false); break;
  case OP_CLEAR: m.clear(); break;
  case OP_BU_TOGGLE:  // a = subset of kinds to switch off and on again (bit0 V, bit1 E, bit2 F)
    if (a & 1) m.enable_vertex_bottom_up_incidences(false);
    if (a & 2) m.enable_edge_bottom_up_incidences(false);
    if (a & 4) m.enable_face_bottom_up_incidences(false);
    if (b & 1) { if (a & 4) m.enable_face_bottom_up_incidences(true); if (a & 2) m.enable_edge_bottom_up_incidences(true); if (a & 1) m.enable_vertex_bottom_up_incidences(true); }
    else { if (a & 1) m.enable_vertex_bottom_up_incidences(true); if (a & 2) m.enable_edge_bottom_up_incidences(true); if (a & 4) m.enable_face_bottom_up_incidences(true); }
    break;
  case OP_SET_E: {  // a = edge, b = from * nv + to
    unsigned nv = (unsigned)m.n_vertices(); m.set_edge(EH((int)a), VH((int)(b / nv)), VH((int)(b % nv))); break; }
  case OP_SET_F: {  // a = face, b = variant: 0 rotate the halfedge list by one, 1 reverse the orientation (reversed list of opposite halfedges)
    std::vector<HEH> hes = m.face(FH((int)a)).halfedges(), out; out.reserve(hes.size());
    if (b == 0) { for (size_t k = 1; k < hes.size(); ++k) out.push_back(hes[k]); out.push_back(hes[0]); }
    else { for (size_t k = hes.size(); k > 0; --k) out.push_back(hes[k - 1].opposite_handle()); }
    m.set_face(FH((int)a), out); break; }
  case OP_SET_C: {  // a = cell, b = variant: 0 rotate the halfface list by one, 1 reverse the list
    std::vector<HFH> hfs = m.cell(CH((int)a)).halffaces(), out; out.reserve(hfs.size());
    if (b == 0) { for (size_t k = 1; k < hfs.size(); ++k) out.push_back(hfs[k]); out.push_back(hfs[0]); }
    else { for (size_t k = hfs.size(); k > 0; --k) out.push_back(hfs[k - 1]); }
    m.set_cell(CH((int)a), out); break; }
  case OP_READD_C: {  // add a new cell on the halffaces of every deferred-deleted (not yet collected) cell whose faces are all live
    unsigned nc = (unsigned)m.n_cells();
    for (unsigned c = 0; c < nc; ++c) {
      if (!m.is_deleted(CH((int)c))) continue;
      std::vector<HFH> hfs = m.cell(CH((int)c)).halffaces(); bool ok = true;
      for (size_t k = 0; k < hfs.size(); ++k) if (m.is_deleted(hfs[k])) ok = false;
      if (ok) m.add_cell(hfs);
    }
    break; }
  case OP_ADD_F: {  // a, b: a = v0 * nv + v1, b = v2 (three distinct live vertices)
    unsigned nv = (unsigned)m.n_vertices(); m.add_face(vec3(VH((int)(a / nv)), VH((int)(a % nv)), VH((int)b))); break; }
  default: break;
  }
}
// number of argument tuples of an op on a mesh with the given counts
static unsigned op_arity_count(const TopologyKernel &m, unsigned op) {
  unsigned nv = (unsigned)m.n_vertices(), ne = (unsigned)m.n_edges(), nf = (unsigned)m.n_faces(), nc = (unsigned)m.n_cells();
  switch (op) {
  case OP_NONE: return 1;
  case OP_DEL_V: return nv; case OP_DEL_E: return ne; case OP_DEL_F: return nf; case OP_DEL_C: return nc;
  case OP_ADD_V: case OP_ADD_NV: case OP_GC: case OP_CLEAR: return 1;
  case OP_ADD_E: case OP_ADD_E_DUP: case OP_SWAP_V: return nv * nv;
  case OP_SWAP_E: return ne * ne; case OP_SWAP_F: return nf * nf; case OP_SWAP_C: return nc * nc;
  case OP_BU_TOGGLE: return 14;   // subsets 1..7 x two re-enable orders
  case OP_SET_MODE: return 4; case OP_BU_OFF: return 8; case OP_READD_C: return 1;
  case OP_SET_E: return ne * nv * nv; case OP_SET_F: return nf * 2; case OP_SET_C: return nc * 2; case OP_ADD_F: return nv * nv * nv;
  default: return 0;
  }
}
static void op_decode(const TopologyKernel &m, unsigned op, unsigned idx, unsigned &a, unsigned &b) {
  unsigned nv = (unsigned)m.n_vertices(), ne = (unsigned)m.n_edges(), nf = (unsigned)m.n_faces(), nc = (unsigned)m.n_cells();
  a = idx; b = 0;
  switch (op) {
  case OP_ADD_E: case OP_ADD_E_DUP: case OP_SWAP_V: a = idx / nv; b = idx % nv; break;
  case OP_SWAP_E: a = idx / ne; b = idx % ne; break;
  case OP_SWAP_F: a = idx / nf; b = idx % nf; break;
  case OP_SWAP_C: a = idx / nc; b = idx % nc; break;
  case OP_BU_TOGGLE: a = 1 + idx / 2; b = idx % 2; break;
  case OP_SET_E: a = idx / (nv * nv); b = idx % (nv * nv); break;
  case OP_SET_F: case OP_SET_C: a = idx / 2; b = idx % 2; break;
  case OP_ADD_F: a = idx / nv; b = idx % nv; break;
  default: break;
  }
}
// is the op's precondition satisfied (arguments live)?
static bool op_valid(const TopologyKernel &m, unsigned op, unsigned a, unsigned b) {
  switch (op) {
  case OP_DEL_V: return !m.is_deleted(VH((int)a));
  case OP_DEL_E: return !m.is_deleted(EH((int)a));
  case OP_DEL_F: return !m.is_deleted(FH((int)a));
  case OP_DEL_C: return !m.is_deleted(CH((int)a));
  case OP_ADD_E: case OP_ADD_E_DUP: return !m.is_deleted(VH((int)a)) && !m.is_deleted(VH((int)b)) && a != b;
  case OP_SET_E: { unsigned nv = (unsigned)m.n_vertices(); unsigned f = b / nv, t = b % nv; return !m.is_deleted(EH((int)a)) && !m.is_deleted(VH((int)f)) && !m.is_deleted(VH((int)t)) && f != t; }
  case OP_SET_F: return !m.is_deleted(FH((int)a));
  case OP_SET_C: return !m.is_deleted(CH((int)a));
  case OP_ADD_F: { unsigned nv = (unsigned)m.n_vertices(); unsigned v0 = a / nv, v1 = a % nv, v2 = b; return v0 != v1 && v1 != v2 && v0 != v2 && !m.is_deleted(VH((int)v0)) && !m.is_deleted(VH((int)v1)) && !m.is_deleted(VH((int)v2)); }
  default: return true;
  }
}
