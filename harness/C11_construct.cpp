// C11: construction validates.  add_edge de-duplication; add_face / add_cell with topology check accept exactly the
// closed loops / closed surfaces; a rejected or de-duplicated call leaves the observable snapshot unchanged, an accepted
// one appends exactly the given definition.
// Entries (see spec_C11.py for the shard parameters of each):
//   harness_c11_edge_nobu  add_edge, vertex bottom-up incidences OFF: both vertices FREE symbolic
//   harness_c11_edge_bu    add_edge, all bottom-up incidences on: ordered vertex pair by selector dispatch
//   harness_c11_face_sym   add_face(list, true): list length 1..5 (shard parameter), every element a FREE symbolic halfedge; edge bottom-up OFF
//   harness_c11_face_bu    add_face(list, true), all bottom-up on: concrete list families by selector dispatch
//   harness_c11_cell       add_cell(list, true), all bottom-up on: concrete list families by selector dispatch
//   harness_c11_cell_sym   add_cell(list, true): EXPERIMENT, free symbolic elements (no verdict in 300 s: not part of any job)
//   harness_c11_empty_face / harness_c11_empty_cell   the empty list
#include "ops.h"
#include "c11_common.h"

#ifndef C11_PER
#define C11_PER CASES_PER_QUERY   // dispatched cases per query (smaller for the two-cell bases)
#endif
enum { E_EDGE_NOBU = 1, E_EDGE_BU, E_FACE_SYM, E_FACE_BU, E_CELL, E_CELL_SYM };
static unsigned g_entry;
static bool g_done;   // the dispatched case ran to its end (single always-reachable witness site in do_case)
// development aid: outcome-specific witnesses (not reachable in every shard, therefore not part of the checked harness)
#ifdef C11_DEV_WITNESS
#define DEV_WITNESS(n) v_witness(n)
#else
#define DEV_WITNESS(n) ((void)0)
#endif

#define C11_COUNTS(m, s) do { int dv_, de_, df_, dc_; c11_count_deleted(s, dv_, de_, df_, dc_); \
    v_assert(c11_counts_consistent(m, s, dv_, de_, df_, dc_), "C11 entity counters (n_*, n_half*, n_logical_*) agree with the stored entities"); } while (0)

// ------------------------------------------------------------------------------------------------- add_edge
// cfg bit0 = allowDuplicates, bit1 = one edge (E0) was deleted before under deferred deletion (its definition stays stored)
static void edge_prepare(TopologyKernel &m, unsigned base, unsigned cfg) {
  if (cfg & 2) m.enable_deferred_deletion(true);
  build_base(m, base);
  if (cfg & 2) m.delete_edge(EH(0));
}
static void edge_check(const TopologyKernel &m, const Snap &s0, int a, int b, bool dup, int r) {
  Snap s1; take_snapshot(m, s1);
  if (s1.overflow) return;
  bool ex = false, sound = false;   // brute force: a live edge between a and b, in either direction
  for (int e = 0; e < s0.nE; ++e) if (!s0.edel[e] && ((s0.efrom[e] == a && s0.eto[e] == b) || (s0.efrom[e] == b && s0.eto[e] == a))) { ex = true; if (r == e) sound = true; }
  if (!dup && ex) {
    v_assert(sound, "C11 add_edge(no duplicates): returns an existing LIVE edge between the two vertices when brute force finds one");
    v_assert(snap_equal(s0, s1), "C11 add_edge(no duplicates): a de-duplicated call leaves the mesh unchanged");
    DEV_WITNESS("C11 add_edge deduplicated");
  } else {
    v_assert(r == s0.nE, "C11 add_edge: otherwise a new edge is created and its handle returned");
    v_assert(s1.nE == s0.nE + 1 && s1.nV == s0.nV && s1.nF == s0.nF && s1.nC == s0.nC, "C11 add_edge: exactly one edge is appended");
    if (s1.nE == s0.nE + 1) v_assert(s1.efrom[s0.nE] == a && s1.eto[s0.nE] == b && !s1.edel[s0.nE], "C11 add_edge: the new edge is live and runs from the first to the second vertex");
    v_assert(c11_prefix_equal(s0, s1), "C11 add_edge: nothing else changes");
    DEV_WITNESS("C11 add_edge created");
  }
  C11_COUNTS(m, s1);
  g_done = true;
}
static void case_edge_nobu(unsigned i) {   // i = allowDuplicates, v_param(1) = pre-deleted edge
  unsigned base = v_param(0);
  if (i >= 2) return;
  i |= (v_param(1) & 1) << 1;
  TopologyKernel m;
  edge_prepare(m, base, i);
  m.enable_vertex_bottom_up_incidences(false);
  Snap s0; take_snapshot(m, s0);
  if (s0.overflow || s0.nV < 2) return;
  int a = c11_below(s0.nV), b = c11_below(s0.nV);
  v_assume(a != b && !s0.vdel[a] && !s0.vdel[b]);
  int r = m.add_edge(VH(a), VH(b), (i & 1) != 0).idx();
  edge_check(m, s0, a, b, (i & 1) != 0, r);
}
static const unsigned char BASE_N[N_BASES][4] = {{0,0,0,0},{5,5,1,0},{4,6,4,1},{5,9,7,2},{6,11,8,2},{7,12,8,2},{5,9,9,3},{8,12,6,1},{12,20,11,2},{7,12,9,2},{4,5,2,0},{6,12,10,3}};
static void case_edge_bu(unsigned i) {   // ordered pair index = chunk * C11_PER + i
  if (i >= C11_PER) return;
  unsigned base = v_param(0), cfg = v_param(1), idx = v_param(2) * C11_PER + i;
  unsigned nv = BASE_N[base][0];
  if (nv < 2 || idx >= nv * (nv - 1)) return;   // idx enumerates the ordered pairs a != b
  TopologyKernel m;
  edge_prepare(m, base, cfg);
  Snap s0; take_snapshot(m, s0);
  int a = (int)(idx / (nv - 1)), b = (int)(idx % (nv - 1));
  if (b >= a) ++b;
  if (s0.overflow || s0.vdel[a] || s0.vdel[b]) return;
  int r = m.add_edge(VH(a), VH(b), (cfg & 1) != 0).idx();
  edge_check(m, s0, a, b, (cfg & 1) != 0, r);
}

// ------------------------------------------------------------------------------------------------- add_face
static void face_check(const TopologyKernel &m, const Snap &s0, const int *h, int n, int r) {
  Snap s1; take_snapshot(m, s1);
  if (s1.overflow) return;
  bool loop = c11_closed_loop(s0, h, n);
  v_assert((r >= 0) == loop, "C11 add_face(topologyCheck): succeeds iff the halfedges form a closed loop");
  if (r < 0) {
    v_assert(r == -1, "C11 add_face: a rejected call returns the invalid handle");
    v_assert(snap_equal(s0, s1), "C11 add_face: a rejected call leaves the mesh unchanged");
    DEV_WITNESS("C11 add_face rejected");
  } else {
    v_assert(r == s0.nF, "C11 add_face: an accepted call returns the handle of the appended face");
    v_assert(s1.nF == s0.nF + 1 && s1.nV == s0.nV && s1.nE == s0.nE && s1.nC == s0.nC, "C11 add_face: exactly one face is appended");
    if (s1.nF == s0.nF + 1) {
      bool same = s1.fval[s0.nF] == n && !s1.fdel[s0.nF];
      if (s1.fval[s0.nF] == n) for (int k = 0; k < n; ++k) if (s1.fhe[s0.nF][k] != h[k]) same = false;
      v_assert(same, "C11 add_face: the new face is live and has exactly the given halfedges in the given order");
    }
    v_assert(c11_prefix_equal(s0, s1), "C11 add_face: nothing else changes");
    DEV_WITNESS("C11 add_face accepted");
  }
  C11_COUNTS(m, s1);
  g_done = true;
}
static void case_face_sym(unsigned i) {   // list length = v_param(1) (one case per query: 35 s .. 150 s of symbolic execution)
  unsigned base = v_param(0);
  const int n = (int)v_param(1);
  if (i != 0 || n < 1 || n > 5) return;
  TopologyKernel m;
  build_base(m, base);
  m.enable_edge_bottom_up_incidences(false);   // the accepted path would index incident_hfs_per_he_ with the symbolic handles
  Snap s0; take_snapshot(m, s0);
  if (s0.overflow || s0.nE == 0) return;
  int h[5];
  std::vector<HEH> list; list.reserve((size_t)n);
  for (int k = 0; k < n; ++k) { h[k] = c11_below(2 * s0.nE); v_assume(!s0.edel[h[k] >> 1]); list.push_back(HEH(h[k])); }
  int r = m.add_face(list, true).idx();
  face_check(m, s0, h, n, r);
}
// concrete families around face f of the base (halfedges e[0..n)):
//  family 0: idx = (f, variant): rotations of the list (n), rotations of the opposite orientation (n), one element dropped (n), first element doubled (1), single element (1)
//  family 1: idx = (f, p, x): element p replaced by halfedge x (every position, every halfedge)
static void case_face_bu(unsigned i) {
  if (i >= C11_PER) return;
  unsigned base = v_param(0), fam = v_param(1), idx = v_param(2) * C11_PER + i;
  const unsigned nf = BASE_N[base][2], nhe = 2u * BASE_N[base][1];
  const unsigned MAXN = (base == B_HEX || base == B_HEX2) ? 4 : 3;   // face valence of the base (uniform-valence bases only)
  if (fam == 0 ? idx >= nf * (3 * MAXN + 2) : idx >= nf * MAXN * nhe) return;
  TopologyKernel m;
  build_base(m, base);
  Snap s0; take_snapshot(m, s0);
  if (s0.overflow) return;
  int h[6], n = 0;
  if (fam == 0) {
    unsigned f = idx / (3 * MAXN + 2), var = idx % (3 * MAXN + 2);
    const int fv = s0.fval[f];
    if (var < MAXN) { if ((int)var >= fv) return; for (int k = 0; k < fv; ++k) h[n++] = snap_hf_he(s0, (int)(2 * f), (k + (int)var) % fv); }
    else if (var < 2 * MAXN) { int ro = (int)(var - MAXN); if (ro >= fv) return; for (int k = 0; k < fv; ++k) h[n++] = snap_hf_he(s0, (int)(2 * f + 1), (k + ro) % fv); }
    else if (var < 3 * MAXN) { int dr = (int)(var - 2 * MAXN); if (dr >= fv) return; for (int k = 0; k < fv; ++k) if (k != dr) h[n++] = s0.fhe[f][k]; }
    else if (var == 3 * MAXN) { for (int k = 0; k < fv; ++k) h[n++] = s0.fhe[f][k]; h[n++] = s0.fhe[f][0]; }
    else { h[n++] = s0.fhe[f][0]; }
  } else {
    unsigned f = idx / (MAXN * nhe), p = (idx / nhe) % MAXN, x = idx % nhe;
    const int fv = s0.fval[f];
    if ((int)p >= fv) return;
    for (int k = 0; k < fv; ++k) h[n++] = (k == (int)p) ? (int)x : s0.fhe[f][k];
  }
  std::vector<HEH> list; list.reserve((size_t)n);
  for (int k = 0; k < n; ++k) list.push_back(HEH(h[k]));
  int r = m.add_face(list, true).idx();
  face_check(m, s0, h, n, r);
}

// ------------------------------------------------------------------------------------------------- add_cell
static void cell_check(const TopologyKernel &m, const Snap &s0, const int *g, int n, int r) {
  Snap s1; take_snapshot(m, s1);
  if (s1.overflow) return;
  bool closed = c11_closed_surface(s0, g, n);
  v_assert((r >= 0) == closed, "C11 add_cell(topologyCheck): succeeds iff every halfedge of the listed halffaces occurs once and is matched exactly once by its opposite");
  if (r < 0) {
    v_assert(r == -1, "C11 add_cell: a rejected call returns the invalid handle");
    v_assert(snap_equal(s0, s1), "C11 add_cell: a rejected call leaves the mesh unchanged");
    DEV_WITNESS("C11 add_cell rejected");
  } else {
    v_assert(r == s0.nC, "C11 add_cell: an accepted call returns the handle of the appended cell");
    v_assert(s1.nC == s0.nC + 1 && s1.nV == s0.nV && s1.nE == s0.nE && s1.nF == s0.nF, "C11 add_cell: exactly one cell is appended");
    if (s1.nC == s0.nC + 1) {
      bool same = s1.cval[s0.nC] == n && !s1.cdel[s0.nC];
      if (s1.cval[s0.nC] == n) for (int k = 0; k < n; ++k) if (s1.chf[s0.nC][k] != g[k]) same = false;
      v_assert(same, "C11 add_cell: the new cell is live and has exactly the given halffaces in the given order");
    }
    v_assert(c11_prefix_equal(s0, s1), "C11 add_cell: nothing else changes");
    DEV_WITNESS("C11 add_cell accepted");
  }
  C11_COUNTS(m, s1);
  g_done = true;
}
// the reference closed surface V of a base: B_TET/B_HEX/...: the halffaces of cell 0; B_TET2_FACE: the 6 outer halffaces of the two tets
static int cell_reference(const Snap &s, unsigned base, int *V) {
  int n = 0;
  if (base == B_TET2_FACE) {
    for (int c = 0; c < 2; ++c) for (int k = 0; k < s.cval[c]; ++k) if ((s.chf[c][k] >> 1) != 0) V[n++] = s.chf[c][k] ^ 1;   // seen from outside
  } else if (s.nC > 0) {
    for (int k = 0; k < s.cval[0]; ++k) V[n++] = s.chf[0][k];
  }
  return n;
}
// families (L = |V|, nHF = number of halffaces):
//  0 "replace": idx = (p, x): V with V[p] := x                                               L * nHF cases
//  1 "edit":    idx < L: V without V[idx]; < 2L: V + a second copy of V[idx-L]; < 3L: V rotated by idx-2L; 3L: every halfface of V flipped   (3L+1 cases)
//  2 "short":   idx < nHF: the single halfface idx; then all ordered pairs (x, y)            nHF + nHF^2 cases
//  3 "pillows": idx = (f, f'): both halffaces of f and both of f' (two disconnected closed surfaces if f != f')   nF^2 cases
static void case_cell(unsigned i) {
  if (i >= C11_PER) return;
  unsigned base = v_param(0), fam = v_param(1), idx = v_param(2) * C11_PER + i;
  const unsigned nf = BASE_N[base][2], nhf = 2 * nf;
  const unsigned L = (base == B_TET2_FACE) ? 6 : (base == B_HEX ? 6 : (base == B_PRISM_PYR ? 5 : 4));
  unsigned count = fam == 0 ? L * nhf : fam == 1 ? 3 * L + 1 : fam == 2 ? nhf + nhf * nhf : nf * nf;
  if (idx >= count) return;
  TopologyKernel m;
  build_base(m, base);
  Snap s0; take_snapshot(m, s0);
  if (s0.overflow) return;
  int V[MAXCV], g[MAXCV + 1], n = 0;
  const int l = cell_reference(s0, base, V);
  V_ASSERT(l == (int)L && c11_closed_surface(s0, V, l));   // harness self-check: the reference list is a closed surface
  if (fam == 0) { unsigned p = idx / nhf, x = idx % nhf; for (int k = 0; k < l; ++k) g[n++] = (k == (int)p) ? (int)x : V[k]; }
  else if (fam == 1) {
    if (idx < L) { for (int k = 0; k < l; ++k) if (k != (int)idx) g[n++] = V[k]; }
    else if (idx < 2 * L) { for (int k = 0; k < l; ++k) g[n++] = V[k]; g[n++] = V[idx - L]; }
    else if (idx < 3 * L) { for (int k = 0; k < l; ++k) g[n++] = V[(k + (int)(idx - 2 * L)) % l]; }
    else { for (int k = 0; k < l; ++k) g[n++] = V[k] ^ 1; }
  } else if (fam == 2) {
    if (idx < nhf) g[n++] = (int)idx; else { g[n++] = (int)((idx - nhf) / nhf); g[n++] = (int)((idx - nhf) % nhf); }
  } else { unsigned f = idx / nf, f2 = idx % nf; g[n++] = (int)(2 * f); g[n++] = (int)(2 * f + 1); g[n++] = (int)(2 * f2); g[n++] = (int)(2 * f2 + 1); }
  std::vector<HFH> list; list.reserve((size_t)n);
  for (int k = 0; k < n; ++k) list.push_back(HFH(g[k]));
  int r = m.add_cell(list, true).idx();
  cell_check(m, s0, g, n, r);
}
static void case_cell_sym(unsigned i) {   // EXPERIMENT: list length i + 1, free symbolic halffaces, face bottom-up off
  unsigned base = v_param(0);
  const int n = (int)i + 1;
  if (n != (int)v_param(1)) return;
  TopologyKernel m;
  build_base(m, base);
  m.enable_face_bottom_up_incidences(false);
  Snap s0; take_snapshot(m, s0);
  if (s0.overflow || s0.nF == 0) return;
  int g[8];
  std::vector<HFH> list; list.reserve((size_t)n);
  for (int k = 0; k < n; ++k) { g[k] = c11_below(2 * s0.nF); list.push_back(HFH(g[k])); }
  int r = m.add_cell(list, true).idx();
  cell_check(m, s0, g, n, r);
}

static __attribute__((noinline)) void do_case(unsigned i) {
  switch (g_entry) {
  case E_EDGE_NOBU: case_edge_nobu(i); break;
  case E_EDGE_BU: case_edge_bu(i); break;
  case E_FACE_SYM: case_face_sym(i); break;
  case E_FACE_BU: case_face_bu(i); break;
  case E_CELL: case_cell(i); break;
  case E_CELL_SYM: case_cell_sym(i); break;
  default: break;
  }
  if (g_done) v_witness("C11 case end");
}
static inline void run_entry(unsigned e, unsigned ncases) {
  g_entry = e; g_done = false;
  unsigned sel = v_nondet_u32();
  v_assume(sel < ncases);
  dispatch<Case, CASES_PER_QUERY>(sel);
}
extern "C" void harness_c11_edge_nobu() { run_entry(E_EDGE_NOBU, 2); }
extern "C" void harness_c11_edge_bu() { run_entry(E_EDGE_BU, C11_PER); }
extern "C" void harness_c11_face_sym() { run_entry(E_FACE_SYM, 1); }
extern "C" void harness_c11_face_bu() { run_entry(E_FACE_BU, C11_PER); }
extern "C" void harness_c11_cell() { run_entry(E_CELL, C11_PER); }
extern "C" void harness_c11_cell_sym() { run_entry(E_CELL_SYM, 6); }

// ------------------------------------------------------------------------------------------------- the empty list
// "every argument list of live handles: empty, ...": whatever the verdict on the empty list is, the call must be memory-safe
// and either reject (invalid handle, mesh unchanged) or append exactly the (empty) definition.
// (the mesh is deliberately leaked: destructors after a call with undefined behaviour only blow up the query)
extern "C" void harness_c11_empty_face() {
  TopologyKernel *mp = new TopologyKernel; TopologyKernel &m = *mp;
  build_base(m, v_param(0));
  Snap s0; take_snapshot(m, s0);
  m.enable_edge_bottom_up_incidences(false);   // keeps the query small: after the invalid read everything the accepted path touches is symbolic
  std::vector<HEH> list;
  int r = m.add_face(list, true).idx();
  v_witness("C11 add_face(empty) returned");
#ifndef C11_EMPTY_CALL_ONLY
  Snap s1; take_snapshot(m, s1);
  v_assert(r >= 0 ? (r == s0.nF && s1.nF == s0.nF + 1 && s1.fval[s0.nF] == 0 && c11_prefix_equal(s0, s1)) : (r == -1 && snap_equal(s0, s1)),
           "C11 add_face(empty list, topologyCheck): rejected with the mesh unchanged, or exactly the empty definition appended");
#endif
}
extern "C" void harness_c11_empty_cell() {
  TopologyKernel *mp = new TopologyKernel; TopologyKernel &m = *mp;
  build_base(m, v_param(0));
  Snap s0; take_snapshot(m, s0);
  std::vector<HFH> list;
  int r = m.add_cell(list, true).idx();
  v_witness("C11 add_cell(empty) returned");
#ifndef C11_EMPTY_CALL_ONLY
  Snap s1; take_snapshot(m, s1);
  v_assert(r >= 0 ? (r == s0.nC && s1.nC == s0.nC + 1 && s1.cval[s0.nC] == 0 && c11_prefix_equal(s0, s1)) : (r == -1 && snap_equal(s0, s1)),
           "C11 add_cell(empty list, topologyCheck): rejected with the mesh unchanged, or exactly the empty definition appended");
#endif
}
