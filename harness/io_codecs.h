// Shared by the OVMB property-codec harnesses (C06_propcodecs.cpp, C07_propcodecs.cpp): the table of registered codecs
// (mirror of PropertyCodecs::add_default_types / add_ovm_vector_types in IO/PropertyCodecs.cc), compile-time selection of
// one codec (-DCODEC=<id>), a local registry filled by the repository's own register_codec<>, selector-dispatch helpers.
#pragma once
#include "verif.h"
#include <OpenVolumeMesh/IO/PropertyCodecs.hh>
#include <OpenVolumeMesh/IO/PropertyCodecsT_impl.hh>
#include <OpenVolumeMesh/IO/detail/Decoder.hh>
#include <OpenVolumeMesh/IO/detail/Encoder.hh>
#include <OpenVolumeMesh/IO/detail/WriteBuffer.hh>
#include <OpenVolumeMesh/IO/detail/exceptions.hh>
#include <OpenVolumeMesh/Core/Properties/PropertyStorageT.hh>
#include <OpenVolumeMesh/Core/ResourceManager.hh>
#include <OpenVolumeMesh/Core/detail/internal_type_name.hh>
#include <OpenVolumeMesh/Geometry/VectorT.hh>
#include <utility>
using namespace OpenVolumeMesh;
using namespace OpenVolumeMesh::IO;
using namespace OpenVolumeMesh::IO::detail;

// BoolPropCodec is defined inside IO/PropertyCodecs.cc; its registration template instantiation
// PropertyCodecs::register_codec<Codecs::BoolPropCodec> is emitted by that unit and linked from there.
namespace OpenVolumeMesh::IO::Codecs { struct BoolPropCodec; }
extern template void OpenVolumeMesh::IO::PropertyCodecs::register_codec<OpenVolumeMesh::IO::Codecs::BoolPropCodec>(std::string const &);

// ---- codec table: X(id, ovmb name, value type, Codec, bytes per element (0 = variable), scalar type, scalars per element)
#define IOC_P(T) Codecs::SimplePropCodec<Codecs::Primitive<T>>
#define IOC_H(T) Codecs::SimplePropCodec<Codecs::OVMHandle<T>>
#define IOC_A(S, N) Codecs::SimplePropCodec<Codecs::ArrayLike<VectorT<S, N>, N>>
#define IOC_V(S, N) VectorT<S, N>
#define CODEC_TABLE(X) \
  X(0, "b", bool, Codecs::BoolPropCodec, 0, bool, 1) \
  X(1, "u8", uint8_t, IOC_P(uint8_t), 1, uint8_t, 1) X(2, "u16", uint16_t, IOC_P(uint16_t), 2, uint16_t, 1) X(3, "u32", uint32_t, IOC_P(uint32_t), 4, uint32_t, 1) X(4, "u64", uint64_t, IOC_P(uint64_t), 8, uint64_t, 1) \
  X(5, "i8", int8_t, IOC_P(int8_t), 1, int8_t, 1) X(6, "i16", int16_t, IOC_P(int16_t), 2, int16_t, 1) X(7, "i32", int32_t, IOC_P(int32_t), 4, int32_t, 1) X(8, "i64", int64_t, IOC_P(int64_t), 8, int64_t, 1) \
  X(9, "f", float, IOC_P(float), 4, float, 1) X(10, "d", double, IOC_P(double), 8, double, 1) X(11, "s32", std::string, IOC_P(std::string), 0, char, 0) \
  X(12, "vh", VH, IOC_H(VH), 4, int32_t, 1) X(13, "eh", EH, IOC_H(EH), 4, int32_t, 1) X(14, "heh", HEH, IOC_H(HEH), 4, int32_t, 1) X(15, "fh", FH, IOC_H(FH), 4, int32_t, 1) X(16, "hfh", HFH, IOC_H(HFH), 4, int32_t, 1) X(17, "ch", CH, IOC_H(CH), 4, int32_t, 1) \
  X(18, "2d", IOC_V(double, 2), IOC_A(double, 2), 16, double, 2) X(19, "3d", IOC_V(double, 3), IOC_A(double, 3), 24, double, 3) X(20, "4d", IOC_V(double, 4), IOC_A(double, 4), 32, double, 4) \
  X(21, "2f", IOC_V(float, 2), IOC_A(float, 2), 8, float, 2) X(22, "3f", IOC_V(float, 3), IOC_A(float, 3), 12, float, 3) X(23, "4f", IOC_V(float, 4), IOC_A(float, 4), 16, float, 4) \
  X(24, "2u32", IOC_V(uint32_t, 2), IOC_A(uint32_t, 2), 8, uint32_t, 2) X(25, "3u32", IOC_V(uint32_t, 3), IOC_A(uint32_t, 3), 12, uint32_t, 3) X(26, "4u32", IOC_V(uint32_t, 4), IOC_A(uint32_t, 4), 16, uint32_t, 4) \
  X(27, "2i32", IOC_V(int32_t, 2), IOC_A(int32_t, 2), 8, int32_t, 2) X(28, "3i32", IOC_V(int32_t, 3), IOC_A(int32_t, 3), 12, int32_t, 3) X(29, "4i32", IOC_V(int32_t, 4), IOC_A(int32_t, 4), 16, int32_t, 4)
#ifndef CODEC
#define CODEC 3
#endif
template <int ID> struct CodecSel;
#define IOC_X(id, name, T, C, esz, S, NS) template <> struct CodecSel<id> { using type = T; using codec = C; using scalar = S; \
  static constexpr unsigned ESZ = esz; static constexpr unsigned NSCAL = NS; static const char *ovmb() { return name; } };
CODEC_TABLE(IOC_X)
#undef IOC_X
using Sel = CodecSel<CODEC>;
using T = Sel::type;
static constexpr unsigned ESZ = Sel::ESZ;
static constexpr bool IS_BOOL = (CODEC == 0), IS_STR = (CODEC == 11), IS_HANDLE = (CODEC >= 12 && CODEC <= 17), IS_VEC = (CODEC >= 18);

template <template <unsigned> class F, unsigned... Is>
static inline void dispatch_seq(unsigned sel, std::integer_sequence<unsigned, Is...>) { ((sel == Is ? (F<Is>::run(), 0) : 0), ...); }
static uint8_t g_raw[136];  // symbolic bytes (plain global array: reads at constant offsets fold)
// lengths LO..HI, one literal-constant case per length (selector dispatch), all in one solver query
#define LEN_HARNESS(name, LO, HI)                                                                                   \
  static void body_##name(unsigned len);                                                                            \
  template <unsigned I> struct Case_##name { static __attribute__((noinline)) void run() { body_##name((LO) + I); } }; \
  extern "C" void harness_##name() {                                                                                \
    for (unsigned i_ = 0; i_ < (HI); ++i_) g_raw[i_] = v_nondet_u8();                                               \
    unsigned sel = v_nondet_below((HI) - (LO) + 1);                                                                 \
    dispatch_seq<Case_##name>(sel, std::make_integer_sequence<unsigned, (HI) - (LO) + 1>{}); }                      \
  static void body_##name(unsigned len)

enum Outcome { OK = 0, PARSE_ERROR = 1, OTHER = 2 };
#define RUN(out, stmt) do { out = OK; try { stmt; } catch (const parse_error &) { out = PARSE_ERROR; } catch (...) { out = OTHER; } } while (0)

#ifndef NELEM
#define NELEM 2      // entity count n of the property (reader: n_verts_read_ etc.)
#endif
// the only ResourceManager members request_property needs are the entity counts (pure virtual there; TopologyKernel in the reader)
struct Counts : public ResourceManager {
  size_t n_vertices() const override { return NELEM; }
  size_t n_edges() const override { return NELEM; }
  size_t n_halfedges() const override { return 2 * NELEM; }
  size_t n_faces() const override { return NELEM; }
  size_t n_halffaces() const override { return 2 * NELEM; }
  size_t n_cells() const override { return NELEM; }
};
// registers the selected codec under its OVMB name exactly as add_default_types()/add_ovm_vector_types() do
static inline void register_selected(PropertyCodecs &pc) { pc.register_codec<Sel::codec>(Sel::ovmb()); }
static inline const PropertyDecoderBase *lookup(PropertyCodecs &pc) { register_selected(pc); return pc.get_decoder(Sel::ovmb()); }
