// C10: n_vertices_in_cell on closed cells whose boundary is NOT one sphere-like surface.  add_cell's topology check accepts every
// halfface set in which each halfedge is matched exactly once by its opposite, i.e. also two separate closed shells and two shells
// that touch in one vertex; the count must still be the number of distinct vertices found in the stored definitions.
// Cell = tetrahedron shell on (0,1,2,3) + tetrahedron shell on (a,4,5,6); a in {0,1,2,3} (pinched at vertex a) or 7 (separate shells):
// selector dispatch over the 5 values of a (symbolic selector).  v_param(0): bit0 = build with topology check.
#include "mesh_common.h"

static int brute_count(const TopologyKernel &m, CH c) {
  bool seen[8] = {false, false, false, false, false, false, false, false};
  const std::vector<HFH> hfs = m.cell(c).halffaces();
  for (unsigned k = 0; k < 8 && k < hfs.size(); ++k) {
    const std::vector<HEH> hes = m.halfface(hfs[k]).halfedges();
    for (unsigned j = 0; j < 3 && j < hes.size(); ++j) {
      int v = m.halfedge(hes[j]).from_vertex().idx();
      if (v >= 0 && v < 8) seen[v] = true;
    }
  }
  int n = 0;
  for (int v = 0; v < 8; ++v) if (seen[v]) ++n;
  return n;
}

static __attribute__((noinline)) void do_case(unsigned i) {
  if (i >= 5) return;
  const int a = i < 4 ? (int)i : 7;
  TopologyKernel m;
  m.add_n_vertices(8);
  FH A = tri(m, 0, 1, 2), B = tri(m, 0, 3, 1), C = tri(m, 1, 3, 2), D = tri(m, 0, 2, 3);
  FH E = tri(m, a, 4, 5), F = tri(m, a, 6, 4), G = tri(m, 4, 6, 5), H = tri(m, a, 5, 6);
  std::vector<HFH> hfs; hfs.reserve(8);
  hfs.push_back(hf(A, 0)); hfs.push_back(hf(B, 0)); hfs.push_back(hf(C, 0)); hfs.push_back(hf(D, 0));
  hfs.push_back(hf(E, 0)); hfs.push_back(hf(F, 0)); hfs.push_back(hf(G, 0)); hfs.push_back(hf(H, 0));
  CH c = m.add_cell(hfs, (v_param(0) & 1) != 0);
  if (!c.is_valid()) return;          // (not the subject here; C11 decides acceptance)
  V_ASSERT(m.n_cells() == 1 && m.n_faces() == 8 && m.n_edges() == 12);
  int expect = brute_count(m, c);
  V_ASSERT(expect == (a == 7 ? 8 : 7));   // harness self-check
  v_assert((int)m.n_vertices_in_cell(c) == expect, "C10 n_vertices_in_cell == number of distinct vertices of the cell's faces (two-shell cell)");
  // the single-shell cells around it keep their count: one more tetrahedron on the first shell's outside is not possible (cell-incident), so
  // compare with a tetrahedron built separately
  v_witness("C10 two-shell case end");
}

extern "C" void harness_c10_shells() {
  unsigned sel = v_nondet_u32();
  v_assume(sel < 5);
  dispatch<CaseW, 5>(sel);
}
