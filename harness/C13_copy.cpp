// C13: mesh copy and assignment are deep and leave the two meshes independent.
// shard params: 0 = mesh type (0 TopologyKernel, 1 GeometryKernel<Vec3i,TopologyKernel>), 1 = copy kind (CopyKind), 2 = source base
// (mesh_common.h Base), 3 = pending deferred deletion in the source (0 none, 1 last edge, 2 vertex 0), 4 = chunk of the
// (side, mutation) alphabet (C13_CASES = 2 per query, selector-dispatched), 5 = bottom-up oracle level for the copy (0/1).
// Source: base mesh, symbolic vertex positions (geometry kernel), a shared int property "s", a private anonymous bool property, persistent
// int "p" and bool "q" -- all with symbolic values -- and their handles held by the harness across the copy.  Target of CK_ASSIGN_NONEMPTY:
// base B_TRI2 with its own shared "s", persistent "p" and private properties whose handles are held across the assignment.
// After the copy: equal observable state (snapshot, counts, flags, modes, positions; bottom-up answers of the copy == brute force over its
// own definitions at symbolic probes), persistent properties cloned with equal values, non-persistent ones not findable in the copy, source
// untouched.  Then ONE mutation on one side (every entity for delete_*, add/swap/GC/clear, symbolic-index property and position writes):
// the other side's observable state and property values are unchanged; handles held on the assigned-to mesh have size() == n of their mesh,
// are private, not findable by name and usable (CBMC pointer checks, checks="mem").
#include "c13_copy.h"

template <class M> static void run_case(unsigned i) {
  const unsigned kind = v_param(1), base = v_param(2), pend = v_param(3), chunk = v_param(4), level = v_param(5);
  const bool geo = IsGeo<M>::v != 0;
  v_alloc_order_reset();
  // ---- source
  M src;
  build_base(src, base);
  const int nV = (int)src.n_vertices();
  for (int v = 0; v < MAXV; ++v) if (v < nV) set_pos(src, v, v_nondet_int(), v_nondet_int(), v_nondet_int());
  IntVP ps = src.template request_property<int, Entity::Vertex>(std::string("s"), 0);
  BoolVP pa = src.template request_property<bool, Entity::Vertex>(std::string(), true);
  std::optional<IntVP> opp = src.template create_persistent_property<int, Entity::Vertex>(std::string("p"), 1);
  std::optional<BoolVP> opq = src.template create_persistent_property<bool, Entity::Vertex>(std::string("q"), false);
  if (!opp.has_value() || !opq.has_value()) return;
  IntVP pp = *opp; BoolVP pq = *opq; opp.reset(); opq.reset();
  for (int v = 0; v < MAXV; ++v) if (v < nV) { ps[VH(v)] = v_nondet_int(); pa[VH(v)] = v_nondet_bool(); pp[VH(v)] = v_nondet_int(); pq[VH(v)] = v_nondet_bool(); }
  if (pend != 0) {
    src.enable_deferred_deletion(true);
    if (pend == 1) src.delete_edge(EH((int)src.n_edges() - 1)); else src.delete_vertex(VH(0));
  }
  Obs o_src0; observe(src, o_src0);
  PVals pv_src0; read_persistent(src, pv_src0);
  // ---- the copy
  std::optional<M> mid, cpy;
  std::optional<IntVP> hs, hp; std::optional<BoolVP> hx;   // handles held on the assigned-to mesh (CK_ASSIGN_NONEMPTY)
  switch (kind) {
  case CK_CTOR: cpy.emplace(src); break;
  case CK_ASSIGN_EMPTY: cpy.emplace(); *cpy = src; break;
  case CK_ASSIGN_NONEMPTY: {
    cpy.emplace();
    build_base(*cpy, B_TRI2);
    hs.emplace(cpy->template request_property<int, Entity::Vertex>(std::string("s"), 5));
    std::optional<IntVP> t = cpy->template create_persistent_property<int, Entity::Vertex>(std::string("p"), 6);
    if (!t.has_value()) return;
    hp.emplace(*t); t.reset();
    hx.emplace(cpy->template request_property<bool, Entity::Vertex>(std::string(), false));
    *cpy = src;
    break; }
  case CK_SELF: { M &alias = src; src = alias; break; }
  case CK_COPY_OF_COPY: mid.emplace(src); cpy.emplace(*mid); mid.reset(); break;
  default: return;
  }
  // ---- the source is untouched by being copied from
  Obs o_src1; PVals pv_src1;
  { Obs &o = o_src1; observe(src, o); same_mesh_state(o_src0, o, geo, "C13 copying leaves the source's entities, definitions and deletion state unchanged");
    v_assert(o.npropsV == o_src0.npropsV && o.npersV == o_src0.npersV, "C13 copying leaves the source's property registry unchanged");
    PVals &pv = pv_src1; read_persistent(src, pv); same_persistent(pv_src0, pv, "C13 copying leaves the source's persistent property values unchanged");
    v_assert(src.template property_exists<int, Entity::Vertex>(std::string("s")) && bool(ps) && ps.shared() && bool(pa) && pp.persistent(), "C13 source handles stay attached and findable"); }
  if (kind == CK_SELF) { if (i == 0 && chunk == 0) v_witness("C13 self-assignment leaves the mesh as it was"); return; }
  M &c = *cpy;
  // ---- equal observable state
  Obs o_c0; observe(c, o_c0);
  same_mesh_state(o_src0, o_c0, geo, "C13 copy has the same entities, definitions and deletion state as the source");
  check_bottom_up(c, (int)level);
  PVals pv_c0; read_persistent(c, pv_c0);
  same_persistent(pv_src0, pv_c0, "C13 persistent properties are cloned with equal values");
  v_assert(o_c0.npersV == 2, "C13 the copy owns exactly the persistent properties");
  v_assert(!c.template property_exists<int, Entity::Vertex>(std::string("s")), "C13 non-persistent (shared) property is not carried over");
  const int held = (kind == CK_ASSIGN_NONEMPTY) ? 3 : 0;
  v_assert(o_c0.npropsV == 2 + (geo ? 1 : 0) + held, "C13 the copy tracks the persistent clones (+ position property, + still-referenced old properties) only");
  if (kind == CK_ASSIGN_NONEMPTY) {
    v_assert((int)hs->size() == nV && (int)hp->size() == nV && (int)hx->size() == nV, "C13 handles held on the assigned-to mesh are sized to its new vertex count");
    v_assert(bool(*hs) && bool(*hp) && bool(*hx), "C13 handles held on the assigned-to mesh stay attached to it");
    v_assert(!hs->shared() && !hp->shared() && !hp->persistent() && !hx->shared(), "C13 handles held on the assigned-to mesh became private");
    // the property found by name is the clone, not the old storage: writing the old one does not show in the clone
    sym_write(*hp); sym_write(*hs); sym_write(*hx);
    PVals pv; read_persistent(c, pv); same_persistent(pv_c0, pv, "C13 old properties of the assigned-to mesh are no longer findable by name (the clone is found)");
  }
  // ---- one mutation on one side
  const unsigned cnt = mut_count(src);
  const unsigned idx = chunk * C13_CASES + i;
  if (idx >= 2 * cnt) return;
  const unsigned side = idx / cnt, k = idx % cnt;
  unsigned op, a, b; mut_decode(src, k, op, a, b);
  M &mut = side == 0 ? src : c;
  M &other = side == 0 ? c : src;
  if (!mut_valid(mut, op, a, b)) return;
  if (op == MU_POS && !geo) return;
  const Obs &o_other0 = side == 0 ? o_c0 : o_src1;          // the other side as observed right after the copy
  const PVals &pv_other0 = side == 0 ? pv_c0 : pv_src1;
  int s_before[MAXV]; bool a_before[MAXV];
  for (int v = 0; v < MAXV; ++v) if (v < nV) { s_before[v] = ps[VH(v)]; a_before[v] = pa[VH(v)]; }
  if (op < MU_PW_P) apply_op(mut, op, a, b);
  else if (op == MU_POS) { if (mut.n_vertices() == 0) return; set_pos(mut, (int)v_nondet_below((unsigned)mut.n_vertices()), v_nondet_int(), v_nondet_int(), v_nondet_int()); }
  else if (side == 0) { if (op == MU_PW_P) sym_write(pp); else if (op == MU_PW_Q) sym_write(pq); else if (op == MU_PW_S) sym_write(ps); else sym_write(pa); }
  else {
    if (op == MU_PW_P) { std::optional<IntVP> h = c.template get_property<int, Entity::Vertex>(std::string("p")); if (!h.has_value()) return; sym_write(*h); }
    else if (op == MU_PW_Q) { std::optional<BoolVP> h = c.template get_property<bool, Entity::Vertex>(std::string("q")); if (!h.has_value()) return; sym_write(*h); }
    else if (kind != CK_ASSIGN_NONEMPTY) return;
    else if (op == MU_PW_S) sym_write(*hs); else sym_write(*hx);
  }
  // ---- independence: the other side did not change
  { Obs o; observe(other, o); same_mesh_state(o_other0, o, geo, "C13 independence: mutating one mesh leaves the other's entities, definitions and deletion state unchanged");
    v_assert(o.npropsV == o_other0.npropsV && o.npersV == o_other0.npersV, "C13 independence: the other mesh's property registry is unchanged");
    PVals pv; read_persistent(other, pv); same_persistent(pv_other0, pv, "C13 independence: the other mesh's persistent property values are unchanged"); }
  if (side == 1 && nV > 0) {   // the source's non-persistent properties (handles held by the harness) are unaffected by mutating the copy
    unsigned q = v_nondet_below((unsigned)nV);
    v_assert((int)ps.size() == nV && (int)pa.size() == nV && ps[VH((int)q)] == s_before[q] && pa[VH((int)q)] == a_before[q], "C13 independence: the source's non-persistent properties are unchanged");
  }
  if (kind == CK_ASSIGN_NONEMPTY) {   // held handles follow THEIR mesh (the assigned-to one) and stay usable
    if (!(side == 1 && op == OP_CLEAR))   // clear() privatises the properties again but does not resize the still-referenced ones (not part of C13)
      v_assert(hs->size() == c.n_vertices() && hp->size() == c.n_vertices() && hx->size() == c.n_vertices(), "C13 held handles are sized to their own mesh after the mutation");
    sym_write(*hs); sym_write(*hp); sym_write(*hx);
    v_assert(!c.template property_exists<int, Entity::Vertex>(std::string("s")), "C13 held handle stays unfindable by name");
  }
  if (side == 0) v_witness("C13 source mutated, copy unchanged"); else v_witness("C13 copy mutated, source unchanged");
}

static void do_case(unsigned i) {
#ifdef C13_ONLY
  if (i != C13_ONLY) return;   // development only
#endif
  if (v_param(0) == 0) run_case<TopologyKernel>(i); else run_case<GeoMesh>(i);
}

extern "C" void harness_c13() {
  unsigned sel = v_nondet_u32();
  v_assume(sel < C13_CASES);
  dispatch<Case, C13_CASES>(sel);
}
