// C14 helper: operation alphabet, real-side handle slots, reference registry, per-step comparison.
#pragma once
#include "mesh_common.h"
#include "c14_native.h"
#include <optional>
#include <stdexcept>
#include <string>
extern "C" void v_alloc_order_reset(void);   // rt.c: keeps the allocation-order counter (std::less<T*> model) concrete per case

#ifndef C14_CASES_N
#define C14_CASES_N 8   /* cases per query (the layout below is in blocks of 16: chunk ids at 8 per query are 0..10, 12, 13; chunk 11 is padding) */
#endif
enum { C14_CASES = C14_CASES_N, NS = 4 /* handle slots: slot k belongs to step k */, MR = 8 /* reference records */, MAXN = 4 /* entities per kind */ };

// ------------------------------------------------------------------------------------------------ operation alphabet
enum Kind { K_REQUEST = 0, K_CREATE_SHARED, K_CREATE_PERSISTENT, K_CREATE_PRIVATE, K_GET, K_EXISTS,   // a = family, b = name
            K_SET_SHARED, K_SET_PERSISTENT,                                                         // a = slot, b = enable
            K_SET_NAME,                                                                             // a = slot, b = name
            K_HCOPY, K_HDROP,                                                                       // a = slot
            K_CLEAR_PROPS_V, K_CLEAR_PROPS_C, K_CLEAR_ALL, K_CLEAR, K_MESH_COPY, K_MESH_ASSIGN, K_MESH_DESTROY, K_PAD };
// opcode = kind*64 + a*8 + b.  family = type*2 + entity (type: 0 int, 1 bool; entity: 0 Vertex, 1 Cell); name: 0 "", 1 "a", 2 "b"
static constexpr unsigned OPC(unsigned k, unsigned a, unsigned b) { return k * 64 + a * 8 + b; }
enum { OPC_PAD = K_PAD * 64 };
enum { C14_NOPS = 112 };
// The alphabet in dispatch order (110 operations + padding), in blocks of 16:
//  0..3  : every (kind, family, name) of request/create_shared/create_persistent/create_private/get_property/property_exists with a
//          non-empty name (48), and request/create_private/get_property/property_exists with the empty name (16)
//  4     : set_shared / set_persistent (slot 0,1 x enable 0,1), handle copy / drop (slot 0,1), clear_props<Vertex>, clear_props<Cell>,
//          clear_all_props, clear()
//  5     : mesh copy construction, mesh assignment, mesh destruction (13 pads)
//  6     : create_shared_property / create_persistent_property with the EMPTY name (8) and set_name (slot 0,1 x 3 names) (2 pads)
static unsigned c14_op_at(unsigned idx) {
  if (idx < 48) { unsigned name = 1 + idx / 24, k = (idx % 24) / 4, fam = idx % 4; return OPC(k, fam, name); }
  if (idx < 64) { unsigned j = idx - 48; const unsigned ks[4] = {K_REQUEST, K_CREATE_PRIVATE, K_GET, K_EXISTS}; return OPC(ks[j / 4], j % 4, 0); }
  if (idx < 68) { unsigned j = idx - 64; return OPC(K_SET_SHARED, j / 2, j % 2); }
  if (idx < 72) { unsigned j = idx - 68; return OPC(K_SET_PERSISTENT, j / 2, j % 2); }
  if (idx < 74) return OPC(K_HCOPY, idx - 72, 0);
  if (idx < 76) return OPC(K_HDROP, idx - 74, 0);
  if (idx < 80) return OPC(K_CLEAR_PROPS_V + (idx - 76), 0, 0);
  if (idx < 83) return OPC(K_MESH_COPY + (idx - 80), 0, 0);
  if (idx < 96) return OPC_PAD;
  if (idx < 104) { unsigned j = idx - 96; return OPC(j < 4 ? K_CREATE_SHARED : K_CREATE_PERSISTENT, j % 4, 0); }
  if (idx < 110) { unsigned j = idx - 104; return OPC(K_SET_NAME, j / 3, j % 3); }
  return OPC_PAD;
}
static inline const char *nm(int k) { return k == 1 ? "a" : k == 2 ? "b" : ""; }

// ------------------------------------------------------------------------------------------------ real side
template <class T, class E> struct FamOf;
template <> struct FamOf<int, Entity::Vertex> { enum { v = 0 }; };
template <> struct FamOf<int, Entity::Cell> { enum { v = 1 }; };
template <> struct FamOf<bool, Entity::Vertex> { enum { v = 2 }; };
template <> struct FamOf<bool, Entity::Cell> { enum { v = 3 }; };
template <class T, class E> using Slot = std::optional<PropertyPtr<T, E>>;
struct Real {
  std::optional<TopologyKernel> m, m2;
  Slot<int, Entity::Vertex> h0[NS]; Slot<int, Entity::Cell> h1[NS]; Slot<bool, Entity::Vertex> h2[NS]; Slot<bool, Entity::Cell> h3[NS];
  template <class T, class E> Slot<T, E> *slots();
};
template <> inline Slot<int, Entity::Vertex> *Real::slots<int, Entity::Vertex>() { return h0; }
template <> inline Slot<int, Entity::Cell> *Real::slots<int, Entity::Cell>() { return h1; }
template <> inline Slot<bool, Entity::Vertex> *Real::slots<bool, Entity::Vertex>() { return h2; }
template <> inline Slot<bool, Entity::Cell> *Real::slots<bool, Entity::Cell>() { return h3; }
template <class T> static inline T nondet_val();
template <> inline int nondet_val<int>() { return v_nondet_int(); }
template <> inline bool nondet_val<bool>() { return v_nondet_bool(); }

// ------------------------------------------------------------------------------------------------ reference registry (the oracle)
// One record per property storage ever created.  Written from ResourceManager.hh's doc comments and the property text:
//  * request: the live SHARED property of that (name, type, entity) on this mesh, else a new one -- shared iff the name is non-empty;
//  * create_shared / create_persistent: no value if such a shared property exists, else a new shared (and persistent) one;
//  * create_private: always a new private one; get_property / property_exists: the shared one only; the empty name finds nothing;
//  * a storage lives while a handle refers to it or the (live) mesh keeps it as persistent; n_props counts the live attached ones;
//  * set_shared(true) throws if the property is anonymous or the name is taken; set_persistent(true) throws unless shared;
//    set_shared(false) also ends persistence; a throwing call changes nothing;
//  * clear_props<E> / clear_all_props / clear(): every property (of that kind) becomes private and non-persistent, referenced ones stay;
//  * mesh copy / assignment: the copy owns clones of the PERSISTENT properties only (equal values, same name), nothing else;
//  * mesh destruction: surviving handles keep size and data and report being detached (operator bool false).
static int g_n;
static bool g_alive[MR], g_shared[MR], g_pers[MR], g_owned[MR], g_attached[MR], g_sizeok[MR];
static int g_fam[MR], g_name[MR], g_refs[MR], g_mesh[MR], g_size[MR];
static int g_val[MR][MAXN];
static bool g_mesh_alive[2];
static int g_cnt[2][2];
static int g_slot_rec[NS], g_slot_fam[NS];
static bool g_last_threw, g_expect_throw, g_m_first;

static void ref_init(int nv, int nc) {
  g_n = 0;
  for (int r = 0; r < MR; ++r) { g_alive[r] = false; g_refs[r] = 0; }
  for (int s = 0; s < NS; ++s) { g_slot_rec[s] = -1; g_slot_fam[s] = -1; }
  g_mesh_alive[0] = true; g_mesh_alive[1] = false;
  g_cnt[0][0] = nv; g_cnt[0][1] = nc; g_cnt[1][0] = 0; g_cnt[1][1] = 0;
  g_last_threw = false; g_expect_throw = false; g_m_first = false;
}
static int ref_find(int mesh, int fam, int name) {
  if (name == 0) return -1;
  for (int r = 0; r < MR; ++r)
    if (r < g_n && g_alive[r] && g_attached[r] && g_mesh[r] == mesh && g_shared[r] && g_fam[r] == fam && g_name[r] == name) return r;
  return -1;
}
static int ref_matches(int mesh, int fam, int name) {
  int c = 0;
  if (name == 0) return 0;
  for (int r = 0; r < MR; ++r)
    if (r < g_n && g_alive[r] && g_attached[r] && g_mesh[r] == mesh && g_shared[r] && g_fam[r] == fam && g_name[r] == name) ++c;
  return c;
}
static int ref_new(int mesh, int fam, int name, bool shared, bool pers, int defv) {
  int r = g_n++;
  g_alive[r] = true; g_shared[r] = shared; g_pers[r] = pers; g_owned[r] = pers; g_attached[r] = true; g_sizeok[r] = true;
  g_fam[r] = fam; g_name[r] = name; g_refs[r] = 0; g_mesh[r] = mesh; g_size[r] = g_cnt[mesh][fam & 1];
  for (int i = 0; i < MAXN; ++i) g_val[r][i] = defv;
  return r;
}
static void ref_reap(int r) { if (g_refs[r] == 0 && !g_owned[r]) g_alive[r] = false; }
static void ref_privatise(int mesh, int ent_or_all) {   // clear_props<E> (ent 0/1) or clear_all_props (-1)
  for (int r = 0; r < MR; ++r)
    if (r < g_n && g_alive[r] && g_attached[r] && g_mesh[r] == mesh && (ent_or_all < 0 || (g_fam[r] & 1) == ent_or_all)) {
      g_pers[r] = false; g_owned[r] = false; g_shared[r] = false; ref_reap(r);
    }
}
static void ref_clone_persistent(int from, int to) {
  const int n0 = g_n;
  for (int r = 0; r < MR; ++r)
    if (r < n0 && g_alive[r] && g_attached[r] && g_mesh[r] == from && g_pers[r]) {
      int c = ref_new(to, g_fam[r], g_name[r], g_shared[r], true, 0);
      g_size[c] = g_size[r]; g_sizeok[c] = g_sizeok[r];
      for (int i = 0; i < MAXN; ++i) g_val[c][i] = g_val[r][i];
    }
}

// ------------------------------------------------------------------------------------------------ comparison real vs reference
static void check_mesh(const TopologyKernel &m, int mesh) {
  for (int ent = 0; ent < 2; ++ent) {
    int np = 0, npp = 0;
    for (int r = 0; r < MR; ++r) if (r < g_n && g_alive[r] && g_attached[r] && g_mesh[r] == mesh && (g_fam[r] & 1) == ent) { ++np; if (g_pers[r]) ++npp; }
    if (ent == 0) {
      v_assert((int)m.n_props<Entity::Vertex>() == np, "C14 n_props<Vertex> == live attached vertex properties of the reference");
      v_assert((int)m.n_persistent_props<Entity::Vertex>() == npp, "C14 n_persistent_props<Vertex> == persistent vertex properties of the reference");
    } else {
      v_assert((int)m.n_props<Entity::Cell>() == np, "C14 n_props<Cell> == live attached cell properties of the reference");
      v_assert((int)m.n_persistent_props<Entity::Cell>() == npp, "C14 n_persistent_props<Cell> == persistent cell properties of the reference");
    }
  }
  for (int name = 0; name < 3; ++name) {
    const std::string nme(nm(name));
    v_assert(m.property_exists<int, Entity::Vertex>(nme) == (ref_find(mesh, 0, name) >= 0), "C14 property_exists<int,Vertex>(name) == a shared one of that name is live");
    v_assert(m.property_exists<int, Entity::Cell>(nme) == (ref_find(mesh, 1, name) >= 0), "C14 property_exists<int,Cell>(name) == a shared one of that name is live");
    v_assert(m.property_exists<bool, Entity::Vertex>(nme) == (ref_find(mesh, 2, name) >= 0), "C14 property_exists<bool,Vertex>(name) == a shared one of that name is live");
    v_assert(m.property_exists<bool, Entity::Cell>(nme) == (ref_find(mesh, 3, name) >= 0), "C14 property_exists<bool,Cell>(name) == a shared one of that name is live");
  }
}
template <class T, class E> static void check_slots(Real &r) {
  typedef typename PropertyPtr<T, E>::EntityHandleT HT;
  const int fam = FamOf<T, E>::v;
  Slot<T, E> *S = r.slots<T, E>();
  for (int s = 0; s < NS; ++s) {
    if (g_slot_rec[s] < 0 || g_slot_fam[s] != fam) { v_assert(!S[s].has_value(), "C14 harness bookkeeping: empty slot"); continue; }
    const int rec = g_slot_rec[s];
    const PropertyPtr<T, E> &h = *S[s];
    v_assert(g_alive[rec], "C14 harness bookkeeping: a held handle keeps its record alive");
    v_assert(bool(h) == g_attached[rec], "C14 handle reports attached exactly while its mesh lives");
    if (g_attached[rec]) {
      v_assert(h.shared() == g_shared[rec], "C14 shared flag as the reference predicts");
      v_assert(h.persistent() == g_pers[rec], "C14 persistent flag as the reference predicts");
      // invariant of the property text, on the real flags
      v_assert(!h.persistent() || h.shared(), "C14 invariant: persistent implies shared");
      v_assert(!h.shared() || !h.anonymous(), "C14 invariant: shared implies named");
    }
    v_assert(h.anonymous() == (g_name[rec] == 0), "C14 anonymous() == name is empty");
    v_assert(h.name() == nm(g_name[rec]), "C14 name as the reference predicts");
    if (g_sizeok[rec]) {
      v_assert((int)h.size() == g_size[rec], "C14 handle sized to its mesh's entity count (kept after mesh destruction)");
      if (g_size[rec] > 0) {
        unsigned p = v_nondet_below((unsigned)g_size[rec]);
        v_assert(h[HT((int)p)] == (T)g_val[rec][p], "C14 contents: every write went to exactly the storage the reference says (symbolic probe)");
      }
    }
    // uniqueness part of the invariant: two different live shared storages of one family never carry the same name
    for (int t = 0; t < NS; ++t)
      if (t > s && g_slot_rec[t] >= 0 && g_slot_fam[t] == fam && g_slot_rec[t] != rec && g_attached[rec] && g_attached[g_slot_rec[t]] && g_mesh[rec] == g_mesh[g_slot_rec[t]]) {
        const PropertyPtr<T, E> &o = *S[t];
        v_assert(!(h.shared() && o.shared() && h.name() == o.name()), "C14 invariant: shared properties of one type and entity kind have unique names");
      }
  }
}
static void check_all(Real &r) {
#ifndef C14_NO_CHECK_MESH
  if (g_mesh_alive[0]) check_mesh(*r.m, 0);
  if (g_mesh_alive[1]) check_mesh(*r.m2, 1);
#endif
#ifndef C14_NO_CHECK_SLOTS
  check_slots<int, Entity::Vertex>(r); check_slots<int, Entity::Cell>(r); check_slots<bool, Entity::Vertex>(r); check_slots<bool, Entity::Cell>(r);
#endif
}

// ------------------------------------------------------------------------------------------------ operations
// a handle was stored into slot `step` for record rec: identity check by a symbolic write through it
template <class T, class E> static void took_handle(Real &r, unsigned step, int rec) {
  typedef typename PropertyPtr<T, E>::EntityHandleT HT;
  g_slot_rec[step] = rec; g_slot_fam[step] = FamOf<T, E>::v; g_refs[rec]++;
  if (g_sizeok[rec] && g_size[rec] > 0) {
    unsigned wi = v_nondet_below((unsigned)g_size[rec]);
    T w = nondet_val<T>();
    (*r.slots<T, E>()[step])[HT((int)wi)] = w;
    g_val[rec][wi] = (int)w;
  }
}
template <class T, class E> static bool op_mesh_side(Real &r, unsigned kind, int name, unsigned step) {
  if (!g_mesh_alive[0]) return false;
  TopologyKernel &m = *r.m;
  const int fam = FamOf<T, E>::v;
  Slot<T, E> *S = r.slots<T, E>();
  const std::string nme(nm(name));
  const T def = nondet_val<T>();
  const int found = ref_find(0, fam, name);
  if (ref_matches(0, fam, name) > 1) return false;   // only after an invariant-breaking set_name: which one is found is unspecified
  switch (kind) {
  case K_REQUEST: {
    S[step].emplace(m.request_property<T, E>(nme, def));
    took_handle<T, E>(r, step, found >= 0 ? found : ref_new(0, fam, name, name != 0, false, (int)def));
    return true; }
  case K_CREATE_SHARED: case K_CREATE_PERSISTENT: {
    std::optional<PropertyPtr<T, E>> o = (kind == K_CREATE_SHARED) ? m.create_shared_property<T, E>(nme, def) : m.create_persistent_property<T, E>(nme, def);
    v_assert(o.has_value() == (found < 0), "C14 create_shared/create_persistent return a value exactly when no such shared property exists");
    if (o.has_value()) { S[step].emplace(*o); o.reset(); took_handle<T, E>(r, step, ref_new(0, fam, name, true, kind == K_CREATE_PERSISTENT, (int)def)); }
    return true; }
  case K_CREATE_PRIVATE: {
    S[step].emplace(m.create_private_property<T, E>(nme, def));
    took_handle<T, E>(r, step, ref_new(0, fam, name, false, false, (int)def));
    return true; }
  case K_GET: {
    std::optional<PropertyPtr<T, E>> o = m.get_property<T, E>(nme);
    v_assert(o.has_value() == (found >= 0), "C14 get_property finds exactly the live shared property");
    if (o.has_value()) { S[step].emplace(*o); o.reset(); took_handle<T, E>(r, step, found); }
    return true; }
  case K_EXISTS:
    v_assert(m.property_exists<T, E>(nme) == (found >= 0), "C14 property_exists == a live shared property of that name, type and entity kind");
    return true;
  default: return false;
  }
}
template <class T, class E> static bool op_handle(Real &r, unsigned kind, unsigned j, unsigned b, unsigned step) {
  Slot<T, E> *S = r.slots<T, E>();
  const int rec = g_slot_rec[j];
  const int fam = FamOf<T, E>::v;
  switch (kind) {
  case K_SET_SHARED: {
    if (!g_mesh_alive[0] || !g_attached[rec] || g_mesh[rec] != 0) return false;
    const bool en = b != 0;
    const bool change = en != g_shared[rec];
    g_expect_throw = change && en && (g_name[rec] == 0 || ref_find(0, fam, g_name[rec]) >= 0);
    r.m->set_shared(*S[j], en);
    if (change && !g_expect_throw) { g_shared[rec] = en; if (!en) { g_pers[rec] = false; g_owned[rec] = false; } }
    return true; }
  case K_SET_PERSISTENT: {
    if (!g_mesh_alive[0] || !g_attached[rec] || g_mesh[rec] != 0) return false;
    const bool en = b != 0;
    const bool change = en != g_pers[rec];
    g_expect_throw = change && en && !g_shared[rec];
    r.m->set_persistent(*S[j], en);
    if (change && !g_expect_throw) { g_pers[rec] = en; g_owned[rec] = en; }
    return true; }
  case K_SET_NAME:
    S[j]->set_name(std::string(nm((int)b)));
    g_name[rec] = (int)b;
    return true;
  case K_HCOPY:
    S[step].emplace(*S[j]);
    g_slot_rec[step] = rec; g_slot_fam[step] = fam; g_refs[rec]++;
    return true;
  case K_HDROP:
    S[j].reset();
    g_slot_rec[j] = -1; g_slot_fam[j] = -1; g_refs[rec]--; ref_reap(rec);
    return true;
  default: return false;
  }
}
// after a mesh copy: every clone is findable on the copy, holds equal values, and writing it leaves the original alone
template <class T, class E> static void check_clone(Real &r, int c, int src) {
  typedef typename PropertyPtr<T, E>::EntityHandleT HT;
  if (g_name[c] == 0 || !g_shared[c]) return;
  std::optional<PropertyPtr<T, E>> g2 = r.m2->get_property<T, E>(std::string(nm(g_name[c])));
  v_assert(g2.has_value(), "C14 mesh copy: persistent property found by name on the copy");
  if (!g2.has_value()) return;
  v_assert(g2->persistent() && g2->shared() && bool(*g2), "C14 mesh copy: clone is persistent, shared and attached to the copy");
  if (!g_sizeok[c] || g_size[c] == 0) return;
  unsigned p = v_nondet_below((unsigned)g_size[c]);
  v_assert((*g2)[HT((int)p)] == (T)g_val[c][p], "C14 mesh copy: clone holds the source's values");
  T w = nondet_val<T>();
  (*g2)[HT((int)p)] = w; g_val[c][p] = (int)w;
  std::optional<PropertyPtr<T, E>> g1 = r.m->get_property<T, E>(std::string(nm(g_name[src])));
  v_assert(g1.has_value(), "C14 mesh copy: source property still found on the source");
  if (g1.has_value()) v_assert((*g1)[HT((int)p)] == (T)g_val[src][p], "C14 mesh copy: writing the clone does not change the source");
}
static bool op_mesh(Real &r, unsigned kind) {
  if (!g_mesh_alive[0]) return false;
  switch (kind) {
  case K_CLEAR_PROPS_V: r.m->clear_props<Entity::Vertex>(); ref_privatise(0, 0); return true;
  case K_CLEAR_PROPS_C: r.m->clear_props<Entity::Cell>(); ref_privatise(0, 1); return true;
  case K_CLEAR_ALL: r.m->clear_all_props(); ref_privatise(0, -1); return true;
  case K_CLEAR:
    r.m->clear(); ref_privatise(0, -1);
    g_cnt[0][0] = 0; g_cnt[0][1] = 0;
    for (int q = 0; q < MR; ++q) if (q < g_n && g_mesh[q] == 0) g_sizeok[q] = false;   // sizes of surviving handles after clear(): not specified
    return true;
  case K_MESH_COPY: case K_MESH_ASSIGN: {
    if (g_mesh_alive[1]) return false;
    if (kind == K_MESH_COPY) r.m2.emplace(*r.m); else { r.m2.emplace(); *r.m2 = *r.m; g_m_first = true; }
    g_mesh_alive[1] = true; g_cnt[1][0] = g_cnt[0][0]; g_cnt[1][1] = g_cnt[0][1];
    const int n0 = g_n;
    ref_clone_persistent(0, 1);
    v_assert(r.m2->n_vertices() == r.m->n_vertices() && r.m2->n_cells() == r.m->n_cells(), "C14 mesh copy: same entity counts");
    int c = n0;
    for (int s = 0; s < MR; ++s)
      if (s < n0 && g_alive[s] && g_attached[s] && g_mesh[s] == 0 && g_pers[s]) {
        switch (g_fam[s]) {
        case 0: check_clone<int, Entity::Vertex>(r, c, s); break;
        case 1: check_clone<int, Entity::Cell>(r, c, s); break;
        case 2: check_clone<bool, Entity::Vertex>(r, c, s); break;
        default: check_clone<bool, Entity::Cell>(r, c, s); break;
        }
        ++c;
      }
    return true; }
  case K_MESH_DESTROY:
    r.m.reset();
    g_mesh_alive[0] = false;
    for (int q = 0; q < MR; ++q) if (q < g_n && g_alive[q] && g_mesh[q] == 0) { g_attached[q] = false; g_owned[q] = false; ref_reap(q); }
    return true;
  default: return false;
  }
}
static bool apply_op(Real &r, unsigned opc, unsigned step) {
  const unsigned kind = opc / 64, a = (opc / 8) % 8, b = opc % 8;
  if (kind <= K_EXISTS) {
    switch (a) {
    case 0: return op_mesh_side<int, Entity::Vertex>(r, kind, (int)b, step);
    case 1: return op_mesh_side<int, Entity::Cell>(r, kind, (int)b, step);
    case 2: return op_mesh_side<bool, Entity::Vertex>(r, kind, (int)b, step);
    default: return op_mesh_side<bool, Entity::Cell>(r, kind, (int)b, step);
    }
  }
  if (kind <= K_HDROP) {
    if (a >= step || g_slot_rec[a] < 0) return false;   // refers to the handle obtained in an earlier step
    switch (g_slot_fam[a]) {
    case 0: return op_handle<int, Entity::Vertex>(r, kind, a, b, step);
    case 1: return op_handle<int, Entity::Cell>(r, kind, a, b, step);
    case 2: return op_handle<bool, Entity::Vertex>(r, kind, a, b, step);
    default: return op_handle<bool, Entity::Cell>(r, kind, a, b, step);
    }
  }
  if (kind < K_PAD) return op_mesh(r, kind);
  return false;
}
// one step: real operation + reference update, then (compare) the full comparison.  false: operation not applicable in this state (case ends).
// Prefix steps are run without the comparison: every proper prefix of a history is itself a history of the job with one operation less
// (the prefix alphabets are subsets of the full alphabet), where it is the compared last step.
static bool apply_step(Real &r, unsigned opc, unsigned step, bool compare) {
  bool ok = true, threw = false;
  g_expect_throw = false;
  try {
    try { ok = apply_op(r, opc, step); }
    catch (const std::runtime_error &) { threw = true; }
  } catch (...) { v_assert(false, "C14 only std::runtime_error is thrown by registry operations"); }
  if (!ok) return false;
  v_assert(threw == g_expect_throw, "C14 a registry transition throws exactly when the reference says it must be rejected");
  g_last_threw = threw;
  if (compare) check_all(r);   // after a throw the reference is unchanged: "and changes nothing"
  return true;
}
static void teardown(Real &r) {
  for (int s = 0; s < NS; ++s) { r.h0[s].reset(); r.h1[s].reset(); r.h2[s].reset(); r.h3[s].reset(); }
  if (g_m_first) { r.m.reset(); r.m2.reset(); } else { r.m2.reset(); r.m.reset(); }
}
