// C06 (a): the registered OVMB property codecs (one job per codec, -DCODEC=<id>, table in io_codecs.h):
//   decode_n(encode_n(values)) == values for symbolic values (floating point as BIT PATTERNS) and a symbolic span,
//   the produced bytes against the published layout (little endian, element after element; bool bit-packed LSB first;
//   string = u32 length + bytes), and decode_one(encode_one(default)) == default through serialize_default/request_property.
// Encoder and decoder objects come from a local PropertyCodecs filled by the repository's register_codec<Codec>(name) and are
// looked up as the writer / reader do: get_encoder(internal_type_name<T>()), get_decoder(ovmb name).
#include "io_codecs.h"

template <class S> static uint64_t bits_of(const S &s) {
  if constexpr (sizeof(S) == 1) { uint8_t u; __builtin_memcpy(&u, &s, 1); return u; }
  else if constexpr (sizeof(S) == 2) { uint16_t u; __builtin_memcpy(&u, &s, 2); return u; }
  else if constexpr (sizeof(S) == 4) { uint32_t u; __builtin_memcpy(&u, &s, 4); return u; }
  else { uint64_t u; __builtin_memcpy(&u, &s, 8); return u; }
}
template <class S> static S scalar_from_bits(uint64_t v) {
  S s;
  if constexpr (sizeof(S) == 1) { uint8_t u = (uint8_t)v; __builtin_memcpy(&s, &u, 1); }
  else if constexpr (sizeof(S) == 2) { uint16_t u = (uint16_t)v; __builtin_memcpy(&s, &u, 2); }
  else if constexpr (sizeof(S) == 4) { uint32_t u = (uint32_t)v; __builtin_memcpy(&s, &u, 4); }
  else { uint64_t u = v; __builtin_memcpy(&s, &u, 8); }
  return s;
}
using S = Sel::scalar;
static constexpr unsigned NS = Sel::NSCAL;
#if CODEC != 0 && CODEC != 11
// scalar j of a value, as bit pattern
template <class X> static uint64_t comp_bits_t(const X &t, unsigned j) {
  if constexpr (is_handle_v<X>) return (uint32_t)t.idx();
  else if constexpr (std::is_arithmetic_v<X>) return bits_of<X>(t);
  else return bits_of<typename X::value_type>(t[j]);
}
template <class X> static X sym_value_t() {
  if constexpr (is_handle_v<X>) return X((int)v_nondet_u32());
  else if constexpr (std::is_arithmetic_v<X>) return scalar_from_bits<X>(v_nondet_u64());
  else { X t; for (unsigned j = 0; j < NS; ++j) t[j] = scalar_from_bits<typename X::value_type>(v_nondet_u64()); return t; }
}
static uint64_t comp_bits(const T &t, unsigned j) { return comp_bits_t<T>(t, j); }
static T sym_value() { return sym_value_t<T>(); }
static bool same(const T &a, const T &b) { for (unsigned j = 0; j < NS; ++j) if (comp_bits(a, j) != comp_bits(b, j)) return false; return true; }

// ---- encode_n / decode_n through PropertyEncoderT::serialize / PropertyDecoderT::deserialize, symbolic span within n = NELEM
extern "C" void harness_roundtrip_n() {
  PropertyCodecs pc; register_selected(pc);
  const PropertyEncoderBase *e = pc.get_encoder(OpenVolumeMesh::detail::internal_type_name<T>());
  const PropertyDecoderBase *d = pc.get_decoder(Sel::ovmb());
  V_ASSERT(e != nullptr && d != nullptr && e->ovmb_type_name() == Sel::ovmb());
  PropertyStorageT<T> src(nullptr, "p", EntityType::Vertex, T(), true), dst(nullptr, "p", EntityType::Vertex, T(), true);
  src.resize(NELEM); dst.resize(NELEM);
  for (unsigned i = 0; i < NELEM; ++i) src[i] = sym_value();
  T fill = sym_value();
  for (unsigned i = 0; i < NELEM; ++i) dst[i] = fill;
  unsigned first = v_nondet_below(NELEM), count = v_nondet_below(NELEM + 1);
  v_assume(count >= 1 && NELEM - first >= count);
  WriteBuffer wb;
  e->serialize(&src, wb, first, first + count);
  std::vector<uint8_t> bytes = wb.vec();
  V_ASSERT(bytes.size() == (size_t)count * ESZ);
  // layout: element k of the span at offset k*ESZ, its scalars in order, each little endian
  unsigned k = v_nondet_below(NELEM), j = v_nondet_below(NS), byte = v_nondet_below(sizeof(S));
  if (k < count) V_ASSERT(bytes[k * ESZ + j * sizeof(S) + byte] == (uint8_t)(comp_bits(src[first + k], j) >> (8 * byte)));
  Decoder dec(bytes);
  int out;
  RUN(out, d->deserialize(&dst, dec, first, first + count));
  V_ASSERT(out == OK && dec.finished());
  unsigned p = v_nondet_below(NELEM);
  if (p >= first && p < first + count) V_ASSERT(same(dst[p], src[p])); else V_ASSERT(same(dst[p], fill));
  if (count == NELEM) v_witness("round trip n: whole property"); else v_witness("round trip n: sub-span");
}

// ---- encode_one / decode_one of the property default through serialize_default / request_property
extern "C" void harness_roundtrip_default() {
  PropertyCodecs pc; register_selected(pc);
  const PropertyEncoderBase *e = pc.get_encoder(OpenVolumeMesh::detail::internal_type_name<T>());
  const PropertyDecoderBase *d = pc.get_decoder(Sel::ovmb());
  V_ASSERT(e != nullptr && d != nullptr);
  T def = sym_value();
  PropertyStorageT<T> src(nullptr, "p", EntityType::Vertex, def, true);
  WriteBuffer wb;
  e->serialize_default(&src, wb);
  std::vector<uint8_t> bytes = wb.vec();
  V_ASSERT(bytes.size() == ESZ);
  unsigned j = v_nondet_below(NS), byte = v_nondet_below(sizeof(S));
  V_ASSERT(bytes[j * sizeof(S) + byte] == (uint8_t)(comp_bits(def, j) >> (8 * byte)));
  Counts mesh;
  std::string name("p");
  std::shared_ptr<PropertyStorageBase> prop; int out;
  RUN(out, prop = d->request_property(mesh, EntityType::Vertex, name, bytes));
  V_ASSERT(out == OK && prop != nullptr);
  PropertyStorageT<T> *st = prop->cast_to_StorageT<T>();
  V_ASSERT(same(st->def(), def) && st->size() == NELEM && prop->persistent() && prop->entity_type() == EntityType::Vertex);
  unsigned p = v_nondet_below(NELEM);
  V_ASSERT(same((*st)[p], def));
  prop.reset();
  v_witness("round trip default");
}
#endif

#if CODEC == 11
// ---- std::string: element lengths 0..3 each (two elements: one literal case per length pair), symbolic characters
static void string_case(unsigned la, unsigned lb) {
  PropertyCodecs pc; register_selected(pc);
  const PropertyEncoderBase *e = pc.get_encoder(OpenVolumeMesh::detail::internal_type_name<T>());
  const PropertyDecoderBase *d = pc.get_decoder(Sel::ovmb());
  V_ASSERT(e != nullptr && d != nullptr);
  PropertyStorageT<T> src(nullptr, "p", EntityType::Vertex, T(), true), dst(nullptr, "p", EntityType::Vertex, T(), true);
  src.resize(2); dst.resize(2);
  for (unsigned i = 0; i < la; ++i) src[0].push_back((char)g_raw[i]);
  for (unsigned i = 0; i < lb; ++i) src[1].push_back((char)g_raw[4 + i]);
  WriteBuffer wb;
  e->serialize(&src, wb, 0, 2);
  std::vector<uint8_t> bytes = wb.vec();
  V_ASSERT(bytes.size() == 8 + la + lb);
  V_ASSERT(bytes[0] == la && bytes[1] == 0 && bytes[2] == 0 && bytes[3] == 0 && bytes[4 + la] == lb && bytes[5 + la] == 0 && bytes[6 + la] == 0 && bytes[7 + la] == 0);
  for (unsigned i = 0; i < la; ++i) V_ASSERT(bytes[4 + i] == g_raw[i]);
  for (unsigned i = 0; i < lb; ++i) V_ASSERT(bytes[8 + la + i] == g_raw[4 + i]);
  Decoder dec(bytes);
  int out;
  RUN(out, d->deserialize(&dst, dec, 0, 2));
  V_ASSERT(out == OK && dec.finished());
  V_ASSERT(dst[0].size() == la && dst[1].size() == lb);
  for (unsigned i = 0; i < la; ++i) V_ASSERT((uint8_t)dst[0][i] == g_raw[i]);
  for (unsigned i = 0; i < lb; ++i) V_ASSERT((uint8_t)dst[1][i] == g_raw[4 + i]);
  // default value: encode_one / decode_one
  PropertyStorageT<T> sd(nullptr, "p", EntityType::Vertex, src[0], true);
  WriteBuffer wb2;
  e->serialize_default(&sd, wb2);
  std::vector<uint8_t> db = wb2.vec();
  V_ASSERT(db.size() == 4 + la && db[0] == la);
  Counts mesh; std::string name("p");
  std::shared_ptr<PropertyStorageBase> prop;
  RUN(out, prop = d->request_property(mesh, EntityType::Vertex, name, db));
  V_ASSERT(out == OK && prop != nullptr);
  PropertyStorageT<T> *st = prop->cast_to_StorageT<T>();
  V_ASSERT(st->def().size() == la && st->size() == NELEM);
  for (unsigned i = 0; i < la; ++i) V_ASSERT((uint8_t)st->def()[i] == g_raw[i]);
  prop.reset();
  v_witness("round trip strings");
}
template <unsigned I> struct CaseStr { static __attribute__((noinline)) void run() { string_case(v_param(0), I); } };
extern "C" void harness_roundtrip_strings() {   // shard: length of element 0 = v_param(0); length of element 1 by selector dispatch
  for (unsigned i = 0; i < 8; ++i) g_raw[i] = v_nondet_u8();
  unsigned sel = v_nondet_below(4);
  dispatch_seq<CaseStr>(sel, std::make_integer_sequence<unsigned, 4>{});
}
#endif

#if CODEC == 0
// ---- bool: n = 17 elements with symbolic values; span {first = v_param(2), count = v_param(1)} one query per span
//      (a symbolic span makes CBMC's unwinding of BoolPropCodec's nested loops diverge); bit-packed, LSB first, ceil(count/8) bytes
extern "C" void harness_roundtrip_bool() {
  unsigned count = v_param(1), first = v_param(2);
  PropertyCodecs pc; register_selected(pc);
  const PropertyEncoderBase *e = pc.get_encoder(OpenVolumeMesh::detail::internal_type_name<bool>());
  const PropertyDecoderBase *d = pc.get_decoder("b");
  V_ASSERT(e != nullptr && d != nullptr && e->ovmb_type_name() == "b");
  PropertyStorageT<bool> src(nullptr, "p", EntityType::Vertex, false, true), dst(nullptr, "p", EntityType::Vertex, false, true);
  src.resize(17); dst.resize(17);
  bool fill = v_nondet_bool();
  for (unsigned i = 0; i < 17; ++i) { src[i] = v_nondet_bool(); dst[i] = fill; }
  WriteBuffer wb;
  e->serialize(&src, wb, first, first + count);
  std::vector<uint8_t> bytes = wb.vec();
  V_ASSERT(bytes.size() == (count + 7) / 8);
  unsigned k = v_nondet_below(24);
  if (k < count) V_ASSERT((bool)((bytes[k / 8] >> (k % 8)) & 1) == (bool)src[first + k]);
  else if (k < 8 * bytes.size()) V_ASSERT(((bytes[k / 8] >> (k % 8)) & 1) == 0);        // unused bits of the last byte are zero
  Decoder dec(bytes);
  int out;
  RUN(out, d->deserialize(&dst, dec, first, first + count));
  V_ASSERT(out == OK && dec.finished());
  unsigned p = v_nondet_below(17);
  if (p >= first && p < first + count) V_ASSERT((bool)dst[p] == (bool)src[p]); else V_ASSERT((bool)dst[p] == fill);
  // default value: encode_one writes one byte 0/1
  bool def = v_nondet_bool();
  PropertyStorageT<bool> sd(nullptr, "p", EntityType::Vertex, def, true);
  WriteBuffer wb2;
  e->serialize_default(&sd, wb2);
  std::vector<uint8_t> db = wb2.vec();
  V_ASSERT(db.size() == 1 && db[0] == (def ? 1 : 0));
  v_witness("round trip bool");
}
#endif
