// C16: hexahedral kernel -- shape, XF/XB/YF/YB/ZF/ZB halfface order, orientation helpers, hex navigation, hex iterators.
// Oracles (c16_hex.h) are brute force over the stored top-down definitions.  Mutating calls get concrete arguments chosen by a
// symbolic selector (dispatch) and the shard parameters; probes of the read-only queries are symbolic where the code under test
// does not sort / copy containers of probe-dependent shape, enumerated otherwise.
#include "ops.h"
#include "c16_hex.h"

// ---------------------------------------------------------------------------------------------------------------------
// (1) bases built through the hexahedral kernel (add_cell(halffaces,true) with a list that needs re-ordering; add_cell(8 vertices)).
//     param 0 = base, 1 = oracle parts mask, 2 = first reference halfface, 3 = number of reference halffaces (navigation / sheet shards)
extern "C" void harness_c16_base() {
  HexK m;
  build_hex_base(m, v_param(0));
  if (m.n_cells() != (v_param(0) == HB_HEX ? 1u : v_param(0) == HB_SHEET ? 4u : 2u)) return;   // base not built: witness unreachable
  check_hex_all(m, v_param(1), (int)v_param(2), (int)(v_param(2) + v_param(3)));
  v_witness("C16 base end");
}

// ---------------------------------------------------------------------------------------------------------------------
// (2) add_cell(PERMUTED valid halfface list, topologyCheck = true): reorders to the convention or rejects leaving the mesh unchanged.
//     param 0 = variant (0: the hex on bare faces; 1: second hex of the two-hex base, shared face pre-exists, first cell present)
//     param 1 = permutation family (0: rotation r x transposition t, idx = 16 r + t; 1: all 720, idx = Lehmer code), param 2 = chunk,
//     param 3 = cases per query (selector range)
enum { PERM_CASES = 4 };
static inline unsigned perm_cases() { unsigned n = v_param(3); return (n >= 1 && n <= PERM_CASES) ? n : PERM_CASES; }   // param 3 = cases per query
static const int TRANSP[16][2] = {{0, 0}, {0, 1}, {0, 2}, {2, 3}, {1, 2}, {0, 3}, {0, 4}, {0, 5}, {1, 3}, {1, 4}, {1, 5}, {2, 4}, {2, 5}, {3, 4}, {3, 5}, {4, 5}};

static void decode_perm(unsigned family, unsigned idx, int *p) {
  if (family == 0) {
    unsigned r = (idx / 16) % 6, t = idx % 16;
    for (int j = 0; j < 6; ++j) p[j] = (int)((j + r) % 6);
    int a = TRANSP[t][0], b = TRANSP[t][1], x = p[a]; p[a] = p[b]; p[b] = x;
  } else {
    int pool[6] = {0, 1, 2, 3, 4, 5}; unsigned rem = idx % 720, f = 120;
    for (int j = 0; j < 6; ++j) {
      unsigned d = rem / f; rem %= f; if (j < 5) f /= (unsigned)(5 - j);
      p[j] = pool[d];
      for (int k = (int)d; k < 5; ++k) pool[k] = pool[k + 1];
    }
  }
}

static __attribute__((noinline)) void perm_case(unsigned i) {
  unsigned variant = v_param(0), family = v_param(1), idx = v_param(2) * perm_cases() + i;
  if (i >= perm_cases() || idx >= (family == 0 ? 96u : 720u)) return;
  int p[6]; decode_perm(family, idx, p);
  HexK m;
  m.add_n_vertices(variant == 0 ? 8 : 12);
  hex_faces(m);
  std::vector<HFH> base = hex_list0();
  if (variant == 1) {
    if (!m.add_cell(hex_list0_ordered(), false).is_valid()) return;   // context only (the re-ordering of this list is job (1)/(2) variant 0)
    hex2_faces(m);
    base = hex_list1();
  }
  std::vector<HFH> lst; lst.reserve(6);
  for (int j = 0; j < 6; ++j) lst.push_back(base[(size_t)p[j]]);
  Snap before; take_snapshot(m, before);
  CH ch = m.add_cell(lst, true);
  Snap after; take_snapshot(m, after);
  if (!ch.is_valid()) {
    v_assert(snap_equal(before, after), "C16 rejected add_cell(halffaces, true) leaves the mesh unchanged");
  } else {
    // accepted: exactly one cell appended, made of exactly the given halffaces; nothing else changed
    v_assert(ch.idx() == before.nC && after.nC == before.nC + 1, "C16 accepted add_cell appends exactly one cell and returns its handle");
    after.nC = before.nC;
    v_assert(snap_equal(before, after), "C16 accepted add_cell changes nothing but the new cell");
    after.nC = before.nC + 1;
    bool same_set = after.cval[before.nC] == 6;
    for (int j = 0; j < 6; ++j) { int cnt = 0; for (int k = 0; k < 6; ++k) if (after.chf[before.nC][k] == base[(size_t)j].idx()) ++cnt; if (cnt != 1) same_set = false; }
    v_assert(same_set, "C16 accepted add_cell stores a re-ordering of exactly the given six halffaces");
    check_hex_all(m, P_CONV | P_ORI | P_HV, 0, 0, before.nC);
    v_witness("C16 perm accepted");
  }
  v_witness("C16 perm case end");
}
template <unsigned I> struct PermCase { static __attribute__((noinline)) void run() { perm_case(I); } };
extern "C" void harness_c16_perm() {
  unsigned sel = v_nondet_below(perm_cases());
  dispatch<PermCase, PERM_CASES>(sel);
}

// ---------------------------------------------------------------------------------------------------------------------
// (3) rejected constructions: wrong valence, non-quad face in the list, flipped / duplicated halfface -> invalid handle, mesh unchanged
//     param 0 = chunk
enum { REJ_CASES = 5, N_REJ = 15 };
static __attribute__((noinline)) void rej_case(unsigned i) {
  unsigned idx = v_param(0) * REJ_CASES + i;
  if (idx >= N_REJ) return;
  HexK m;
  m.add_n_vertices(9);
  hex_faces(m);
  FH tri = FH(-1);
  if (idx == 3) {   // a triangle can only enter through the (non-virtual) base-class call
    EH a = m.add_edge(VH(1), VH(8)), b = m.add_edge(VH(8), VH(0));
    tri = m.TopologyKernel::add_face(vec3(HEH(0), a.halfedge_handle(0), b.halfedge_handle(0)), true);
    if (!tri.is_valid()) return;
  }
  std::vector<HFH> l = hex_list0();
  Snap before; take_snapshot(m, before);
  bool valid = true;
  switch (idx) {
  case 0: l.pop_back(); valid = m.add_cell(l, true).is_valid(); break;                            // 5 halffaces, check on
  case 1: l.push_back(hf(FH(0), 0)); valid = m.add_cell(l, true).is_valid(); break;                // 7 halffaces
  case 2: l.pop_back(); valid = m.add_cell(l, false).is_valid(); break;                           // 5 halffaces, check off
  case 3: l[5] = hf(tri, 0); valid = m.add_cell(l, true).is_valid(); break;                       // a face of valence 3 among the six
  case 4: l[1] = hf(FH(1), 0); valid = m.add_cell(l, true).is_valid(); break;                     // second halfface flipped (not closed)
  case 5: l[0] = hf(FH(0), 0); valid = m.add_cell(l, true).is_valid(); break;                     // first halfface flipped
  case 6: l[3] = hf(FH(3), 0); valid = m.add_cell(l, true).is_valid(); break;                     // a side halfface flipped
  case 7: l[5] = l[4]; valid = m.add_cell(l, true).is_valid(); break;                             // duplicate halfface, one face missing
  case 8: valid = m.add_face(vec3(VH(0), VH(1), VH(8))).is_valid(); break;                        // add_face(3 vertices)
  case 9: valid = m.add_face(vec5(VH(0), VH(1), VH(5), VH(8), VH(4))).is_valid(); break;          // add_face(5 vertices)
  case 10: valid = m.add_face(vec3(HEH(0), HEH(2), HEH(4)), false).is_valid(); break;             // add_face(3 halfedges), check off
  case 11: valid = m.add_face(vec5(HEH(0), HEH(2), HEH(4), HEH(6), HEH(0)), false).is_valid(); break;  // add_face(5 halfedges)
  case 12: valid = m.add_face(vec4(HEH(0), HEH(2), HEH(4), HEH(7)), true).is_valid(); break;      // 4 halfedges, not a closed loop, check on
  case 13: { std::vector<VH> v = vec8(0, 1, 2, 3, 4, 7, 6, 5); v.pop_back(); valid = m.add_cell(v, true).is_valid(); break; }   // 7 vertices
  case 14: l[4] = hf(FH(4), 0); l[5] = hf(FH(5), 0); valid = m.add_cell(l, true).is_valid(); break;  // two side halffaces flipped
  default: break;
  }
  Snap after; take_snapshot(m, after);
  v_assert(!valid, "C16 add_face/add_cell with wrong valence or failing topology check returns an invalid handle");
  v_assert(snap_equal(before, after), "C16 rejected add_face/add_cell leaves the mesh unchanged");
  v_witness("C16 reject case end");
}
template <unsigned I> struct RejCase { static __attribute__((noinline)) void run() { rej_case(I); } };
extern "C" void harness_c16_reject() {
  unsigned sel = v_nondet_below(REJ_CASES);
  dispatch<RejCase, REJ_CASES>(sel);
}

// ---------------------------------------------------------------------------------------------------------------------
// (4) add_cell(8 vertices): first hex on documented positions 0..7, second hex glued onto face g of the first one such that the shared
//     face is the second hex's local face L in rotation rot (idx = 4 L + rot, 24 cases); idx 24,25: all six faces pre-exist (B_HEX
//     layout, built by add_face).   param 0 = g, 1 = topologyCheck, 2 = chunk, 3 = cases per query
enum { VERT_CASES = 4, N_VERT = 26 };
static inline unsigned vert_cases() { unsigned n = v_param(3); return (n >= 1 && n <= VERT_CASES) ? n : VERT_CASES; }   // param 3 = cases per query
static __attribute__((noinline)) void vert_end() { v_witness("C16 vertices case end"); }   // one witness call site for both kinds of case
static __attribute__((noinline)) void vert_case(unsigned i) {
  unsigned g = v_param(0) % 6, chk = v_param(1), idx = v_param(2) * vert_cases() + i;
  if (i >= vert_cases() || idx >= N_VERT) return;
  HexK m;
  if (idx >= 24) {
    m.add_n_vertices(8);
    hex_faces(m);
    int v[8] = {0, 1, 2, 3, 4, 7, 6, 5};
    if (idx == 25) { int w[8] = {1, 2, 3, 0, 5, 4, 7, 6}; for (int k = 0; k < 8; ++k) v[k] = w[k]; }   // the same hex, rotated about its first axis
    CH ch = m.add_cell(vec8(v[0], v[1], v[2], v[3], v[4], v[5], v[6], v[7]), chk != 0);
    if (!ch.is_valid()) return;
    HSnap s; hs_take(m, s);
    v_assert(s.nV == 8 && s.nE == 12 && s.nF == 6 && s.nC == 1, "C16 add_cell(vertices) on six pre-existing faces creates no face or edge");
    check_no_duplicates(s);
    check_hex_all(m, P_CONV | P_ORI | P_HV);
    check_hv_matches_input(m, 0, v);
    vert_end();
    return;
  }
  unsigned L = idx / 4, rot = idx % 4;
  m.add_n_vertices(12);
  CH c0 = m.add_cell(vec8(0, 1, 2, 3, 4, 5, 6, 7), false);   // documented position k = vertex k (context; with check: base HB_HEX2_VERTS)
  if (!c0.is_valid()) return;
  // face g of the first hex as listed by its cell: DOC_FACE[g]; the second hex sees it from the other side: reversed
  int opp[4]; for (int j = 0; j < 4; ++j) opp[j] = DOC_FACE[g][3 - j];
  int v[8]; for (int k = 0; k < 8; ++k) v[k] = -1;
  for (int j = 0; j < 4; ++j) v[DOC_FACE[L][j]] = opp[(j + rot) % 4];
  for (int q = 0; q < 8; ++q) {
    if (v[q] >= 0) continue;
    for (int e = 0; e < 12; ++e) for (int j = 0; j < 4; ++j) {
      if (DOC_EDGE[e][0] == q && DOC_EDGE[e][1] == DOC_FACE[L][j]) v[q] = 8 + j;
      if (DOC_EDGE[e][1] == q && DOC_EDGE[e][0] == DOC_FACE[L][j]) v[q] = 8 + j;
    }
  }
  CH c1 = m.add_cell(vec8(v[0], v[1], v[2], v[3], v[4], v[5], v[6], v[7]), chk != 0);
  if (!c1.is_valid()) return;
  HSnap s; hs_take(m, s);
  v_assert(s.nV == 12 && s.nE == 20 && s.nF == 11 && s.nC == 2, "C16 add_cell(vertices) next to an existing hex creates exactly the 5 missing faces and 8 missing edges");
  check_no_duplicates(s);
  v_assert(hs_pos_in_cell(s, 1, s.chf[0][g] ^ 1) == (int)L, "C16 add_cell(vertices) reuses the existing face: its opposite halfface sits at the matching position of the new cell");
  check_hex_all(m, P_CONV | P_ORI | P_HV, 0, 0, 1);   // the new cell (the first one alone: job (1) and the idx >= 24 cases)
  check_hv_matches_input(m, 1, v);
  vert_end();
}
template <unsigned I> struct VertCase { static __attribute__((noinline)) void run() { vert_case(I); } };
extern "C" void harness_c16_verts() {
  unsigned sel = v_nondet_below(vert_cases());
  dispatch<VertCase, VERT_CASES>(sel);
}

// ---------------------------------------------------------------------------------------------------------------------
// (5) inherited operations keep the shape and the convention of the surviving cells.  two-hex base; param 0 = deletion mode,
//     1 = chunk, 2 = 1: collect_garbage() afterwards, 3 = cases per query
enum { OPS_CASES = 4, N_OPS_C16 = 12 };
static inline unsigned ops_cases() { unsigned n = v_param(3); return (n >= 1 && n <= OPS_CASES) ? n : OPS_CASES; }   // param 3 = cases per query
static const unsigned OPS_TABLE[N_OPS_C16][3] = {
  {OP_DEL_C, 0, 0}, {OP_DEL_F, 1, 0}, {OP_SWAP_C, 0, 1}, {OP_SWAP_F, 1, 10},
  {OP_DEL_C, 1, 0}, {OP_DEL_F, 0, 0}, {OP_DEL_F, 8, 0}, {OP_SWAP_F, 0, 5},
  {OP_DEL_E, 0, 0}, {OP_DEL_V, 0, 0}, {OP_SWAP_E, 0, 19}, {OP_SWAP_V, 0, 11}};
static __attribute__((noinline)) void ops_case(unsigned i) {
  unsigned mode = v_param(0), idx = v_param(1) * ops_cases() + i;
  if (i >= ops_cases() || idx >= N_OPS_C16) return;
  HexK m;
  set_mode(m, mode);
  build_hex_base(m, HB_HEX2_FAST);
  if (m.n_cells() != 2) return;
  apply_op(m, OPS_TABLE[idx][0], OPS_TABLE[idx][1], OPS_TABLE[idx][2]);
  if (v_param(2)) m.collect_garbage();
  check_hex_all(m, P_CONV | P_ORI | P_HV);
  v_witness("C16 ops case end");
}
template <unsigned I> struct OpsCase { static __attribute__((noinline)) void run() { ops_case(I); } };
extern "C" void harness_c16_ops() {
  unsigned sel = v_nondet_below(ops_cases());
  dispatch<OpsCase, OPS_CASES>(sel);
}

// ---------------------------------------------------------------------------------------------------------------------
// (6) the static orientation algebra for every pair of 8-bit arguments: orthogonal_orientation is the cross product of the signed axes
//     (XF x YF = ZF, the handedness fixed by the layout "first halfface's halfedges meet 2,4,3,5"), opposite_orientation flips the side
extern "C" void harness_c16_orient_static() {
  unsigned char o1 = v_nondet_u8(), o2 = v_nondet_u8();
  unsigned char r = HexK::orthogonal_orientation(o1, o2);
  unsigned char expect = HexK::INVALID;                       // invalid or same-axis arguments
  if (o1 < 6 && o2 < 6 && (o1 >> 1) != (o2 >> 1)) {
    int a1 = o1 >> 1, a2 = o2 >> 1, a3 = 3 - a1 - a2;
    bool cyclic = (a2 == (a1 + 1) % 3);                       // x*y, y*z, z*x are positive
    bool neg = ((o1 & 1) != 0) != ((o2 & 1) != 0);
    if (!cyclic) neg = !neg;
    expect = (unsigned char)(2 * a3 + (neg ? 1 : 0));
  }
  v_assert(r == expect, "C16 orthogonal_orientation(o1,o2) == cross product of the signed axes, INVALID for invalid or same-axis arguments");
  if (o1 < 6) {
    v_assert(HexK::opposite_orientation(o1) == (o1 ^ 1), "C16 opposite_orientation flips front/back on the same axis");
    v_assert(HexK::orthogonal_orientation(o1, HexK::opposite_orientation(o1)) == HexK::INVALID, "C16 an orientation and its opposite have no orthogonal orientation");
  }
  v_witness("C16 orientation algebra end");
}

#ifdef C16_CONTROL
// negative control (not part of any job; native sanity runs only): cells stored in a NON-convention order (topology check off, "at the
// user's risk") must make the convention oracle fail -- shows that the oracle is not vacuous.
extern "C" void harness_c16_control() {
  HexK m;
  m.add_n_vertices(8); hex_faces(m);
  std::vector<HFH> l = hex_list0_ordered();
  unsigned k = v_param(0);
  if (k == 0) l = hex_list0();                                        // (2,3) adjacent instead of opposite
  if (k == 1) { HFH t = l[4]; l[4] = l[5]; l[5] = t; }                // z flipped: wrong handedness
  if (k == 2) { HFH t = l[0]; l[0] = l[1]; l[1] = t; }                // x flipped: wrong handedness
  if (k == 3) { HFH t = l[2]; l[2] = l[4]; l[4] = t; t = l[3]; l[3] = l[5]; l[5] = t; }   // y and z axes exchanged: wrong handedness
  m.add_cell(l, false);
  check_hex_all(m, P_CONV | P_ORI | P_HV);
  v_witness("C16 control end");
}
#endif
