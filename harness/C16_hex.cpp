// C16: hexahedral kernel -- shape, XF/XB/YF/YB/ZF/ZB halfface order, orientation helpers, hex navigation, hex iterators.
#include "ops.h"
#include "c16_hex.h"

// ---------------------------------------------------------------------------------------------------------------------
// (1) bases built through the hexahedral kernel (add_cell(halffaces,true) with a list that needs re-ordering, and
//     add_cell(8 vertices)), full oracle.   param 0 = base
extern "C" void harness_c16_base() {
  HexK m;
  build_hex_base(m, v_param(0));
  if (m.n_cells() != (v_param(0) == HB_HEX ? 1u : v_param(0) == HB_SHEET ? 4u : 2u)) return;   // base not built: witness unreachable
  check_hex_all(m, v_param(1));
  v_witness("C16 base end");
}
