// C06 (a): codec units -- decode(encode(x)) == x for every value; C07/C18 unit obligations on Decoder::need.
#include "verif.h"
#include <OpenVolumeMesh/IO/detail/Decoder.hh>
#include <OpenVolumeMesh/IO/detail/Encoder.hh>
#include <OpenVolumeMesh/IO/detail/WriteBuffer.hh>
#include <OpenVolumeMesh/IO/detail/exceptions.hh>
using namespace OpenVolumeMesh::IO::detail;

extern "C" void harness_codec_ints() {
  uint8_t a = v_nondet_u8(); uint16_t b = (uint16_t)v_nondet_u32(); uint32_t c = v_nondet_u32(); uint64_t d = v_nondet_u64();
  int8_t sa = (int8_t)v_nondet_u8(); int16_t sb = (int16_t)v_nondet_u32(); int32_t sc = (int32_t)v_nondet_u32(); int64_t sd = (int64_t)v_nondet_u64();
  uint32_t fbits = v_nondet_u32(); uint64_t dbits = v_nondet_u64();
  float f; double g; __builtin_memcpy(&f, &fbits, 4); __builtin_memcpy(&g, &dbits, 8);
  WriteBuffer wb; Encoder enc(wb);
  enc.write(a); enc.write(b); enc.write(c); enc.write(d); enc.write(sa); enc.write(sb); enc.write(sc); enc.write(sd); enc.write(f); enc.write(g);
  std::vector<uint8_t> bytes = wb.vec();
  V_ASSERT(bytes.size() == 1 + 2 + 4 + 8 + 1 + 2 + 4 + 8 + 4 + 8);
  // little-endian layout as published
  V_ASSERT(bytes[1] == (uint8_t)(b & 0xff) && bytes[2] == (uint8_t)(b >> 8));
  V_ASSERT(bytes[3] == (uint8_t)c && bytes[6] == (uint8_t)(c >> 24));
  Decoder dec(bytes);
  dec.need(bytes.size());
  uint8_t a2; uint16_t b2; uint32_t c2; uint64_t d2; int8_t sa2; int16_t sb2; int32_t sc2; int64_t sd2; float f2; double g2;
  dec.read(a2); dec.read(b2); dec.read(c2); dec.read(d2); dec.read(sa2); dec.read(sb2); dec.read(sc2); dec.read(sd2); dec.read(f2); dec.read(g2);
  V_ASSERT(a2 == a && b2 == b && c2 == c && d2 == d);
  V_ASSERT(sa2 == sa && sb2 == sb && sc2 == sc && sd2 == sd);
  uint32_t fb2; uint64_t db2; __builtin_memcpy(&fb2, &f2, 4); __builtin_memcpy(&db2, &g2, 8);
  V_ASSERT(fb2 == fbits && db2 == dbits);   // bit patterns (NaN payloads included)
  V_ASSERT(dec.finished() && dec.remaining_bytes() == 0);
  v_witness("codec ints");
}

// Decoder::need is the guard every reader relies on: it throws exactly when fewer than n bytes remain
extern "C" void harness_need() {
  unsigned len = v_nondet_below(6);
  std::vector<uint8_t> bytes; bytes.reserve(6);
  for (unsigned i = 0; i < 5; ++i) if (i < len) bytes.push_back(v_nondet_u8());
  Decoder dec(bytes);
  unsigned skip = v_nondet_below(6); v_assume(skip <= len);
  dec.seek(skip);
  uint64_t n = v_nondet_u64();
  bool thrown = false;
  try { dec.need((size_t)n); } catch (const parse_error &) { thrown = true; }
  V_ASSERT(thrown == (n > (uint64_t)(len - skip)));
  V_ASSERT(dec.pos() == skip);
  bool other = false;
  try { try { dec.need((size_t)n); } catch (const std::runtime_error &) { other = true; } } catch (...) { V_ASSERT(false); }
  V_ASSERT(other == thrown);
  if (thrown) v_witness("need throws"); else v_witness("need passes");
}

// strings of length <= 3: write -> read identity, and the length prefix is checked against the buffer
extern "C" void harness_codec_string() {
  unsigned len = v_nondet_below(4);
  std::string s;
  for (unsigned i = 0; i < 3; ++i) if (i < len) s.push_back((char)v_nondet_u8());
  WriteBuffer wb; Encoder enc(wb);
  enc.write(s);
  std::vector<uint8_t> bytes = wb.vec();
  V_ASSERT(bytes.size() == 4 + len);
  V_ASSERT(bytes[0] == len && bytes[1] == 0 && bytes[2] == 0 && bytes[3] == 0);
  Decoder dec(bytes);
  std::string t;
  dec.need(4);
  dec.read(t);
  V_ASSERT(t.size() == len);
  for (unsigned i = 0; i < 3; ++i) if (i < len) V_ASSERT(t[i] == s[i]);
  V_ASSERT(dec.finished());
  v_witness("codec string");
}
