// C08 (ii): opposite half-entities are exact mirror images.
//   harness_mirror_vlist : face built by add_face(vertex list), list length L = v_param(0) in 1..5 over NV = v_param(1) vertices, every
//                          list of that length (loops, 2-gons, repeated vertices included) is a case of the selector dispatch
//                          (v_param(2) = chunk of 8 cases).
//   harness_mirror_helist: face built by add_face(halfedge list, topologyCheck = true) with a FREE SYMBOLIC halfedge list of concrete
//                          length L = v_param(0) on a fixed edge set (edge bottom-up incidences off, so that acceptance only stores
//                          the list; the accept/reject decision and everything checked afterwards only reads).
//   harness_mirror_ops   : every face of a base mesh after one operation (ops.h), params as in C01 (0 base, 1 mode, 2 op, 3 chunk).
// Checked for each (half)face: halfface(hf) lists what the snapshot of the stored definition prescribes (side 1 = reversed list of
// opposite halfedges), opposite of opposite = identity, closed loop, the six circulators of both sides, next/prev steps; for a free
// symbolic halfedge probe: halfedge(h^1) swaps from/to.  The oracle is the stored definition (Snap), read once through face()/edge().
#include "ops.h"

static inline int probe_below(int n) { unsigned x = v_nondet_u32(); v_assume(n > 0 ? x < (unsigned)n : x == 0); return (int)x; }

enum { MAXN = MAXFV, LIM = 16 };
struct Seq { int n; int a[LIM]; };
template <class It> static inline void collect(It it, Seq &s) {
  s.n = 0;
  for (; it.valid() && s.n < LIM; ++it) s.a[s.n++] = (*it).idx();
  if (it.valid()) s.n = -1;   // did not terminate within LIM steps
}
// B is A traversed in the opposite direction (as cyclic sequences), elements mapped by flip: exists r: B[k] == A[(r - k) mod n] ^ flip
static bool reverse_cycle(const Seq &A, const Seq &B, int flip) {
  if (A.n != B.n || A.n <= 0) return false;
  int n = A.n;
  for (int r = 0; r < n; ++r) {
    bool ok = true;
    for (int k = 0; k < n; ++k) if (B.a[k] != (A.a[(r - k + 2 * n) % n] ^ flip)) ok = false;
    if (ok) return true;
  }
  return false;
}
// B is a rotation of A
static bool same_cycle(const Seq &A, const Seq &B) {
  if (A.n != B.n || A.n <= 0) return false;
  int n = A.n;
  for (int r = 0; r < n; ++r) {
    bool ok = true;
    for (int k = 0; k < n; ++k) if (B.a[k] != A.a[(r + k) % n]) ok = false;
    if (ok) return true;
  }
  return false;
}

static Snap S;

// all mirror obligations of one face f (concrete handle; the position in the cycle is a free symbolic probe where only elements are compared)
static void check_face(const TopologyKernel &m, int f, bool must_be_closed) {
  const int n = S.fval[f];
  if (n < 1 || n > MAXN) return;
  const HFH h0 = HFH(2 * f), h1 = HFH(2 * f + 1);
  const int k = probe_below(n);             // symbolic position in the cycle
  const int kn = (k + 1 == n) ? 0 : k + 1;  // next position
  // --- halfface() of both sides against the stored definition; side 1 = reversed list of opposite halfedges
  std::vector<HEH> l0 = m.halfface(h0).halfedges(), l1 = m.halfface(h1).halfedges();
  v_assert((int)l0.size() == n && (int)l1.size() == n, "C08 both halffaces have the face's valence");
  v_assert(l0[(size_t)k].idx() == S.fhe[f][k], "C08 halfface(side 0) lists the face's halfedges in order");
  v_assert(l1[(size_t)k] == l0[(size_t)(n - 1 - k)].opposite_handle(), "C08 halfface(hf^1) == reversed list of opposite halfedges of halfface(hf)");
  v_assert(l0[(size_t)k] == l1[(size_t)(n - 1 - k)].opposite_handle(), "C08 halfface(hf) == reversed list of opposite halfedges of halfface(hf^1)");
#ifdef C08_NEGATIVE_CONTROL   // development aid: a deliberately wrong mirror relation (not reversed) must be refuted
  v_assert(l1[(size_t)k] == l0[(size_t)k].opposite_handle(), "NEGATIVE CONTROL (expected to fail for valence >= 3)");
#endif
  // opposite_halfface(handle) and the value-level opposite_halfface(Face)
  std::vector<HEH> o0 = m.opposite_halfface(h0).halfedges(), o1 = m.opposite_halfface(h1).halfedges();
  v_assert((int)o0.size() == n && (int)o1.size() == n && o0[(size_t)k] == l1[(size_t)k] && o1[(size_t)k] == l0[(size_t)k], "C08 opposite_halfface(hf) == halfface(hf^1)");
  OpenVolumeMeshFace twice = m.opposite_halfface(m.opposite_halfface(m.face(FH(f))));
  v_assert((int)twice.halfedges().size() == n && twice.halfedges()[(size_t)k].idx() == S.fhe[f][k], "C08 opposite of opposite halfface is the identity");
  // --- closed loop: each halfedge ends where the next begins (both sides)
  if (must_be_closed) {
    v_assert(m.halfedge(l0[(size_t)k]).to_vertex() == m.halfedge(l0[(size_t)kn]).from_vertex(), "C08 face is a closed loop (side 0)");
    v_assert(m.halfedge(l1[(size_t)k]).to_vertex() == m.halfedge(l1[(size_t)kn]).from_vertex(), "C08 face is a closed loop (side 1)");
    v_assert(m.to_vertex_handle(l0[(size_t)k]) == m.from_vertex_handle(l0[(size_t)kn]), "C08 closed loop via from/to_vertex_handle");
  }
  // --- circulators of both sides against the definition
  Seq hv0, hv1, hh0, hh1, he0, he1, fv, fh, fe;
  collect(m.hfv_iter(h0), hv0); collect(m.hfv_iter(h1), hv1);
  collect(m.hfhe_iter(h0), hh0); collect(m.hfhe_iter(h1), hh1);
  collect(m.hfe_iter(h0), he0); collect(m.hfe_iter(h1), he1);
  collect(m.fv_iter(FH(f)), fv); collect(m.fhe_iter(FH(f)), fh); collect(m.fe_iter(FH(f)), fe);
  v_assert(hv0.n == n && hv1.n == n && hh0.n == n && hh1.n == n && he0.n == n && he1.n == n && fv.n == n && fh.n == n && fe.n == n,
           "C08 every face/halfface circulator makes exactly one lap of valence steps");
  if (hv0.n == n && hv1.n == n && hh0.n == n && hh1.n == n && he0.n == n && he1.n == n && fv.n == n && fh.n == n && fe.n == n) {
    // halfedge circulators enumerate halfface(hf); vertex circulators the source vertices; edge circulators the edges
    v_assert(hh0.a[k] == snap_hf_he(S, 2 * f, k) && hh1.a[k] == snap_hf_he(S, 2 * f + 1, k), "C08 halfface_halfedges(hf) enumerates halfface(hf)");
    v_assert(hv0.a[k] == snap_he_from(S, snap_hf_he(S, 2 * f, k)) && hv1.a[k] == snap_he_from(S, snap_hf_he(S, 2 * f + 1, k)), "C08 halfface_vertices(hf) enumerates the source vertices of halfface(hf)");
    v_assert(he0.a[k] == (snap_hf_he(S, 2 * f, k) >> 1) && he1.a[k] == (snap_hf_he(S, 2 * f + 1, k) >> 1), "C08 halfface_edges(hf) enumerates the edges of halfface(hf)");
    // the two sides enumerate the same cycle in opposite directions
    v_assert(reverse_cycle(hh0, hh1, 1), "C08 halfface_halfedges of the two sides: same cycle, opposite direction, opposite halfedges");
    v_assert(reverse_cycle(he0, he1, 0), "C08 halfface_edges of the two sides: same cycle, opposite direction");
    if (must_be_closed) v_assert(reverse_cycle(hv0, hv1, 0), "C08 halfface_vertices of the two sides: same cycle, opposite direction");
    // the face circulators enumerate the cycle of one of the sides
    v_assert(same_cycle(hh0, fh) || same_cycle(hh1, fh), "C08 face_halfedges enumerates the cycle of one side");
    v_assert(same_cycle(hv0, fv) || same_cycle(hv1, fv), "C08 face_vertices enumerates the cycle of one side");
    v_assert(same_cycle(he0, fe) || same_cycle(he1, fe), "C08 face_edges enumerates the cycle of one side");
  }
  // --- next/prev_halfedge_in_halfface: steps along the cycle (asserted where the halfedge occurs once in the face: otherwise the
  //     step from "the" occurrence is not defined by the interface)
  for (int side = 0; side < 2; ++side) {
    int hfh = 2 * f + side;
    int hk = snap_hf_he(S, hfh, k), hn = snap_hf_he(S, hfh, kn);
    if (snap_count_he_in_hf(S, hfh, hk) == 1) {
      v_assert(m.next_halfedge_in_halfface(HEH(hk), HFH(hfh)).idx() == hn, "C08 next_halfedge_in_halfface steps forward along the cycle");
      if (snap_count_he_in_hf(S, hfh, hn) == 1) {
        v_assert(m.prev_halfedge_in_halfface(HEH(hn), HFH(hfh)).idx() == hk, "C08 prev_halfedge_in_halfface steps backward along the cycle");
        v_assert(m.prev_halfedge_in_halfface(m.next_halfedge_in_halfface(HEH(hk), HFH(hfh)), HFH(hfh)).idx() == hk, "C08 prev(next(h)) == h");
        v_assert(m.next_halfedge_in_halfface(m.prev_halfedge_in_halfface(HEH(hn), HFH(hfh)), HFH(hfh)).idx() == hn, "C08 next(prev(h)) == h");
      }
    }
  }
}

// halfedge(h^1) swaps source and target; opposite of opposite is the identity (free symbolic halfedge probe)
static void check_halfedges(const TopologyKernel &m) {
  if (S.nE == 0) return;
  int he = probe_below(2 * S.nE);
  OpenVolumeMeshEdge a = m.halfedge(HEH(he)), b = m.halfedge(HEH(he ^ 1)), o = m.opposite_halfedge(HEH(he));
  v_assert(a.from_vertex().idx() == snap_he_from(S, he) && a.to_vertex().idx() == snap_he_to(S, he), "C08 halfedge(h) is the stored edge for side 0 and its reversal for side 1");
  v_assert(a.from_vertex() == b.to_vertex() && a.to_vertex() == b.from_vertex(), "C08 halfedge(h^1) swaps from and to");
  v_assert(o.from_vertex() == b.from_vertex() && o.to_vertex() == b.to_vertex(), "C08 opposite_halfedge(h) == halfedge(h^1)");
  OpenVolumeMeshEdge oo = m.opposite_halfedge(m.opposite_halfedge(a));
  v_assert(oo.from_vertex() == a.from_vertex() && oo.to_vertex() == a.to_vertex(), "C08 opposite of opposite halfedge is the identity");
  v_assert(m.from_vertex_handle(HEH(he)) == a.from_vertex() && m.to_vertex_handle(HEH(he)) == a.to_vertex(), "C08 from/to_vertex_handle(h) agree with halfedge(h)");
  v_assert(m.from_vertex_handle(HEH(he ^ 1)) == m.to_vertex_handle(HEH(he)), "C08 from_vertex_handle(h^1) == to_vertex_handle(h)");
}

// ------------------------------------------------------------------------------------------------ add_face(vertex list)
static unsigned ipow(unsigned b, unsigned e) { unsigned r = 1; for (unsigned i = 0; i < e; ++i) r *= b; return r; }

static __attribute__((noinline)) void vlist_case(unsigned i) {
  const unsigned L = v_param(0), NV = v_param(1), idx = v_param(2) * CASES_PER_QUERY + i;
  if (L < 1 || L > 5 || NV < 1 || NV > 5 || idx >= ipow(NV, L)) return;
  TopologyKernel m;
  m.add_n_vertices(5);
  m.add_edge(VH(1), VH(0));   // a pre-existing edge in the "reverse" orientation: exercises the orientation choice of add_face
  std::vector<VH> vs; vs.reserve(5);
  unsigned r = idx;
  for (unsigned j = 0; j < 5; ++j) if (j < L) { vs.push_back(VH((int)(r % NV))); r /= NV; }
  FH f = m.add_face(vs);
  if (!f.is_valid()) return;   // (what add_face returns is C11's subject; a face that is never built leaves the witness unreachable)
  take_snapshot(m, S);
  if (S.overflow || S.nF != 1) return;
  check_face(m, 0, true);      // includes: the face built from the vertex list is a closed loop
  check_halfedges(m);
  v_witness("C08 vertex-list face");
}
template <unsigned I> struct VCase { static __attribute__((noinline)) void run() { vlist_case(I); } };
extern "C" void harness_mirror_vlist() {
  unsigned sel = v_nondet_u32();
  v_assume(sel < CASES_PER_QUERY);
  dispatch<VCase, CASES_PER_QUERY>(sel);
}

// ------------------------------------------------------------------------------------------------ add_face(halfedge list, topologyCheck = true)
// fixed edge set on 4 vertices: a triangle, a chord, a duplicate edge, a loop edge, an edge stored in reverse
static void build_edges(TopologyKernel &m) {
  m.add_n_vertices(4);
  m.add_edge(VH(0), VH(1)); m.add_edge(VH(1), VH(2)); m.add_edge(VH(2), VH(0));   // E0 E1 E2
  m.add_edge(VH(3), VH(2));                                                       // E3 (reverse of 2->3)
  m.add_edge(VH(0), VH(1), true);                                                 // E4 duplicate of E0
  m.add_edge(VH(3), VH(3), true);                                                 // E5 loop
  m.add_edge(VH(0), VH(3));                                                       // E6
}
// (a) the accept/reject decision of add_face(halfedges, topologyCheck = true) for a free symbolic list: an accepted list is a closed
//     loop (each halfedge ends where the next begins) and is stored unchanged
extern "C" void harness_mirror_accept() {
  const unsigned L = v_param(0);
  if (L < 1 || L > 5) return;
  TopologyKernel m;
  m.enable_edge_bottom_up_incidences(false);   // acceptance then only appends the list to faces_ (no handle-indexed cache update)
  build_edges(m);
  const int nHE = 2 * (int)m.n_edges();
  std::vector<HEH> hs; hs.reserve(5);
  int raw[5];
  for (unsigned j = 0; j < 5; ++j) if (j < L) { raw[j] = probe_below(nHE); hs.push_back(HEH(raw[j])); }
  Snap pre; take_snapshot(m, pre);
  bool connected = true;   // the closed-loop condition, from the stored edges
  for (unsigned j = 0; j < 5; ++j) if (j < L) { unsigned jn = (j + 1 == L) ? 0 : j + 1; if (snap_he_to(pre, raw[j]) != snap_he_from(pre, raw[jn])) connected = false; }
  FH f = m.add_face(hs, true);
  v_assert(!f.is_valid() || connected, "C08 a list accepted by add_face(halfedges, topologyCheck) is a closed loop");
  if (f.is_valid()) {
    // the face that was stored is a closed loop: each halfedge ends where the next begins
    const std::vector<HEH> &st = m.face(f).halfedges();
    int n = (int)st.size(), k = probe_below(5);
    if (n >= 1 && n <= 5 && k < n) {
      int kn = (k + 1 == n) ? 0 : k + 1;
      v_assert(m.to_vertex_handle(st[(size_t)k]) == m.from_vertex_handle(st[(size_t)kn]), "C08 the face accepted with topology check is a closed loop");
      v_witness("C08 halfedge-list face accepted");
    }
  }
  if (!f.is_valid()) v_witness("C08 halfedge-list face rejected");
}
// (b) the mirror obligations for EVERY closed halfedge loop of length L on the fixed edge set: the list is free symbolic and stored by
//     the same add_face without the check (so that the mesh has a concrete shape with symbolic contents); the stored face is assumed
//     to be a closed loop, which is what (a) shows for the faces accepted with the check
extern "C" void harness_mirror_helist() {
  const unsigned L = v_param(0);
  if (L < 1 || L > 5) return;
  TopologyKernel m;
  m.enable_edge_bottom_up_incidences(false);
  build_edges(m);
  const int nHE = 2 * (int)m.n_edges();
  std::vector<HEH> hs; hs.reserve(5);
  int raw[5];
  for (unsigned j = 0; j < 5; ++j) if (j < L) { raw[j] = probe_below(nHE); hs.push_back(HEH(raw[j])); }
  FH f = m.add_face(hs, false);
  if (!f.is_valid()) return;
  take_snapshot(m, S);
  if (S.overflow || S.nF != 1 || S.fval[0] < 1 || S.fval[0] > 5) return;
  // precondition: the stored face is a closed loop (what acceptance with topology check guarantees, entry (a))
  for (int j = 0; j < 5; ++j) if (j < S.fval[0]) { int jn = (j + 1 == S.fval[0]) ? 0 : j + 1; v_assume(snap_he_to(S, S.fhe[0][j]) == snap_he_from(S, S.fhe[0][jn])); }
  check_face(m, 0, true);
  check_halfedges(m);
  v_witness("C08 symbolic closed halfedge loop");
}

// ------------------------------------------------------------------------------------------------ faces of the base family after one operation
static __attribute__((noinline)) void do_case(unsigned i) {
  unsigned base = v_param(0), mode = v_param(1), op = v_param(2), chunk = v_param(3);
  TopologyKernel m;
  set_mode(m, mode);
  build_base(m, base);
  if (op != OP_NONE) {
    unsigned idx = chunk * CASES_PER_QUERY + i;
    if (idx >= op_arity_count(m, op)) return;
    unsigned a, b; op_decode(m, op, idx, a, b);
    if (!op_valid(m, op, a, b)) return;
    apply_op(m, op, a, b);
  } else if (i != 0 || chunk != 0) return;
  take_snapshot(m, S);
  if (S.overflow) return;
  for (int f = 0; f < S.nF; ++f) if (!S.fdel[f]) check_face(m, f, true);
  check_halfedges(m);
  v_witness("C08 base-after-op case end");
}
extern "C" void harness_mirror_ops() {
  unsigned sel = v_nondet_u32();
  v_assume(sel < CASES_PER_QUERY);
  dispatch<Case, CASES_PER_QUERY>(sel);
}
