// scratch probe (development only)
#include "mesh_common.h"
#include <stdexcept>

extern "C" void harness_p0() {
  TopologyKernel m;
  m.add_n_vertices(2);
  int x = v_nondet_int();
  auto p = m.request_property<int, Entity::Vertex>("a", 7);
  V_ASSERT(p.size() == 2);
  V_ASSERT(p[VH(0)] == 7);
  p[VH(1)] = x;
  V_ASSERT(p[VH(1)] == x);
  V_ASSERT(m.n_props<Entity::Vertex>() == 1);
  v_witness("p0");
}

extern "C" void harness_p1() {
  std::optional<TopologyKernel> mo; mo.emplace(); TopologyKernel *m = &*mo;
  m->add_n_vertices(2);
  int x = v_nondet_int();
  if (v_param(0) == 1) { v_witness("cut"); return; }
  auto p = m->request_property<int, Entity::Vertex>("a", 7);
  if (v_param(0) == 2) { v_witness("cut"); return; }
  auto q = m->request_property<int, Entity::Vertex>("a", 9);
  if (v_param(0) == 3) { v_witness("cut"); return; }
  p[VH(1)] = x;
  if (v_param(0) == 4) { v_witness("cut"); return; }
  V_ASSERT(q[VH(1)] == x);
  if (v_param(0) == 5) { v_witness("cut"); return; }
  auto b = m->request_property<bool, Entity::Vertex>("a", true);
  if (v_param(0) == 6) { v_witness("cut"); return; }
  V_ASSERT(b[VH(0)] == true);
  if (v_param(0) == 7) { v_witness("cut"); return; }
  V_ASSERT(m->n_props<Entity::Vertex>() == 2);
  if (v_param(0) == 8) { v_witness("cut"); return; }
  auto c = m->create_shared_property<int, Entity::Vertex>("a", 1);
  if (v_param(0) == 9) { v_witness("cut"); return; }
  V_ASSERT(!c.has_value());
  if (v_param(0) == 10) { v_witness("cut"); return; }
  auto g = m->get_property<int, Entity::Vertex>("b");
  if (v_param(0) == 11) { v_witness("cut"); return; }
  V_ASSERT(!g.has_value());
  if (v_param(0) == 12) { v_witness("cut"); return; }
  V_ASSERT((m->property_exists<int, Entity::Vertex>("a")));
  if (v_param(0) == 13) { v_witness("cut"); return; }
  auto pr = m->create_private_property<int, Entity::Vertex>("a", 3);
  if (v_param(0) == 14) { v_witness("cut"); return; }
  V_ASSERT(m->n_props<Entity::Vertex>() == 3);
  if (v_param(0) == 15) { v_witness("cut"); return; }
  bool thrown = false;
  if (v_param(0) == 16) { v_witness("cut"); return; }
  try { m->set_shared(pr, true); } catch (const std::runtime_error &) { thrown = true; }
  V_ASSERT(thrown);
  if (v_param(0) == 17) { v_witness("cut"); return; }
  V_ASSERT(!pr.shared());
  if (v_param(0) == 18) { v_witness("cut"); return; }
  thrown = false;
  if (v_param(0) == 19) { v_witness("cut"); return; }
  try { m->set_persistent(pr, true); } catch (const std::runtime_error &) { thrown = true; }
  V_ASSERT(thrown);
  if (v_param(0) == 20) { v_witness("cut"); return; }
  m->set_persistent(p, true);
  if (v_param(0) == 21) { v_witness("cut"); return; }
  V_ASSERT(m->n_persistent_props<Entity::Vertex>() == 1);
  if (v_param(0) == 22) { v_witness("cut"); return; }
  {
    auto p2 = p;
    V_ASSERT(p2[VH(1)] == x);
  }
  m->clear_props<Entity::Vertex>();
  if (v_param(0) == 23) { v_witness("cut"); return; }
  V_ASSERT(!p.shared() && !p.persistent());
  if (v_param(0) == 24) { v_witness("cut"); return; }
  V_ASSERT(m->n_props<Entity::Vertex>() == 3);
  if (v_param(0) == 25) { v_witness("cut"); return; }
  V_ASSERT(bool(p));
  if (v_param(0) == 26) { v_witness("cut"); return; }
  mo.reset();
  if (v_param(0) == 27) { v_witness("cut"); return; }
  V_ASSERT(!bool(p));
  if (v_param(0) == 28) { v_witness("cut"); return; }
  V_ASSERT(p.size() == 2);
  if (v_param(0) == 29) { v_witness("cut"); return; }
  V_ASSERT(p[VH(1)] == x);
  if (v_param(0) == 30) { v_witness("cut"); return; }
  v_witness("p1");
}

extern "C" void harness_p2() {
  TopologyKernel m;
  m.add_n_vertices(2);
  int x = v_nondet_int();
  auto p = m.create_persistent_property<int, Entity::Vertex>("a", 7);
  (*p)[VH(1)] = x;
  auto s = m.request_property<bool, Entity::Vertex>("s", false);
  {
    TopologyKernel c(m);
    V_ASSERT(c.n_vertices() == 2);
    V_ASSERT(c.n_props<Entity::Vertex>() == 1);
    auto q = c.get_property<int, Entity::Vertex>("a");
    V_ASSERT(q.has_value());
    V_ASSERT((*q)[VH(1)] == x);
    (*q)[VH(1)] = x + 1;
    V_ASSERT((*p)[VH(1)] == x);
    V_ASSERT(!(c.property_exists<bool, Entity::Vertex>("s")));
    c = m;
    c.add_vertex();
    V_ASSERT(q->size() == 3);
  }
  v_witness("p2");
}

extern "C" void harness_p3() {
  std::optional<TopologyKernel> mo; mo.emplace(); TopologyKernel *m = &*mo;
  m->add_n_vertices(2);
  V_ASSERT(m->n_vertices() == 2);
  v_witness("p3");
}
extern "C" void harness_p4() {
  TopologyKernel *m = new TopologyKernel;
  m->add_n_vertices(2);
  V_ASSERT(m->n_vertices() == 2);
  delete m;
  v_witness("p4");
}

extern "C" void harness_p5() {
  TopologyKernel m;
  m.add_n_vertices(2);
  auto b = m.request_property<bool, Entity::Vertex>("a", true);
  if (v_param(0) == 1) { v_witness("cut"); return; }
  V_ASSERT(b[VH(0)] == true);
  V_ASSERT(m.n_props<Entity::Vertex>() == 1);
  v_witness("p5");
}

extern "C" void harness_p6() {
  TopologyKernel m;
  m.add_n_vertices(2);
  auto a = m.request_property<int, Entity::Vertex>("a", 1);
  auto b = m.request_property<int, Entity::Vertex>("b", 2);
  if (v_param(0) == 1) { v_witness("cut"); return; }
  V_ASSERT(b[VH(0)] == 2);
  V_ASSERT(m.n_props<Entity::Vertex>() == 2);
  m.add_vertex();
  V_ASSERT(a.size() == 3 && b.size() == 3);
  v_witness("p6");
}
