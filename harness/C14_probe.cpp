// scratch probe (development only)
#include "mesh_common.h"

extern "C" void harness_p0() {
  TopologyKernel m;
  m.add_n_vertices(2);
  int x = v_nondet_int();
  auto p = m.request_property<int, Entity::Vertex>("a", 7);
  V_ASSERT(p.size() == 2);
  V_ASSERT(p[VH(0)] == 7);
  p[VH(1)] = x;
  V_ASSERT(p[VH(1)] == x);
  V_ASSERT(m.n_props<Entity::Vertex>() == 1);
  v_witness("p0");
}
