// C05 (circulators): each of the 26 centre/target circulators of TopologyKernel visits exactly its incident set,
// max_laps times; lap()/valid() protocol; end of the (begin,end) pair == begin advanced past the last lap; range-for;
// stepping backward undoes stepping forward; an empty incident set gives an immediately invalid circulator.
// State: base mesh (v_param 0) in deferred-deletion mode + at most one deletion of an entity of kind v_param(1), chosen by
// a symbolic selector (entity index = v_param(2) + selector, cases per query = v_param 5 (0: 8)).  v_param(4) = 1: skip the real range-for loops.  v_param(3): bit mask of centre groups
// (1 vertex, 2 halfedge, 32 edge, 4 halfface, 16 face, 8 cell; 0 = all).
// Centres are enumerated (concrete: several circulators std::sort in their constructor); symbolic: max_laps in {1,2,3}
// and the deletion selector.  Every position 0 .. 3*len-1 of the walk is checked (step counts are enumerated, not sampled).
#include "c05_common.h"
#include "c05_ref.h"

static int g_obs[C05_MAXSEQ];   // the first lap as observed

template <class It>
static void check_range(const std::pair<It, It> &pr, int laps, int len) {
  int j = 0;
  for (const auto h : pr) {
    if (j >= laps * len) { j = -1; break; }
    v_assert(h.idx() == g_obs[j % len], "C05 circ: range-for over the (begin,end) pair visits the incident sequence lap by lap");
    ++j;
  }
  v_assert(j == laps * len, "C05 circ: range-for over the (begin,end) pair makes exactly max_laps*len visits");
}

// backward from the last position of the third lap down to position 0 (these positions only exist for max_laps == 3)
template <class It>
static void back_walk(It top, int len, int ml) {
  for (int p = 3 * len - 2; p >= 0; --p) {
    --top;
    v_assert(ml != 3 || (top.valid() && (*top).idx() == g_obs[p % len] && top.lap() == p / len), "C05 circ: stepping backward retraces the forward walk");
  }
}

// FAM only serves to keep one instance (and thus one set of CBMC property names) per circulator family.
// pr is the (begin,end) pair returned by the range accessor (which calls x_iter(h, max_laps) and make_end_circulator);
// pr.first is walked in place.
template <int FAM, class It>
static __attribute__((noinline)) void check_circ(std::pair<It, It> &pr, const RefSeq &ref, bool ordered, int ml) {
  const int len = ref.n;
  It &it = pr.first;
  v_assert(!ref.overflow, "C05 harness capacity (reference sequence)");
  const It &end = pr.second;
  if (len == 0) {
    v_assert(!it.valid(), "C05 circ: an empty incident set gives an immediately invalid circulator");
    v_assert(it == end, "C05 circ: begin == end for an empty incident set");
    return;
  }
  for (int j = 0; j < 3 * len; ++j) {
    const int lapj = j / len, pos = j % len;
    const bool in = lapj < ml;   // position j is inside the max_laps*len valid positions (symbolic through ml only)
    v_assert(!in || it.valid(), "C05 circ: valid() holds on the first max_laps*len positions");
    const int h = (*it).idx();
    if (lapj == 0) g_obs[pos] = h;
    else v_assert(!in || h == g_obs[pos], "C05 circ: every later lap repeats the first lap");
#ifdef C05_SELFTEST   /* deliberately wrong oracle: the check must FAIL (harness self-test, never part of a job) */
    if (ordered) v_assert(!in || h == ref.h[(pos + 1) % len], "C05 circ: position k designates reference[k % len] (ordered family)");
#else
    if (ordered) v_assert(!in || h == ref.h[pos], "C05 circ: position k designates reference[k % len] (ordered family)");
#endif
    v_assert(!in || it.lap() == lapj, "C05 circ: lap() counts the completed laps");
    v_assert(!in || it != end, "C05 circ: a valid circulator differs from end");
    if (j == 3 * len - 1) back_walk(it, len, ml);   // by value: a copy at the last position of the third lap
    ++it;
    if (pos == len - 1) {
      const bool last = (lapj + 1 == ml);
      v_assert(!last || !it.valid(), "C05 circ: valid() is false after exactly max_laps*len increments");
      v_assert(!last || it == end, "C05 circ: end of the (begin,end) pair == begin advanced past the last lap");
    }
    if (lapj == 0 || pos == 0 || pos == len - 1) {
      // step back and forth again, in place: (cur_handle, lap) must come back while both positions are valid.
      // Done at every position of the first lap and at the first and last position of the later laps (wrap-around logic).
      const bool in2 = (j + 1) / len < ml;
      --it;
      v_assert(!in2 || (it.valid() && (*it).idx() == h && it.lap() == lapj), "C05 circ: -- after ++ restores (cur_handle, lap) while both positions are valid");
      ++it;
    }
    if (j == len - 1) {
      // first lap complete: compare with the reference as a multiset (also for ordered families)
      for (int i = 0; i < len; ++i) {
        int co = 0, cr = 0;
        for (int q = 0; q < len; ++q) { if (g_obs[q] == ref.h[i]) ++co; if (ref.h[q] == ref.h[i]) ++cr; }
        v_assert(co == cr, "C05 circ: the first lap visits exactly the reference incident multiset");
      }
    }
  }
}

// Symbolic step counts (entry harness_c05_steps): k forward steps, then b backward steps, both chosen by the solver.
// k ranges over 0 .. max_laps*len (k == max_laps*len is the end position), b over 0 .. k (b == 0 at the end position:
// stepping back from end is not part of the property).  g_obs holds the first lap, read off a copy by a concrete walk;
// its agreement with the reference is established by the enumerated check above, here only ordered families compare
// with the reference directly.
template <int FAM, class It>
static __attribute__((noinline)) void check_steps(std::pair<It, It> &pr, const RefSeq &ref, bool ordered, int ml) {
  const int len = ref.n;
  if (len == 0 || ref.overflow) return;
  It &it = pr.first;
  { It c = it; for (int j = 0; j < len; ++j) { g_obs[j] = (*c).idx(); ++c; } }
  const int total = 3 * len;
  const int k = (int)v_nondet_below((unsigned)total + 1), b = (int)v_nondet_below((unsigned)total + 1);
  v_assume(k <= ml * len && b <= k && (k < ml * len || b == 0));
  for (int j = 0; j < total; ++j) if (j < k) ++it;
  v_assert(it.valid() == (k < ml * len), "C05 steps: after k increments valid() holds iff k < max_laps*len");
  if (k == ml * len) v_assert(it == pr.second, "C05 steps: begin advanced max_laps*len times equals end");
  else {
    v_assert((*it).idx() == g_obs[k % len] && it.lap() == k / len, "C05 steps: after k increments *it is element k % len of the first lap and lap() == k / len");
    if (ordered) v_assert((*it).idx() == ref.h[k % len], "C05 steps: after k increments *it == reference[k % len] (ordered family)");
  }
  for (int j = 0; j < total; ++j) if (j < b) --it;
  if (k < ml * len) {
#ifdef C05_SELFTEST   /* deliberately wrong oracle: the check must FAIL (harness self-test, never part of a job) */
    const int p = k - b + (b == 2 ? 1 : 0);
#else
    const int p = k - b;
#endif
    v_assert(it.valid() && (*it).idx() == g_obs[p % len] && it.lap() == p / len, "C05 steps: b decrements after k increments lead to position k - b (cur_handle, lap, valid)");
  }
}

static bool g_steps_mode = false;
#define CIRC(FAM, PAIRFN, ITERFN, H, REFFN, ORDERED, C)                                                        \
  do { REFFN(s, (C), ref);                                                                                     \
       if (g_steps_mode) { auto pr = m.PAIRFN(H(C), ml); check_steps<FAM>(pr, ref, ORDERED, ml); break; }        \
       { auto pr = m.PAIRFN(H(C), ml);                                                                         \
         if (do_range) v_assert(m.ITERFN(H(C), ml) == pr.first, "C05 circ: x_iter(h, max_laps) equals begin of the (begin,end) pair"); \
         check_circ<FAM>(pr, ref, ORDERED, ml); }                                                              \
       if (do_range) check_range(m.PAIRFN(H(C)), 1, ref.n); } while (0)

static void check_all(const TopologyKernel &m, unsigned groups, int ml, bool do_range) {
  Snap s; take_snapshot(m, s);
  if (s.overflow) { v_assert(false, "C05 harness capacity (snapshot)"); return; }
  static RefSeq ref;
  ref_prepare(s);
  if (groups & 1) for (int v = 0; v < s.nV; ++v) {
    if (s.vdel[v]) continue;
    CIRC(F_VV, vertex_vertices, vv_iter, VH, ref_vv, false, v);
    CIRC(F_VOH, outgoing_halfedges, voh_iter, VH, ref_voh, false, v);
    CIRC(F_VIH, incoming_halfedges, vih_iter, VH, ref_vih, false, v);
    CIRC(F_VE, vertex_edges, ve_iter, VH, ref_ve, false, v);
    CIRC(F_VF, vertex_faces, vf_iter, VH, ref_vf, false, v);
    CIRC(F_VHF, vertex_halffaces, vhf_iter, VH, ref_vhf, false, v);
    CIRC(F_VC, vertex_cells, vc_iter, VH, ref_vc, false, v);
  }
  if (groups & (2 | 32)) for (int e = 0; e < s.nE; ++e) {
    if (s.edel[e]) continue;
    if (groups & 2) for (int he = 2 * e; he < 2 * e + 2; ++he) {
      CIRC(F_HEHF, halfedge_halffaces, hehf_iter, HEH, ref_hehf, false, he);
      CIRC(F_HEF, halfedge_faces, hef_iter, HEH, ref_hef, false, he);
      CIRC(F_HEC, halfedge_cells, hec_iter, HEH, ref_hec, false, he);
    }
    if (!(groups & 32)) continue;
    CIRC(F_EHF, edge_halffaces, ehf_iter, EH, ref_ehf, false, e);
    CIRC(F_EF, edge_faces, ef_iter, EH, ref_ef, false, e);
    CIRC(F_EC, edge_cells, ec_iter, EH, ref_ec, false, e);
  }
  if (groups & (4 | 16)) for (int f = 0; f < s.nF; ++f) {
    if (s.fdel[f]) continue;
    if (groups & 4) for (int g = 2 * f; g < 2 * f + 2; ++g) {
      CIRC(F_HFHE, halfface_halfedges, hfhe_iter, HFH, ref_hfhe, true, g);
      CIRC(F_HFE, halfface_edges, hfe_iter, HFH, ref_hfe, false, g);
      CIRC(F_HFV, halfface_vertices, hfv_iter, HFH, ref_hfv, true, g);
      if (g_inc_cell[g] == -1) CIRC(F_BHFHF, boundary_halfface_halffaces, bhfhf_iter, HFH, ref_bhfhf, false, g);
    }
    if (!(groups & 16)) continue;
    CIRC(F_FV, face_vertices, fv_iter, FH, ref_fv, true, f);
    CIRC(F_FHE, face_halfedges, fhe_iter, FH, ref_fhe, true, f);
    CIRC(F_FE, face_edges, fe_iter, FH, ref_fe, false, f);
  }
  if (groups & 8) for (int c = 0; c < s.nC; ++c) {
    if (s.cdel[c]) continue;
    CIRC(F_CV, cell_vertices, cv_iter, CH, ref_cv, false, c);
    CIRC(F_CHE, cell_halfedges, che_iter, CH, ref_che, false, c);
    CIRC(F_CE, cell_edges, ce_iter, CH, ref_ce, false, c);
    CIRC(F_CHF, cell_halffaces, chf_iter, CH, ref_chf, false, c);
    CIRC(F_CF, cell_faces, cf_iter, CH, ref_cf, false, c);
    CIRC(F_CC, cell_cells, cc_iter, CH, ref_cc, false, c);
  }
}

static __attribute__((noinline)) void circ_case(unsigned i) {
  unsigned base = v_param(0), kind = v_param(1), start = v_param(2), groups = v_param(3), per = v_param(5);
  if (groups == 0) groups = 63;
  if (per == 0 || per > C05_PER) per = C05_PER;
  if (i >= per) return;
  unsigned idx = start + i;
  if (kind == K_NONE ? idx != 0 : idx >= c05_base_count(base, kind)) return;
  TopologyKernel m;
  c05_build(m, base);
  v_assert(c05_counts_ok(m, base), "C05 harness: base count table");
  if (kind != K_NONE) c05_delete(m, kind, idx);
  int ml = (int)v_nondet_below(3) + 1;
  check_all(m, groups, ml, v_param(4) == 0);
  v_witness("C05 circ case end");
}
template <unsigned I> struct CircCase { static __attribute__((noinline)) void run() { circ_case(I); } };

extern "C" void harness_c05_circ() {
  unsigned sel = v_nondet_below(C05_PER);
  dispatch<CircCase, C05_PER>(sel);
}

static __attribute__((noinline)) void steps_case(unsigned i) {
  unsigned base = v_param(0), kind = v_param(1), start = v_param(2), groups = v_param(3), per = v_param(5);
  if (groups == 0) groups = 63;
  if (per == 0 || per > C05_PER) per = C05_PER;
  if (i >= per) return;
  unsigned idx = start + i;
  if (kind == K_NONE ? idx != 0 : idx >= c05_base_count(base, kind)) return;
  TopologyKernel m;
  c05_build(m, base);
  if (kind != K_NONE) c05_delete(m, kind, idx);
  int ml = (int)v_nondet_below(3) + 1;
  g_steps_mode = true;
  check_all(m, groups, ml, false);
  v_witness("C05 steps case end");
}
template <unsigned I> struct StepsCase { static __attribute__((noinline)) void run() { steps_case(I); } };

extern "C" void harness_c05_steps() {
  unsigned sel = v_nondet_below(C05_PER);
  dispatch<StepsCase, C05_PER>(sel);
}

// ------------------------------------------------------------------------------------------------------------------
// Disabled bottom-up kinds: a circulator that reads the incidence cache of a disabled kind is invalid from the start;
// the top-down circulators are unaffected.  Symbolic selector over the 7 non-empty subsets of {vertex, edge, face}.
enum { NEED_V = 1, NEED_E = 2, NEED_F = 4 };
#define DIS(NEED, ITERFN, H, REFFN, C)                                                                            \
  do { if ((NEED) & off) v_assert(!m.ITERFN(H(C)).valid(), "C05 circ: a circulator whose needed bottom-up kind is disabled is invalid"); \
       else if ((NEED) == 0) { REFFN(s, (C), ref); v_assert(m.ITERFN(H(C)).valid() == (ref.n > 0), "C05 circ: top-down circulators do not depend on bottom-up incidences"); } \
  } while (0)

static __attribute__((noinline)) void dis_case(unsigned i) {
  unsigned base = v_param(0), off = i + 1;   // bit0 vertex, bit1 edge, bit2 face bottom-up incidences switched off
  if (off > 7) return;
  TopologyKernel m;
  c05_build(m, base);
  Snap s; take_snapshot(m, s);
  if (s.overflow) { v_assert(false, "C05 harness capacity (snapshot)"); return; }
  static RefSeq ref;
  ref_prepare(s);
  if (off & 1) m.enable_vertex_bottom_up_incidences(false);
  if (off & 2) m.enable_edge_bottom_up_incidences(false);
  if (off & 4) m.enable_face_bottom_up_incidences(false);
  for (int v = 0; v < s.nV; ++v) {
    DIS(NEED_V, vv_iter, VH, ref_vv, v); DIS(NEED_V, voh_iter, VH, ref_voh, v); DIS(NEED_V, vih_iter, VH, ref_vih, v); DIS(NEED_V, ve_iter, VH, ref_ve, v);
    DIS(NEED_V | NEED_E, vf_iter, VH, ref_vf, v); DIS(NEED_V | NEED_E, vhf_iter, VH, ref_vhf, v); DIS(NEED_V | NEED_E | NEED_F, vc_iter, VH, ref_vc, v);
  }
  for (int e = 0; e < s.nE; ++e) {
    for (int he = 2 * e; he < 2 * e + 2; ++he) { DIS(NEED_E, hehf_iter, HEH, ref_hehf, he); DIS(NEED_E, hef_iter, HEH, ref_hef, he); DIS(NEED_E | NEED_F, hec_iter, HEH, ref_hec, he); }
    DIS(NEED_E, ehf_iter, EH, ref_ehf, e); DIS(NEED_E, ef_iter, EH, ref_ef, e); DIS(NEED_E | NEED_F, ec_iter, EH, ref_ec, e);
  }
  for (int f = 0; f < s.nF; ++f) {
    for (int g = 2 * f; g < 2 * f + 2; ++g) {
      DIS(0, hfhe_iter, HFH, ref_hfhe, g); DIS(0, hfe_iter, HFH, ref_hfe, g); DIS(0, hfv_iter, HFH, ref_hfv, g);
      if (g_inc_cell[g] == -1) DIS(NEED_E | NEED_F, bhfhf_iter, HFH, ref_bhfhf, g);
    }
    DIS(0, fv_iter, FH, ref_fv, f); DIS(0, fhe_iter, FH, ref_fhe, f); DIS(0, fe_iter, FH, ref_fe, f);
  }
  for (int c = 0; c < s.nC; ++c) {
    DIS(0, cv_iter, CH, ref_cv, c); DIS(0, che_iter, CH, ref_che, c); DIS(0, ce_iter, CH, ref_ce, c); DIS(0, chf_iter, CH, ref_chf, c); DIS(0, cf_iter, CH, ref_cf, c);
    DIS(NEED_F, cc_iter, CH, ref_cc, c);
  }
  v_witness("C05 disabled-kind case end");
}
template <unsigned I> struct DisCase { static __attribute__((noinline)) void run() { dis_case(I); } };

extern "C" void harness_c05_disabled() {
  unsigned sel = v_nondet_below(7);
  dispatch<DisCase, 7>(sel);
}
