// C13 (thorough): assignment between polyhedral, tetrahedral and hexahedral geometry kernels (GeometryKernel's templated operator=).
// v_param(0): 0 = tetrahedral <- polyhedral (source B_TET), 1 = polyhedral <- tetrahedral (source B_TET built through the tetrahedral
// kernel's own add_face/add_cell overrides), 2 = hexahedral <- polyhedral (source B_LOWDIM: no cells, legal content for any kernel).
// v_param(1): pending deferred deletion in the source (0 none, 1 last edge).
// The assigned-to mesh has its own vertex, a shared property "s" and a persistent property "p" whose handles are held across the
// assignment.  Checks as in C13_copy.cpp: equal observable state + positions, persistent clones with equal values, non-persistent not
// carried over, held handles resized / private / usable; then a symbolic property write and add_vertex on the target and a symbolic
// position write on the source: the respective other side is unchanged.
#include "c13_copy.h"
#include <OpenVolumeMesh/Mesh/TetrahedralMeshTopologyKernel.hh>
#include <OpenVolumeMesh/Mesh/HexahedralMeshTopologyKernel.hh>
typedef GeometryKernel<V3, TetrahedralMeshTopologyKernel> TetGeo;
typedef GeometryKernel<V3, HexahedralMeshTopologyKernel> HexGeo;

template <class SRC, class DST> static void run_mixed(unsigned base) {
  const unsigned pend = v_param(1);
  v_alloc_order_reset();
  SRC src;
  build_base(src, base);
  const int nV = (int)src.n_vertices();
  for (int v = 0; v < MAXV; ++v) if (v < nV) src.set_vertex(VH(v), V3(v_nondet_int(), v_nondet_int(), v_nondet_int()));
  IntVP ps = src.template request_property<int, Entity::Vertex>(std::string("s"), 0);
  std::optional<IntVP> opp = src.template create_persistent_property<int, Entity::Vertex>(std::string("p"), 1);
  std::optional<BoolVP> opq = src.template create_persistent_property<bool, Entity::Vertex>(std::string("q"), false);
  if (!opp.has_value() || !opq.has_value()) return;
  IntVP pp = *opp; BoolVP pq = *opq; opp.reset(); opq.reset();
  for (int v = 0; v < MAXV; ++v) if (v < nV) { ps[VH(v)] = v_nondet_int(); pp[VH(v)] = v_nondet_int(); pq[VH(v)] = v_nondet_bool(); }
  if (pend == 1) { src.enable_deferred_deletion(true); src.delete_edge(EH((int)src.n_edges() - 1)); }
  Obs o_src0; observe(src, o_src0);
  PVals pv_src0; read_persistent(src, pv_src0);
  DST dst;
  dst.add_vertex();
  IntVP hs = dst.template request_property<int, Entity::Vertex>(std::string("s"), 5);
  std::optional<IntVP> t = dst.template create_persistent_property<int, Entity::Vertex>(std::string("p"), 6);
  if (!t.has_value()) return;
  IntVP hp = *t; t.reset();
  dst = src;
  Obs o_src1; observe(src, o_src1);
  same_mesh_state(o_src0, o_src1, true, "C13 mixed assignment leaves the source's entities, definitions and deletion state unchanged");
  Obs o_d0; observe(dst, o_d0);
  same_mesh_state(o_src0, o_d0, true, "C13 mixed assignment: same entities, definitions, deletion state and positions as the source");
  check_bottom_up(dst, 0);
  PVals pv_d0; read_persistent(dst, pv_d0);
  same_persistent(pv_src0, pv_d0, "C13 mixed assignment: persistent properties cloned with equal values");
  v_assert(o_d0.npersV == 2 && o_d0.npropsV == 2 + 1 + 2, "C13 mixed assignment: the target tracks the clones, its position property and the two still-referenced old properties");
  v_assert(!dst.template property_exists<int, Entity::Vertex>(std::string("s")), "C13 mixed assignment: non-persistent property not carried over");
  v_assert((int)hs.size() == nV && (int)hp.size() == nV && bool(hs) && bool(hp) && !hs.shared() && !hp.shared() && !hp.persistent(), "C13 mixed assignment: held handles resized, attached and private");
  // target mutated: source unchanged
  sym_write(hs); sym_write(hp);
  { std::optional<IntVP> h = dst.template get_property<int, Entity::Vertex>(std::string("p")); if (h.has_value()) sym_write(*h); }
  dst.add_vertex();
  v_assert(hs.size() == dst.n_vertices() && hp.size() == dst.n_vertices(), "C13 mixed assignment: held handles follow their own mesh");
  { Obs o; observe(src, o); same_mesh_state(o_src0, o, true, "C13 mixed assignment independence: source unchanged by mutating the target");
    PVals pv; read_persistent(src, pv); same_persistent(pv_src0, pv, "C13 mixed assignment independence: source's persistent values unchanged"); }
  // source mutated: target unchanged
  Obs o_d1; observe(dst, o_d1); PVals pv_d1; read_persistent(dst, pv_d1);
  sym_write(pp); sym_write(pq);
  if (nV > 0) src.set_vertex(VH((int)v_nondet_below((unsigned)nV)), V3(v_nondet_int(), v_nondet_int(), v_nondet_int()));
  src.add_vertex();
  { Obs o; observe(dst, o); same_mesh_state(o_d1, o, true, "C13 mixed assignment independence: target unchanged by mutating the source");
    PVals pv; read_persistent(dst, pv); same_persistent(pv_d1, pv, "C13 mixed assignment independence: target's persistent values unchanged"); }
  v_witness("C13 mixed-type assignment");
}

extern "C" void harness_c13_mixed() {
  switch (v_param(0)) {
  case 0: run_mixed<GeoMesh, TetGeo>(B_TET); break;
  case 1: run_mixed<TetGeo, GeoMesh>(B_TET); break;
  default: run_mixed<GeoMesh, HexGeo>(B_LOWDIM); break;
  }
}
