// C07 unit obligations, the inputs the reader does NOT guard: a PROP chunk payload / a DIRP serialized_default that is too
// short for ONE element of the property's codec, handed to the codec exactly as BinaryFileReader does:
//   read_prop_chunk:    prop.decoder->deserialize(storage, chunk_reader, span.first, span.first + span.count)
//                       -- checks before: count != 0, first < n, n - first >= count; the payload SIZE is not checked,
//                       -- PropertyDecoderT::deserialize checks only the index range, SimplePropCodec::decode_n calls no need().
//   read_propdir_chunk: prop_decoder->request_property(*mesh_, entity, name, prop_info.serialized_default)
//                       -- PropertyDecoderT::request_property: Decoder decoder(encoded_def); Codec::decode_one(decoder, def); no need().
// C07 demands: no out-of-bounds access; outcome success or parse_error.  CBMC's pointer checks are the obligation.
// EXPECTED TO FAIL on the unchanged repository: findings F2 / F3 in notes/C07-findings.md.
// One entry per (codec, call); input length = one byte less than the element needs (or empty), every byte symbolic.
#undef CODEC
#define CODEC 3
#include "io_codecs.h"

template <int ID> static const PropertyDecoderBase *lookup_id(PropertyCodecs &pc) {
  pc.register_codec<typename CodecSel<ID>::codec>(CodecSel<ID>::ovmb());
  return pc.get_decoder(CodecSel<ID>::ovmb());
}
template <int ID> static constexpr unsigned minb() { return ID == 0 ? 1 : ID == 11 ? 4 : CodecSel<ID>::ESZ; }

// PROP chunk: span {first 0, count 1} of a property with NELEM elements; payload of LEN symbolic bytes (exact heap allocation)
template <int ID, unsigned LEN> static void deser_short() {
  using TT = typename CodecSel<ID>::type;
  for (unsigned i = 0; i < LEN; ++i) g_raw[i] = v_nondet_u8();
  PropertyCodecs pc;
  const PropertyDecoderBase *d = lookup_id<ID>(pc);
  V_ASSERT(d != nullptr);
  PropertyStorageT<TT> st(nullptr, "p", EntityType::Vertex, TT(), true);
  st.resize(NELEM);
  std::vector<uint8_t> vec_(g_raw, g_raw + LEN);
  Decoder dec(std::move(vec_));
  int out;
  RUN(out, d->deserialize(&st, dec, 0, 1));
  (void)out;
  v_witness("deserialize(short payload): returned");
}
// DIRP entry: serialized_default of LEN symbolic bytes
template <int ID, unsigned LEN> static void request_short() {
  for (unsigned i = 0; i < LEN; ++i) g_raw[i] = v_nondet_u8();
  PropertyCodecs pc;
  const PropertyDecoderBase *d = lookup_id<ID>(pc);
  V_ASSERT(d != nullptr);
  Counts mesh;
  std::vector<uint8_t> def(g_raw, g_raw + LEN);
  std::string name("p");
  std::shared_ptr<PropertyStorageBase> prop;
  int out;
  RUN(out, prop = d->request_property(mesh, EntityType::Vertex, name, def));
  (void)out;
  prop.reset();
  v_witness("request_property(short default): returned");
}

#define SHORT_ENTRIES(id, tag) \
  extern "C" void harness_deser_short_##tag() { deser_short<id, minb<id>() - 1>(); } \
  extern "C" void harness_request_short_##tag() { request_short<id, minb<id>() - 1>(); }
// (bool is absent: BoolPropCodec::decode_n calls need() -- proved in C07_propcodecs.cpp; its request_property is not encodable, see spec)
SHORT_ENTRIES(1, u8)   SHORT_ENTRIES(2, u16)  SHORT_ENTRIES(3, u32)  SHORT_ENTRIES(4, u64)
SHORT_ENTRIES(5, i8)   SHORT_ENTRIES(6, i16)  SHORT_ENTRIES(7, i32)  SHORT_ENTRIES(8, i64)
SHORT_ENTRIES(9, f)    SHORT_ENTRIES(10, d)   SHORT_ENTRIES(11, s32)
SHORT_ENTRIES(12, vh)  SHORT_ENTRIES(13, eh)  SHORT_ENTRIES(14, heh) SHORT_ENTRIES(15, fh)  SHORT_ENTRIES(16, hfh) SHORT_ENTRIES(17, ch)
SHORT_ENTRIES(18, 2d)  SHORT_ENTRIES(19, 3d)  SHORT_ENTRIES(20, 4d)  SHORT_ENTRIES(21, 2f)  SHORT_ENTRIES(22, 3f)  SHORT_ENTRIES(23, 4f)
SHORT_ENTRIES(24, 2u32) SHORT_ENTRIES(25, 3u32) SHORT_ENTRIES(26, 4u32) SHORT_ENTRIES(27, 2i32) SHORT_ENTRIES(28, 3i32) SHORT_ENTRIES(29, 4i32)
// the empty input for a multi-byte codec: Decoder over an empty vector (data() == nullptr)
extern "C" void harness_deser_empty_u32() { deser_short<3, 0>(); }
extern "C" void harness_request_empty_u32() { request_short<3, 0>(); }
