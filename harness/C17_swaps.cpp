// C17: swap_*_indices are pure relabelings: the observable top-down state equals the old one with the transposition applied to
// every stored handle (and to 2i+s for half-entities) and to the deleted flags; the bottom-up answers stay the inverse of the
// definitions; swapping again restores the exact original state including the order of the incidence caches.
// shard params: 0 base, 1 deletion mode, 2 swap kind (OP_SWAP_*), 3 chunk of the (h1,h2) pair space, 4 pre-operation (e.g. a
// deferred deletion), 5 its argument index, 7 bottom-up kinds switched OFF (bitmask; bit3: before building the base).
#include "ops.h"
#include "refmodel.h"
#include "oracle_bu.h"

// order-sensitive record of the incidence caches (only for enabled kinds)
static int g_voh[MAXV][8], g_voh_n[MAXV], g_hehf[2 * MAXE][8], g_hehf_n[2 * MAXE], g_ic[2 * MAXF];
static int h_voh[MAXV][8], h_voh_n[MAXV], h_hehf[2 * MAXE][8], h_hehf_n[2 * MAXE], h_ic[2 * MAXF];
static void record_caches(const TopologyKernel &m, int voh[][8], int *voh_n, int hehf[][8], int *hehf_n, int *ic) {
  int nV = (int)m.n_vertices(), nHE = (int)m.n_halfedges(), nHF = (int)m.n_halffaces();
  if (m.has_vertex_bottom_up_incidences()) for (int v = 0; v < nV && v < MAXV; ++v) { int k = 0; for (auto it = m.voh_iter(VH(v)); it.valid() && k < 8; ++it) voh[v][k++] = (*it).idx(); voh_n[v] = k; }
  if (m.has_edge_bottom_up_incidences()) for (int h = 0; h < nHE && h < 2 * MAXE; ++h) { int k = 0; for (auto it = m.hehf_iter(HEH(h)); it.valid() && k < 8; ++it) hehf[h][k++] = (*it).idx(); hehf_n[h] = k; }
  if (m.has_face_bottom_up_incidences()) for (int h = 0; h < nHF && h < 2 * MAXF; ++h) ic[h] = m.incident_cell(HFH(h)).idx();
}

static __attribute__((noinline)) void do_case(unsigned i) {
  unsigned base = v_param(0), mode = v_param(1), op = v_param(2), chunk = v_param(3), pre = v_param(4), pre_idx = v_param(5), bu_off = v_param(7);
  TopologyKernel m;
  set_mode(m, mode);
  if (bu_off & 8) apply_op(m, OP_BU_OFF, bu_off & 7, 0);
  build_base(m, base);
  if (!(bu_off & 8)) apply_op(m, OP_BU_OFF, bu_off & 7, 0);
  unsigned a, b;
  if (pre != OP_NONE) {
    if (pre_idx >= op_arity_count(m, pre)) { v_witness("C17 pre-op outside argument space"); return; }
    op_decode(m, pre, pre_idx, a, b);
    if (!op_valid(m, pre, a, b)) { v_witness("C17 pre-op invalid"); return; }
    apply_op(m, pre, a, b);
  }
  Snap before; take_snapshot(m, before);
  if (before.overflow) return;
  record_caches(m, g_voh, g_voh_n, g_hehf, g_hehf_n, g_ic);
  unsigned idx = chunk * CASES_PER_QUERY + i;
  if (idx >= op_arity_count(m, op)) { v_witness("C17 case outside the pair space"); return; }
  op_decode(m, op, idx, a, b);
  apply_op(m, op, a, b);
  Snap after; take_snapshot(m, after);
  Snap ref = before;
  switch (op) {
  case OP_SWAP_V: ref_swap_v(ref, (int)a, (int)b); break;
  case OP_SWAP_E: ref_swap_e(ref, (int)a, (int)b); break;
  case OP_SWAP_F: ref_swap_f(ref, (int)a, (int)b); break;
  case OP_SWAP_C: ref_swap_c(ref, (int)a, (int)b); break;
  default: break;
  }
  assert_snap_matches(after, ref, "C17 swap does not change entity counts", "C17 vertex deleted-flags are transposed", "C17 edges == old edges under the transposition",
                      "C17 faces == old faces under the transposition", "C17 cells == old cells under the transposition");
  if (m.has_full_bottom_up_incidences()) check_bottom_up(m, 0);      // caches are still the inverse of the definitions
  // swap back: exact original state, including cache order
  apply_op(m, op, a, b);
  Snap again; take_snapshot(m, again);
  assert_snap_matches(again, before, "C17 double swap restores counts", "C17 double swap restores vertex flags", "C17 double swap restores edges", "C17 double swap restores faces", "C17 double swap restores cells");
  record_caches(m, h_voh, h_voh_n, h_hehf, h_hehf_n, h_ic);
  if (m.has_vertex_bottom_up_incidences() && before.nV > 0) {
    unsigned v = v_nondet_below((unsigned)before.nV), k = v_nondet_below(8);
    v_assert(g_voh_n[v] == h_voh_n[v] && ((int)k >= g_voh_n[v] || g_voh[v][k] == h_voh[v][k]), "C17 double swap restores the outgoing-halfedge cache incl. order");
  }
  if (m.has_edge_bottom_up_incidences() && before.nE > 0) {
    unsigned h = v_nondet_below((unsigned)(2 * before.nE)), k = v_nondet_below(8);
    v_assert(g_hehf_n[h] == h_hehf_n[h] && ((int)k >= g_hehf_n[h] || g_hehf[h][k] == h_hehf[h][k]), "C17 double swap restores the halfedge->halfface cache incl. order");
  }
  if (m.has_face_bottom_up_incidences() && before.nF > 0) {
    unsigned h = v_nondet_below((unsigned)(2 * before.nF));
    v_assert(g_ic[h] == h_ic[h], "C17 double swap restores incident cells");
  }
  v_witness("C17 case end");
}

extern "C" void harness_c17() {
  unsigned sel = v_nondet_u32();
  v_assume(sel < CASES_PER_QUERY);
  dispatch<CaseW, CASES_PER_QUERY>(sel);
}
