// Harness API shared by the symbolic (ll2c/CBMC) and native (replay / translation validation) builds.
#pragma once
#include <cstdint>
extern "C" {
void v_assume(bool c);
void v_assert(bool c, const char *msg);  // symbolic build: inlined by ll2c into __CPROVER_assert(c, msg)
void v_witness(const char *name);        // reachability witness: must come back VIOLATED in the symbolic build
uint8_t  v_nondet_u8();
uint32_t v_nondet_u32();
uint64_t v_nondet_u64();
bool     v_nondet_bool();
uint32_t v_param(uint32_t k);            // shard parameter: constant per shard (-DV_PARAM<k>=..)
}
static inline int v_nondet_int() { return (int)v_nondet_u32(); }
static inline unsigned v_nondet_below(unsigned n) { unsigned x = v_nondet_u32(); v_assume(x < n); return x; }
static inline float v_nondet_float() { union { uint32_t u; float f; } c; c.u = v_nondet_u32(); return c.f; }
static inline double v_nondet_double() { union { uint64_t u; double f; } c; c.u = v_nondet_u64(); return c.f; }
#define V_STR2(x) #x
#define V_STR(x) V_STR2(x)
#define V_ASSERT(c) v_assert((c), #c " @" __FILE__ ":" V_STR(__LINE__))
