// C20: concurrent read-only use is race-free and deterministic -- decided through the sequential reduction of DESIGN.md:
// if no read-only operation ever WRITES (store, memcpy/memset destination, atomic RMW, free) an object that existed before it
// started (the mesh object, its heap buffers), no conflicting access pair exists for any number of threads and any interleaving,
// and each thread computes a function of the unchanging shared state.  ll2c --store-hook instruments every such write in every
// function; rt/rt_c20.c asserts the written object is not shared.  shard params: 0 base, 1 group of const queries, 2 pending deletion (0/1), 4 slice (groups 1-4 only visit centres with index % 4 == slice).
#include "ops.h"
extern "C" { void v_register_scratch(const void *p, unsigned long n); void v_register_shared(const void *p, unsigned long n); void v_epoch_mark(); void v_epoch_end(); }

static volatile int vh_sink;
template <class It> static inline void walk(It it, int limit) {
  int n = 0;
  for (; it.valid() && n < limit; ++it, ++n) vh_sink = vh_sink + (*it).idx();
  It back = it; if (n > 0) { --back; vh_sink = vh_sink + (*back).idx(); }
}
template <class Range> static inline void walk_range(Range r, int limit) {
  int n = 0;
  for (auto it = r.first; it != r.second && n < limit; ++it, ++n) vh_sink = vh_sink + (*it).idx();
}
static void do_case(unsigned) {}

extern "C" void harness_c20() {
  unsigned base = v_param(0), group = v_param(1), pending = v_param(2), slice = v_param(4);
  TopologyKernel mesh;
  set_mode(mesh, 1);
  build_base(mesh, base);
  if (pending) mesh.delete_face(FH(1));          // deferred: deleted-but-not-collected entities exist
  const TopologyKernel &m = mesh;                // everything below goes through a const reference
  const int nV = (int)m.n_vertices(), nE = (int)m.n_edges(), nF = (int)m.n_faces(), nC = (int)m.n_cells();
  v_register_shared(&mesh, sizeof(mesh));
  v_register_scratch((const void *)&vh_sink, sizeof(vh_sink));
  v_epoch_mark();
  int s = 0;
#ifdef C20_SELFTEST
  if (v_param(3) == 1) mesh.enable_fast_deletion(false);      // a write to the shared mesh object: the hook must catch it
  if (v_param(3) == 2) mesh.delete_cell(CH(0));
#endif
  if (group == 0) {          // counts, flags, definitions, handle-level accessors with SYMBOLIC handles
    VH v((int)v_nondet_below((unsigned)nV)); EH e((int)v_nondet_below((unsigned)nE)); HEH he((int)v_nondet_below((unsigned)(2 * nE)));
    FH f((int)v_nondet_below((unsigned)nF)); HFH hfh((int)v_nondet_below((unsigned)(2 * nF))); CH c((int)v_nondet_below((unsigned)nC));
    s += (int)(m.n_vertices() + m.n_edges() + m.n_halfedges() + m.n_faces() + m.n_halffaces() + m.n_cells());
    s += (int)(m.n_logical_vertices() + m.n_logical_edges() + m.n_logical_halfedges() + m.n_logical_faces() + m.n_logical_halffaces() + m.n_logical_cells());
    s += m.genus() + m.needs_garbage_collection() + m.has_full_bottom_up_incidences() + m.has_vertex_bottom_up_incidences() + m.has_edge_bottom_up_incidences() + m.has_face_bottom_up_incidences();
    s += m.deferred_deletion_enabled() + m.fast_deletion_enabled();
    s += m.is_deleted(v) + m.is_deleted(e) + m.is_deleted(he) + m.is_deleted(f) + m.is_deleted(hfh) + m.is_deleted(c);
    s += m.is_valid(v) + m.is_valid(e) + m.is_valid(he) + m.is_valid(f) + m.is_valid(hfh) + m.is_valid(c);
    s += m.edge(e).from_vertex().idx() + m.edge(e).to_vertex().idx() + (int)m.face(f).halfedges().size() + (int)m.cell(c).halffaces().size();
    s += m.halfedge(he).from_vertex().idx() + m.opposite_halfedge(he).to_vertex().idx() + m.from_vertex_handle(he).idx() + m.to_vertex_handle(he).idx();
    s += (int)m.valence(v) + (int)m.valence(e) + (int)m.valence(f) + (int)m.valence(c);
    s += m.halfedge_vertices(he)[0].idx() + m.edge_vertices(e)[1].idx() + m.edge_halfedges(e)[1].idx() + m.face_halffaces(f)[1].idx();
    s += m.incident_cell(hfh).idx() + m.face_cells(f)[0].idx();
    s += m.is_boundary(hfh) + m.is_boundary(f) + m.is_boundary(c);
    v_witness("C20 group 0");
  } else if (group == 1) {   // definitions by value, lookups (enumerated arguments: they allocate and loop)
    for (int hfh = 0; hfh < 2 * nF; ++hfh) {
      if ((unsigned)hfh % 4 != slice || m.is_deleted(HFH(hfh))) continue;
      OpenVolumeMeshFace hf = m.halfface(HFH(hfh)); OpenVolumeMeshFace of = m.opposite_halfface(HFH(hfh));
      s += (int)hf.halfedges().size() + (int)of.halfedges().size();
      std::vector<VH> vs = m.get_halfface_vertices(HFH(hfh));
      s += m.find_halfface(vs).idx() + m.find_halfface_extensive(vs).idx();
      HEH h0 = hf.halfedges()[0];
      s += m.get_halfface_vertices(HFH(hfh), vs[1])[0].idx() + m.get_halfface_vertices(HFH(hfh), h0)[0].idx();
      s += m.next_halfedge_in_halfface(h0, HFH(hfh)).idx() + m.prev_halfedge_in_halfface(h0, HFH(hfh)).idx();
      s += m.find_halfface(vec2(h0, hf.halfedges()[1])).idx();
      s += m.adjacent_halfface_in_cell(HFH(hfh), h0).idx();
      if (nC > 0) s += m.find_halfface_in_cell(vs, CH(0)).idx() + m.find_halfedge_in_cell(vs[0], vs[1], CH(0)).idx();
      s += m.is_incident(FH(hfh >> 1), EH(h0.idx() >> 1));
    }
    for (int a = 0; a < nV; ++a) for (int b = 0; b < nV; ++b) if ((unsigned)a % 4 == slice && !m.is_deleted(VH(a)) && !m.is_deleted(VH(b))) s += m.find_halfedge(VH(a), VH(b)).idx();
    for (int he = 0; he < 2 * nE; ++he) if ((unsigned)he % 4 == slice && !m.is_deleted(HEH(he))) s += m.is_boundary(HEH(he)) + m.is_boundary(EH(he >> 1));
    for (int v = 0; v < nV; ++v) if (!m.is_deleted(VH(v))) s += m.is_boundary(VH(v));
    for (int c = 0; c < nC; ++c) s += (int)m.n_vertices_in_cell(CH(c));
    v_witness("C20 group 1");
  } else if (group == 2) {   // vertex-centred circulators
    for (int v = 0; v < nV; ++v) {
      if ((unsigned)v % 4 != slice || m.is_deleted(VH(v))) continue;
      walk(m.vv_iter(VH(v)), 16); walk(m.voh_iter(VH(v)), 16); walk(m.vih_iter(VH(v)), 16); walk(m.ve_iter(VH(v)), 16);
      walk(m.vf_iter(VH(v)), 16); walk(m.vhf_iter(VH(v)), 32); walk(m.vc_iter(VH(v)), 16);
      walk_range(m.vertex_vertices(VH(v)), 16); walk_range(m.outgoing_halfedges(VH(v), 2), 32);
    }
    v_witness("C20 group 2");
  } else if (group == 3) {   // halfedge/edge-centred circulators
    for (int he = 0; he < 2 * nE; ++he) {
      if ((unsigned)(he >> 1) % 4 != slice || m.is_deleted(HEH(he))) continue;
      walk(m.hehf_iter(HEH(he)), 16); walk(m.hef_iter(HEH(he)), 16); walk(m.hec_iter(HEH(he)), 16);
      if ((he & 1) == 0) { walk(m.ehf_iter(EH(he >> 1)), 32); walk(m.ef_iter(EH(he >> 1)), 16); walk(m.ec_iter(EH(he >> 1)), 16); walk_range(m.edge_cells(EH(he >> 1)), 16); }
    }
    v_witness("C20 group 3");
  } else if (group == 4) {   // face/halfface/cell-centred circulators
    for (int hfh = 0; hfh < 2 * nF; ++hfh) {
      if ((unsigned)(hfh >> 1) % 4 != slice || m.is_deleted(HFH(hfh))) continue;
      walk(m.hfhe_iter(HFH(hfh)), 16); walk(m.hfe_iter(HFH(hfh)), 16); walk(m.hfv_iter(HFH(hfh)), 16); walk(m.bhfhf_iter(HFH(hfh)), 16);
      if ((hfh & 1) == 0) { walk(m.fv_iter(FH(hfh >> 1)), 16); walk(m.fhe_iter(FH(hfh >> 1)), 16); walk(m.fe_iter(FH(hfh >> 1)), 16); }
    }
    for (int c = 0; c < nC; ++c) {
      if ((unsigned)c % 4 != slice || m.is_deleted(CH(c))) continue;
      walk(m.cv_iter(CH(c)), 16); walk(m.che_iter(CH(c)), 32); walk(m.ce_iter(CH(c)), 16); walk(m.chf_iter(CH(c)), 16); walk(m.cf_iter(CH(c)), 16); walk(m.cc_iter(CH(c)), 16);
    }
    v_witness("C20 group 4");
  } else {                   // entity and boundary iterators, ranges
    walk(m.v_iter(), 32); walk(m.e_iter(), 32); walk(m.he_iter(), 64); walk(m.f_iter(), 32); walk(m.hf_iter(), 64); walk(m.c_iter(), 8);
    walk(m.bv_iter(), 32); walk(m.be_iter(), 32); walk(m.bhe_iter(), 64); walk(m.bf_iter(), 32); walk(m.bhf_iter(), 64); walk(m.bc_iter(), 8);
    walk_range(m.vertices(), 32); walk_range(m.edges(), 32); walk_range(m.halfedges(), 64); walk_range(m.faces(), 32); walk_range(m.halffaces(), 64); walk_range(m.cells(), 8);
    v_witness("C20 group 5");
  }
  vh_sink = vh_sink + s;
  v_epoch_end();
}
