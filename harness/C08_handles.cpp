// C08 (i): handle conversion algebra for every index (full width, one query each).
#include "verif.h"
#include <OpenVolumeMesh/Core/Handles.hh>
#include <OpenVolumeMesh/Core/TopologyKernel.hh>
using namespace OpenVolumeMesh;

extern "C" void harness_handles() {
  int i = v_nondet_int();
  v_assume(i >= 0 && i < (1 << 30));
  EH e(i);
  HEH h0 = e.halfedge_handle(0), h1 = e.halfedge_handle(1);
  V_ASSERT(h0.edge_handle() == e && h1.edge_handle() == e);
  V_ASSERT(h0.opposite_handle() == h1 && h1.opposite_handle() == h0);
  V_ASSERT(h0.subidx() == 0 && h1.subidx() == 1);
  V_ASSERT(h0 != h1 && h0.is_valid() && h1.is_valid());
  V_ASSERT(TopologyKernel::halfedge_handle(e, 0) == h0 && TopologyKernel::halfedge_handle(e, 1) == h1);
  V_ASSERT(TopologyKernel::edge_handle(h0) == e && TopologyKernel::edge_handle(h1) == e);
  V_ASSERT(TopologyKernel::opposite_halfedge_handle(h0) == h1 && TopologyKernel::opposite_halfedge_handle(h1) == h0);
  FH f(i);
  HFH g0 = f.halfface_handle(0), g1 = f.halfface_handle(1);
  V_ASSERT(g0.face_handle() == f && g1.face_handle() == f);
  V_ASSERT(g0.opposite_handle() == g1 && g1.opposite_handle() == g0);
  V_ASSERT(g0.subidx() == 0 && g1.subidx() == 1);
  V_ASSERT(TopologyKernel::halfface_handle(f, 0) == g0 && TopologyKernel::halfface_handle(f, 1) == g1);
  V_ASSERT(TopologyKernel::face_handle(g0) == f && TopologyKernel::face_handle(g1) == f);
  V_ASSERT(TopologyKernel::opposite_halfface_handle(g0) == g1 && TopologyKernel::opposite_halfface_handle(g1) == g0);
  // arbitrary half-entity index
  int j = v_nondet_int();
  v_assume(j >= 0);
  HEH h(j);
  V_ASSERT(h.edge_handle().halfedge_handle(h.subidx()) == h);
  V_ASSERT(h.opposite_handle().opposite_handle() == h);
  V_ASSERT(h.opposite_handle() != h && h.opposite_handle().edge_handle() == h.edge_handle());
  V_ASSERT(h.opposite_handle().subidx() == 1 - h.subidx());
  HFH g(j);
  V_ASSERT(g.face_handle().halfface_handle(g.subidx()) == g);
  V_ASSERT(g.opposite_handle().opposite_handle() == g);
  V_ASSERT(g.opposite_handle() != g && g.opposite_handle().face_handle() == g.face_handle());
  V_ASSERT(g.opposite_handle().subidx() == 1 - g.subidx());
  v_witness("handles");
}
