// C01 oracle: every bottom-up query equals a brute-force scan over the stored top-down definitions of the
// live entities.  The queried centre entity is enumerated (constant-folded by the symbolic executor); the
// TARGET whose membership/multiplicity is compared (tv, the, thf, tc) is a FREE symbolic handle: the solver
// quantifies over it.  (A symbolic centre makes the circulators' internal std::sort symbolic-sized: no verdict.)
#pragma once
#include "mesh_common.h"

static inline int probe_below(int n) { unsigned x = v_nondet_u32(); v_assume(n > 0 ? x < (unsigned)n : x == 0); return (int)x; }

// brute-force predicates on the snapshot (safe for symbolic arguments: constant loop bounds) -----------
static inline bool bf_boundary_hf(const Snap &s, int hfh) { return snap_incident_cell(s, hfh) == -1; }
static inline bool bf_boundary_f(const Snap &s, int f) { return bf_boundary_hf(s, 2 * f) || bf_boundary_hf(s, 2 * f + 1); }
static inline bool bf_boundary_e(const Snap &s, int e) {
  bool r = false;
  for (int f = 0; f < MAXF; ++f) if (f < s.nF && !s.fdel[f] && snap_face_has_edge(s, f, e) && bf_boundary_f(s, f)) r = true;
  return r;
}
static inline bool bf_boundary_v(const Snap &s, int v) {
  bool r = false;
  for (int e = 0; e < MAXE; ++e) if (e < s.nE && !s.edel[e] && (s.efrom[e] == v || s.eto[e] == v) && bf_boundary_e(s, e)) r = true;
  return r;
}
static inline bool bf_boundary_c(const Snap &s, int c) {
  bool r = false;
  for (int k = 0; k < MAXCV; ++k) if (k < s.cval[c] && bf_boundary_f(s, s.chf[c][k] >> 1)) r = true;
  return r;
}
static inline bool bf_ambiguous_hf(const Snap &s, int hfh) { return snap_incident_cell(s, hfh) == -2; }
// occurrences of halfedge he in LIVE halfface hfh
static inline int bf_he_in_hf(const Snap &s, int hfh, int he) { return s.fdel[hfh >> 1] ? 0 : snap_count_he_in_hf(s, hfh, he); }

template <class It> static inline int count_in(It it, int idx, int limit) {
  int c = 0, n = 0;
  for (; it.valid() && n < limit; ++it, ++n) if ((*it).idx() == idx) ++c;
  return it.valid() ? -1 : c;   // -1: did not terminate within the limit
}
enum { CIRC_LIMIT = 64 };

// level: 0 = the three caches, 1 = + derived circulators/valence, 2 = + is_boundary and boundary iterators
static void check_bottom_up(const TopologyKernel &m, int level) {
  Snap s; take_snapshot(m, s);
  if (s.overflow) return;
  const int nHE = 2 * s.nE, nHF = 2 * s.nF;
  // symbolic targets
  const int tv = probe_below(s.nV), the = probe_below(nHE), thf = probe_below(nHF), tc = probe_below(s.nC);
  const int te = the >> 1, tf = thf >> 1;
  const bool he_live = s.nE > 0 && !s.edel[te];
  // ---- centre: vertex
  for (int v = 0; v < s.nV; ++v) {
    if (s.vdel[v]) continue;
    if (s.nE > 0) {
      int exp_out = (he_live && snap_he_from(s, the) == v) ? 1 : 0;
      v_assert(count_in(m.voh_iter(VH(v)), the, CIRC_LIMIT) == exp_out, "C01 outgoing_halfedges(v) == live halfedges leaving v");
      if (level >= 1) {
        int exp_in = (he_live && snap_he_to(s, the) == v) ? 1 : 0;
        v_assert(count_in(m.vih_iter(VH(v)), the, CIRC_LIMIT) == exp_in, "C01 incoming_halfedges(v) == live halfedges entering v");
        int exp_e = he_live ? ((s.efrom[te] == v ? 1 : 0) + (s.eto[te] == v ? 1 : 0)) : 0;
        v_assert(count_in(m.ve_iter(VH(v)), te, CIRC_LIMIT) == exp_e, "C01 vertex_edges(v) == live edges at v");
        int exp_w = 0, val = 0;
        for (int h = 0; h < nHE; ++h) if (!s.edel[h >> 1] && snap_he_from(s, h) == v) { ++val; if (snap_he_to(s, h) == tv) ++exp_w; }
        v_assert(count_in(m.vv_iter(VH(v)), tv, CIRC_LIMIT) == exp_w, "C01 vertex_vertices(v) == neighbours over live edges");
        v_assert((int)m.valence(VH(v)) == val, "C01 valence(v) == number of live halfedges leaving v");
      }
    }
    if (level >= 1 && s.nF > 0) {
      int exp_f = (!s.fdel[tf] && snap_face_has_vertex(s, tf, v)) ? 1 : 0;
      v_assert(count_in(m.vf_iter(VH(v)), tf, CIRC_LIMIT) == exp_f, "C01 vertex_faces(v) == set of live faces at v");
      v_assert(count_in(m.vhf_iter(VH(v)), thf, CIRC_LIMIT) == exp_f, "C01 vertex_halffaces(v) == halffaces of live faces at v");
    }
    if (level >= 1 && s.nC > 0) {
      int exp_c = (!s.cdel[tc] && snap_cell_has_vertex(s, tc, v)) ? 1 : 0;
      v_assert(count_in(m.vc_iter(VH(v)), tc, CIRC_LIMIT) == exp_c, "C01 vertex_cells(v) == set of live cells at v");
    }
    if (level >= 2) {
      v_assert(m.is_boundary(VH(v)) == bf_boundary_v(s, v), "C01 is_boundary(v)");
    }
  }
  // ---- centre: halfedge / edge
  for (int he = 0; he < nHE; ++he) {
    int e = he >> 1;
    if (s.edel[e]) continue;
    if (s.nF > 0) {
      v_assert(count_in(m.hehf_iter(HEH(he)), thf, CIRC_LIMIT) == bf_he_in_hf(s, thf, he), "C01 halfedge_halffaces(he) == live halffaces containing he");
      if (level >= 1) {
        int exp_f = (bf_he_in_hf(s, 2 * tf, he) + bf_he_in_hf(s, 2 * tf + 1, he)) > 0 ? 1 : 0;
        v_assert(count_in(m.hef_iter(HEH(he)), tf, CIRC_LIMIT) == exp_f, "C01 halfedge_faces(he) == set of live faces on he");
        if ((he & 1) == 0) {
          int exp_ehf = bf_he_in_hf(s, thf, he) + bf_he_in_hf(s, thf ^ 1, he);
          v_assert(count_in(m.ehf_iter(EH(e)), thf, CIRC_LIMIT) == exp_ehf, "C01 edge_halffaces(e) == halffaces of live faces on e");
          v_assert(count_in(m.ef_iter(EH(e)), tf, CIRC_LIMIT) == exp_f, "C01 edge_faces(e) == set of live faces on e");
          int val = 0;
          for (int g = 0; g < nHF; ++g) val += bf_he_in_hf(s, g, he);
          v_assert((int)m.valence(EH(e)) == val, "C01 valence(e) == number of live face incidences of e");
        }
      }
    }
    if (level >= 1 && s.nC > 0) {
      int exp = 0;
      for (int k = 0; k < MAXCV; ++k) if (!s.cdel[tc] && k < s.cval[tc] && bf_he_in_hf(s, s.chf[tc][k], he) > 0) exp = 1;
      v_assert(count_in(m.hec_iter(HEH(he)), tc, CIRC_LIMIT) == exp, "C01 halfedge_cells(he) == set of live cells around he");
      if ((he & 1) == 0) v_assert(count_in(m.ec_iter(EH(e)), tc, CIRC_LIMIT) == exp, "C01 edge_cells(e) == set of live cells around e");
    }
    if (level >= 2) {
      bool be = bf_boundary_e(s, e);
      v_assert(m.is_boundary(HEH(he)) == be, "C01 is_boundary(he)");
      if ((he & 1) == 0) v_assert(m.is_boundary(EH(e)) == be, "C01 is_boundary(e)");
    }
  }
  // ---- centre: halfface / face
  for (int hfh = 0; hfh < nHF; ++hfh) {
    if (s.fdel[hfh >> 1]) continue;
    int ic = snap_incident_cell(s, hfh), ic2 = snap_incident_cell(s, hfh ^ 1);
    if (ic == -2 || ic2 == -2) continue;   // halfface used by two live cells: outside the precondition
    v_assert(m.incident_cell(HFH(hfh)).idx() == ic, "C01 incident_cell(hf) == the live cell listing hf, else invalid");
    if (level >= 1) {
      std::array<CH, 2> fc = m.face_cells(FH(hfh >> 1));
      v_assert(fc[(size_t)(hfh & 1)].idx() == ic, "C01 face_cells(f)");
    }
    if (level >= 2) {
      v_assert(m.is_boundary(HFH(hfh)) == (ic == -1), "C01 is_boundary(hf)");
      v_assert(m.is_boundary(FH(hfh >> 1)) == (ic == -1 || ic2 == -1), "C01 is_boundary(f)");
    }
  }
  // ---- centre: cell
  if (level >= 1) for (int c = 0; c < s.nC; ++c) {
    if (s.cdel[c]) continue;
    bool amb = false;
    for (int k = 0; k < s.cval[c]; ++k) if (bf_ambiguous_hf(s, s.chf[c][k]) || bf_ambiguous_hf(s, s.chf[c][k] ^ 1)) amb = true;
    if (amb) continue;
    int exp = 0;
    for (int k = 0; k < s.cval[c]; ++k) if (snap_incident_cell(s, s.chf[c][k] ^ 1) == tc) exp = 1;
    v_assert(count_in(m.cc_iter(CH(c)), tc, CIRC_LIMIT) == exp, "C01 cell_cells(c) == set of live cells across a face");
    if (level >= 2) v_assert(m.is_boundary(CH(c)) == bf_boundary_c(s, c), "C01 is_boundary(c)");
  }
  // ---- boundary iterators: target enumerated exactly once iff live and boundary
  if (level >= 2) {
    bool any_amb = false;
    for (int g = 0; g < nHF; ++g) if (bf_ambiguous_hf(s, g)) any_amb = true;
    if (!any_amb) {
      if (s.nV > 0) v_assert(count_in(m.bv_iter(), tv, CIRC_LIMIT) == ((!s.vdel[tv] && bf_boundary_v(s, tv)) ? 1 : 0), "C01 bv_iter enumerates exactly the live boundary vertices");
      if (s.nE > 0) {
        bool be = he_live && bf_boundary_e(s, te);
        v_assert(count_in(m.be_iter(), te, CIRC_LIMIT) == (be ? 1 : 0), "C01 be_iter enumerates exactly the live boundary edges");
        v_assert(count_in(m.bhe_iter(), the, CIRC_LIMIT) == (be ? 1 : 0), "C01 bhe_iter enumerates exactly the live boundary halfedges");
      }
      if (s.nF > 0) {
        bool live = !s.fdel[tf];
        v_assert(count_in(m.bhf_iter(), thf, CIRC_LIMIT) == ((live && bf_boundary_hf(s, thf)) ? 1 : 0), "C01 bhf_iter enumerates exactly the live boundary halffaces");
        v_assert(count_in(m.bf_iter(), tf, CIRC_LIMIT) == ((live && bf_boundary_f(s, tf)) ? 1 : 0), "C01 bf_iter enumerates exactly the live boundary faces");
      }
      if (s.nC > 0) v_assert(count_in(m.bc_iter(), tc, CIRC_LIMIT) == ((!s.cdel[tc] && bf_boundary_c(s, tc)) ? 1 : 0), "C01 bc_iter enumerates exactly the live boundary cells");
    }
  }
}
