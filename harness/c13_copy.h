// C13 helper: source/target construction, the copy kinds, equality and independence checks, the mutation alphabet.
#pragma once
#include "ops.h"
#include "oracle_bu.h"
#include "c14_native.h"
#include <OpenVolumeMesh/Core/GeometryKernel.hh>
#include <OpenVolumeMesh/Geometry/VectorT.hh>
#include <optional>
#include <string>
extern "C" void v_alloc_order_reset(void);

typedef Geometry::Vec3i V3;
typedef GeometryKernel<V3, TopologyKernel> GeoMesh;
typedef PropertyPtr<int, Entity::Vertex> IntVP;
typedef PropertyPtr<bool, Entity::Vertex> BoolVP;

enum { C13_CASES = 2 };
enum CopyKind { CK_CTOR = 0, CK_ASSIGN_EMPTY = 1, CK_ASSIGN_NONEMPTY = 2, CK_SELF = 3, CK_COPY_OF_COPY = 4 };
// mutations beyond ops.h
enum { MU_PW_P = 100, MU_PW_Q, MU_PW_S, MU_PW_A, MU_POS };

template <class M> struct IsGeo { enum { v = 0 }; };
template <> struct IsGeo<GeoMesh> { enum { v = 1 }; };

// plain-array record of everything observable about one mesh besides the topology snapshot
struct Obs {
  Snap s;
  bool deferred, fast, vbu, ebu, fbu;
  int nlv, nle, nlf, nlc;
  int npropsV, npersV;
  int pos[MAXV][3];
};
static inline void pos_of(const TopologyKernel &, int, int *o) { o[0] = o[1] = o[2] = 0; }
template <class TK> static inline void pos_of(const GeometryKernel<V3, TK> &m, int v, int *o) { const V3 &p = m.vertex(VH(v)); o[0] = p[0]; o[1] = p[1]; o[2] = p[2]; }
template <class M> static void observe(const M &m, Obs &o) {
  take_snapshot(m, o.s);
  o.deferred = m.deferred_deletion_enabled(); o.fast = m.fast_deletion_enabled();
  o.vbu = m.has_vertex_bottom_up_incidences(); o.ebu = m.has_edge_bottom_up_incidences(); o.fbu = m.has_face_bottom_up_incidences();
  o.nlv = (int)m.n_logical_vertices(); o.nle = (int)m.n_logical_edges(); o.nlf = (int)m.n_logical_faces(); o.nlc = (int)m.n_logical_cells();
  o.npropsV = (int)m.template n_props<Entity::Vertex>(); o.npersV = (int)m.template n_persistent_props<Entity::Vertex>();
  for (int v = 0; v < MAXV; ++v) if (v < o.s.nV) pos_of(m, v, o.pos[v]);
}
// same entities, definitions, deletion state, modes, incidence settings (and positions at a symbolic probe vertex)
static inline __attribute__((always_inline)) void same_mesh_state(const Obs &a, const Obs &b, bool geo, const char *what) {
  v_assert(!a.s.overflow && !b.s.overflow, "C13 harness capacity");
  v_assert(snap_equal(a.s, b.s), what);
  v_assert(a.deferred == b.deferred && a.fast == b.fast, "C13 same deletion modes");
  v_assert(a.vbu == b.vbu && a.ebu == b.ebu && a.fbu == b.fbu, "C13 same bottom-up incidence settings");
  v_assert(a.nlv == b.nlv && a.nle == b.nle && a.nlf == b.nlf && a.nlc == b.nlc, "C13 same logical (non-deleted) entity counts");
  if (geo && a.s.nV > 0 && a.s.nV == b.s.nV) {
    unsigned p = v_nondet_below((unsigned)a.s.nV);
    v_assert(a.pos[p][0] == b.pos[p][0] && a.pos[p][1] == b.pos[p][1] && a.pos[p][2] == b.pos[p][2], "C13 same vertex positions (symbolic probe)");
  }
}
// values of the two persistent properties "p" (int) and "q" (bool) of a mesh, read through the registry
struct PVals { bool has_p, has_q; int n; int p[MAXV]; bool q[MAXV]; };
template <class M> static void read_persistent(M &m, PVals &o) {
  std::optional<IntVP> hp = m.template get_property<int, Entity::Vertex>(std::string("p"));
  std::optional<BoolVP> hq = m.template get_property<bool, Entity::Vertex>(std::string("q"));
  o.has_p = hp.has_value() && hp->persistent() && hp->shared();
  o.has_q = hq.has_value() && hq->persistent() && hq->shared();
  o.n = (int)m.n_vertices();
  if (hp.has_value()) v_assert((int)hp->size() == o.n, "C13 persistent property sized to its mesh");
  if (hq.has_value()) v_assert((int)hq->size() == o.n, "C13 persistent property sized to its mesh");
  for (int v = 0; v < MAXV; ++v) if (v < o.n) { o.p[v] = hp.has_value() ? (*hp)[VH(v)] : 0; o.q[v] = hq.has_value() ? (bool)(*hq)[VH(v)] : false; }
}
static inline __attribute__((always_inline)) void same_persistent(const PVals &a, const PVals &b, const char *what) {
  v_assert(a.has_p && a.has_q && b.has_p && b.has_q, "C13 persistent properties findable, shared and persistent on both meshes");
  v_assert(a.n == b.n, "C13 persistent properties sized alike");
  if (a.n > 0 && a.n == b.n) {
    unsigned k = v_nondet_below((unsigned)a.n);
    v_assert(a.p[k] == b.p[k] && a.q[k] == b.q[k], what);
  }
}

// ------------------------------------------------------------------------------------------------ mutation alphabet (per side)
static unsigned mut_count(const TopologyKernel &m) {
  unsigned nv = (unsigned)m.n_vertices(), ne = (unsigned)m.n_edges(), nf = (unsigned)m.n_faces(), nc = (unsigned)m.n_cells();
  return nv + ne + nf + nc + 1 /*add_v*/ + 2 /*add_e, add_e dup*/ + 2 /*swap_v*/ + 1 /*swap_e*/ + 1 /*swap_f*/ + 1 /*swap_c*/ + 2 /*gc, clear*/ + 5 /*writes*/;
}
static void mut_decode(const TopologyKernel &m, unsigned k, unsigned &op, unsigned &a, unsigned &b) {
  unsigned nv = (unsigned)m.n_vertices(), ne = (unsigned)m.n_edges(), nf = (unsigned)m.n_faces(), nc = (unsigned)m.n_cells();
  a = 0; b = 0;
  if (k < nv) { op = OP_DEL_V; a = k; return; } k -= nv;
  if (k < ne) { op = OP_DEL_E; a = k; return; } k -= ne;
  if (k < nf) { op = OP_DEL_F; a = k; return; } k -= nf;
  if (k < nc) { op = OP_DEL_C; a = k; return; } k -= nc;
  switch (k) {
  case 0: op = OP_ADD_V; return;
  case 1: op = OP_ADD_E; a = 0; b = nv - 1; return;
  case 2: op = OP_ADD_E_DUP; a = 0; b = 1; return;
  case 3: op = OP_SWAP_V; a = 0; b = nv - 1; return;
  case 4: op = OP_SWAP_V; a = 1; b = 2; return;
  case 5: op = OP_SWAP_E; a = 0; b = ne - 1; return;
  case 6: op = (nf >= 2) ? (unsigned)OP_SWAP_F : (unsigned)OP_NONE; a = 0; b = nf - 1; return;
  case 7: op = (nc >= 2) ? (unsigned)OP_SWAP_C : (unsigned)OP_NONE; a = 0; b = nc - 1; return;
  case 8: op = OP_GC; return;
  case 9: op = OP_CLEAR; return;
  default: op = MU_PW_P + (k - 10); return;
  }
}
static bool mut_valid(const TopologyKernel &m, unsigned op, unsigned a, unsigned b) {
  switch (op) {
  case OP_NONE: return false;
  case OP_SWAP_V: return a != b && !m.is_deleted(VH((int)a)) && !m.is_deleted(VH((int)b));
  case OP_SWAP_E: return a != b && !m.is_deleted(EH((int)a)) && !m.is_deleted(EH((int)b));
  case OP_SWAP_F: return a != b && !m.is_deleted(FH((int)a)) && !m.is_deleted(FH((int)b));
  case OP_SWAP_C: return a != b && !m.is_deleted(CH((int)a)) && !m.is_deleted(CH((int)b));
  default: return op >= MU_PW_P || op_valid(m, op, a, b);
  }
}
static inline void set_pos(TopologyKernel &, int, int, int, int) {}
static inline void set_pos(GeoMesh &m, int v, int x, int y, int z) { m.set_vertex(VH(v), V3(x, y, z)); }
template <class P> static void sym_write(P &h) {   // write a symbolic value at a symbolic index through a handle
  if (h.size() == 0) return;
  unsigned k = v_nondet_below((unsigned)h.size());
  h[VH((int)k)] = (typename P::value_type)v_nondet_int();
}
