// C18: OVMB detects truncation, framing corruption and stream failures -- WHOLE-FILE level.
// The public entry point IO::ovmb_read(std::istream&, MeshT&, ReadOptions, codecs) is run on the bytes of valid files
// produced by the real writer (gen/c18_files.inc, generated at check time by tools/gen_ovmb.cpp) after one fault:
//   (1) truncation to length L, (2) substitution of one byte of a must-reject field by a boundary value,
//   (3) a forbidden change of the chunk structure, (4) a stream that stops delivering at offset P.
// L, P, the substituted (offset, value) and the structure change are chosen by a symbolic selector dispatched to literal
// cases (8 per query, the block of 8 is the shard parameter 1), because the reader's control flow and the mesh containers
// depend on them.  (Measured: a free symbolic replacement byte makes symex merge the accept/reject paths into symbolic
// container shapes -- no verdict in 600 s for 8 magic-byte cases of the 64-byte file; the property's own quantifier is
// "every single-byte substitution ... with every one of a set of boundary values", which is what is enumerated.)
// The stream is the memory-buffer model of models/stream_model.cpp (vstream.h); natively a real std::istream.
// shard params: 0 = file (FM_EMPTY/FM_TET/FM_TETP), 1 = block of 8 cases, 2 = substitution value mode (see M_SUBST).
#include "verif.h"
#include "c18_meshes.h"
#include "vstream.h"
#include "gen/c18_files.inc"
#include <OpenVolumeMesh/IO/ovmb_read.hh>
#include <OpenVolumeMesh/IO/PropertyCodecsT_impl.hh>
using namespace OpenVolumeMesh::IO;

static const uint64_t NOFAULT = ~0ull;
enum { BUFCAP = 512 };
static uint8_t g_buf[BUFCAP];

struct FileDesc { const unsigned char *bytes, *cls; unsigned len, nchunks; const unsigned short *chunk_off, *chunk_maxh, *chunk_limit; const unsigned char *chunk_kind;
                  const unsigned short *mr, *compr; unsigned n_mr, n_compr; };
static FileDesc file_desc(unsigned which) {
  FileDesc d;
  if (which == FM_EMPTY) { d.bytes = F_EMPTY; d.cls = F_EMPTY_CLS; d.len = F_EMPTY_LEN; d.nchunks = F_EMPTY_NCHUNKS; d.chunk_off = F_EMPTY_CHUNK_OFF; d.chunk_maxh = F_EMPTY_CHUNK_MAXH; d.chunk_limit = F_EMPTY_CHUNK_LIMIT; d.chunk_kind = F_EMPTY_CHUNK_KIND; d.mr = F_EMPTY_MR; d.n_mr = F_EMPTY_N_MR; d.compr = F_EMPTY_OFFS_CLS_COMPRESSION; d.n_compr = F_EMPTY_N_CLS_COMPRESSION; }
  else if (which == FM_TET) { d.bytes = F_TET; d.cls = F_TET_CLS; d.len = F_TET_LEN; d.nchunks = F_TET_NCHUNKS; d.chunk_off = F_TET_CHUNK_OFF; d.chunk_maxh = F_TET_CHUNK_MAXH; d.chunk_limit = F_TET_CHUNK_LIMIT; d.chunk_kind = F_TET_CHUNK_KIND; d.mr = F_TET_MR; d.n_mr = F_TET_N_MR; d.compr = F_TET_OFFS_CLS_COMPRESSION; d.n_compr = F_TET_N_CLS_COMPRESSION; }
  else { d.bytes = F_TETP; d.cls = F_TETP_CLS; d.len = F_TETP_LEN; d.nchunks = F_TETP_NCHUNKS; d.chunk_off = F_TETP_CHUNK_OFF; d.chunk_maxh = F_TETP_CHUNK_MAXH; d.chunk_limit = F_TETP_CHUNK_LIMIT; d.chunk_kind = F_TETP_CHUNK_KIND; d.mr = F_TETP_MR; d.n_mr = F_TETP_N_MR; d.compr = F_TETP_OFFS_CLS_COMPRESSION; d.n_compr = F_TETP_N_CLS_COMPRESSION; }
  return d;
}
// constant-size copies (ll2c lowers them to per-byte assignments; a run-time-size memcpy would make the contents opaque to symex)
static void load_file(unsigned which) {
  switch (which) {
  case FM_EMPTY: __builtin_memcpy(g_buf, F_EMPTY, F_EMPTY_LEN); break;
  case FM_TET: __builtin_memcpy(g_buf, F_TET, F_TET_LEN); break;
  default: __builtin_memcpy(g_buf, F_TETP, F_TETP_LEN); break;
  }
}
// guarded constant-bound copy (no memcpy idiom): n <= COPY_MAX bytes of src to g_buf[o..]
enum { COPY_MAX = 128 };
static __attribute__((noinline)) void copy_bytes(unsigned o, const unsigned char *src, unsigned n) {
  for (unsigned i = 0; i < COPY_MAX; ++i) if (i < n) g_buf[o + i] = src[i];
}
static unsigned chunk_end(const FileDesc &d, unsigned k) { return k + 1 < d.nchunks ? d.chunk_off[k + 1] : d.len; }

// the codecs handed to the reader: only the codec of the one property of FM_TETP ("i32"), registered through the real
// PropertyCodecs::register_codec template -- the 30-codec default registry g_default_property_codecs is not encoded (see spec)
static __attribute__((noinline)) ReadResult read_buf(uint64_t n, uint64_t fail_at, VMesh &m, bool with_codec) {
  VIn in(g_buf, n, fail_at);
  ReadOptions opt;
  PropertyCodecs codecs;
  if (with_codec) codecs.register_codec<Codecs::SimplePropCodec<Codecs::Primitive<int32_t>>>("i32");
  return ovmb_read(in.stream(), m, opt, codecs);
}

enum { N_SLOTS = 5 };   // boundary values per substituted byte: orig^0x01, orig^0x80, 0x00, 0xff, smallest constraint-violating value
enum Mode { M_TRUNC = 1, M_FAULT, M_SUBST, M_SUBST_COMPRESSION, M_STRUCT };
static unsigned g_mode;

// ---- (3) chunk structure: sequences of chunk indices of the valid file; every one is forbidden by the format
//      (binary_file_format.docu: "exactly one EOF chunk at the very end", "a property directory chunk may occur zero or one time";
//       topology/property chunks refer to entities/directory entries defined by earlier chunks)
enum { SEQ_MAX = 9, END = 255 };
// FM_TET chunks: 0 VERT, 1 EDGES, 2 FACES, 3 CELLS, 4 EOF
static const unsigned char TET_SEQS[][SEQ_MAX] = {
  {0, 1, 2, 3, END},          // EOF chunk dropped (file ends at a chunk boundary)
  {0, 1, 2, 3, 4, 4, END},    // second EOF chunk
  {0, 1, 2, 4, 3, END},       // EOF chunk not at the very end (CELLS after it)
  {4, 0, 1, 2, 3, END},       // EOF chunk first
  {0, 2, 3, 4, END},          // EDGES dropped: faces refer to halfedges that do not exist
  {0, 1, 3, 4, END},          // FACES dropped: the cell refers to halffaces that do not exist
  {0, 1, 2, 4, END},          // CELLS dropped: header announces one cell
  {0, 0, 1, 2, 3, 4, END},    // VERT duplicated: span does not resume where the last one ended
  {0, 1, 1, 2, 3, 4, END},    // EDGES duplicated
  {0, 1, 2, 2, 3, 4, END},    // FACES duplicated
  {0, 1, 2, 3, 3, 4, END},    // CELLS duplicated
  {0, 2, 1, 3, 4, END},       // FACES before the EDGES they refer to
  {0, 1, 3, 2, 4, END},       // CELLS before the FACES they refer to
};
// FM_TETP chunks: 0 DIRP, 1 VERT, 2 EDGES, 3 FACES, 4 CELLS, 5 PROP, 6 EOF
static const unsigned char TETP_SEQS[][SEQ_MAX] = {
  {0, 0, 1, 2, 3, 4, 5, 6, END},   // second DIRP
  {1, 2, 3, 4, 5, 6, END},         // DIRP dropped, PROP refers to a directory entry that does not exist
  {5, 0, 1, 2, 3, 4, 6, END},      // PROP before DIRP
  {0, 1, 2, 3, 4, 6, 5, END},      // EOF chunk not at the very end (PROP after it)
  {0, 1, 2, 3, 4, 5, END},         // EOF chunk dropped
};
enum { N_TET_SEQS = sizeof(TET_SEQS) / SEQ_MAX, N_TETP_SEQS = sizeof(TETP_SEQS) / SEQ_MAX };

static unsigned build_seq(const FileDesc &d, const unsigned char *seq) {
  unsigned n = 48;
  copy_bytes(0, d.bytes, 48);
  for (unsigned s = 0; s < SEQ_MAX; ++s) {
    if (seq[s] == END) break;
    unsigned k = seq[s], len = chunk_end(d, k) - d.chunk_off[k];
    copy_bytes(n, d.bytes + d.chunk_off[k], len);
    n += len;
  }
  return n;
}

static __attribute__((noinline)) void do_case(unsigned i) {
  unsigned which = v_param(0);
  unsigned n = v_param(1) * CASES_PER_QUERY + i;
  FileDesc d = file_desc(which);
  VMesh m;
  switch (g_mode) {
  case M_TRUNC: {   // (1) every strict prefix is rejected
    if (n >= d.len) { v_witness("C18 case outside the file"); return; }
    load_file(which);
    ReadResult r = read_buf(n, NOFAULT, m, which == FM_TETP);
    v_assert(r != ReadResult::Ok, "C18 truncation: a strict prefix of a valid file must not read as Ok");
    v_witness("C18 truncation case end");
    break; }
  case M_FAULT: {   // (4) the stream stops delivering at offset n < size: error result, never Ok
    if (n >= d.len) { v_witness("C18 case outside the file"); return; }
    load_file(which);
    ReadResult r = read_buf(d.len, n, m, which == FM_TETP);
    v_assert(r != ReadResult::Ok, "C18 stream fault: a read failure of the underlying stream must not read as Ok");
    v_witness("C18 stream fault case end");
    break; }
  case M_SUBST: case M_SUBST_COMPRESSION: {   // (2) one byte of a must-reject field replaced by a boundary value
    // case n = (k-th byte of the must-reject set, value slot): classes from the generator's walk of the published layout
    // shard param 2: 0 = all value slots of every byte (n = byte * N_SLOTS + slot), 1 = one value per byte (quick tier: orig^0x01,
    // or the smallest constraint-violating value for the fields that have a constraint)
    bool one = v_param(2) == 1;
    unsigned k = one ? n : n / N_SLOTS, slot = one ? 0 : n % N_SLOTS;
    const unsigned short *list = g_mode == M_SUBST ? d.mr : d.compr;
    unsigned nlist = g_mode == M_SUBST ? d.n_mr : d.n_compr;
    if (k >= nlist) { v_witness("C18 case outside the must-reject set"); return; }
    unsigned off = list[k];
    unsigned cls = d.cls[off];
    unsigned chunk = 0; for (unsigned c = 0; c < d.nchunks; ++c) if (d.chunk_off[c] <= off) chunk = c;
    unsigned orig = d.bytes[off];
    // smallest value that violates the field's constraint (class specific), 256 = none
    unsigned lo = 0;   // values >= lo (and != orig) are inconsistent with the rest of the file
    if (cls == CLS_TOPO_TYPE) lo = which == FM_EMPTY ? 3 : 2;            // Polyhedral/Tetrahedral stay consistent with a tet; anything valid is consistent with no cells
    if (cls == CLS_HANDLE) lo = d.chunk_limit[chunk];                   // (files use 1-byte handles) handle >= number of referenced entities
    if (cls == CLS_HANDLE_OFFSET && ((off - (d.chunk_off[chunk] + 32)) & 7) == 0) lo = d.chunk_limit[chunk] - d.chunk_maxh[chunk];   // largest handle leaves the range
    unsigned cand[N_SLOTS] = { orig ^ 0x01u, orig ^ 0x80u, 0x00u, 0xffu, lo };
    if (one && lo != 0) slot = N_SLOTS - 1;
    unsigned nb = cand[slot];
    bool dup = nb == orig || nb < lo || nb > 255;
    for (unsigned j = 0; j < N_SLOTS; ++j) if (j < slot && cand[j] == nb) dup = true;
    if (dup) { v_witness("C18 substitution slot without a new boundary value"); return; }
    load_file(which);
    g_buf[off] = (uint8_t)nb;
    ReadResult r = read_buf(d.len, NOFAULT, m, which == FM_TETP);
    if (g_mode == M_SUBST) v_assert(r != ReadResult::Ok, "C18 substitution: a file with an inconsistent must-reject field must not read as Ok");
    else v_assert(r != ReadResult::Ok, "C18 substitution (compression byte, 'must always be 0'): must not read as Ok");
    v_witness("C18 substitution case end");
    break; }
  case M_STRUCT: {
    unsigned nseq = which == FM_TET ? (unsigned)N_TET_SEQS : which == FM_TETP ? (unsigned)N_TETP_SEQS : 0u;
    if (n >= nseq) { v_witness("C18 case outside the structure list"); return; }
    unsigned len = build_seq(d, which == FM_TET ? TET_SEQS[n] : TETP_SEQS[n]);
    ReadResult r = read_buf(len, NOFAULT, m, which == FM_TETP);
    v_assert(r != ReadResult::Ok, "C18 chunk structure: a forbidden chunk sequence must not read as Ok");
    v_witness("C18 structure case end");
    break; }
  default: break;
  }
}

static void run(unsigned mode) {
  g_mode = mode;
  unsigned sel = v_nondet_u32();
  v_assume(sel < CASES_PER_QUERY);
  dispatch<Case, CASES_PER_QUERY>(sel);
}
extern "C" void harness_trunc() { run(M_TRUNC); }
extern "C" void harness_fault() { run(M_FAULT); }
extern "C" void harness_subst() { run(M_SUBST); }
extern "C" void harness_subst_compression() { run(M_SUBST_COMPRESSION); }
extern "C" void harness_struct() { run(M_STRUCT); }

// ---- sanity: the unmodified files read Ok (a reader that rejects everything would pass all of the above)
extern "C" void harness_valid() {
  unsigned which = v_param(0);
  FileDesc d = file_desc(which);
  load_file(which);
  VMesh m;
  ReadResult r = read_buf(d.len, NOFAULT, m, which == FM_TETP);
  V_ASSERT(r == ReadResult::Ok);
  V_ASSERT(m.n_vertices() == (which == FM_EMPTY ? 0u : 4u) && m.n_cells() == (which == FM_EMPTY ? 0u : 1u));
  v_witness("valid file read");
}

