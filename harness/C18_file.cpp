// C18: OVMB detects truncation, framing corruption and stream failures -- WHOLE-FILE level.
// The public entry point IO::ovmb_read(std::istream&, MeshT&, ReadOptions, codecs) is run on the bytes of valid files
// produced by the real writer (gen/c18_files.inc, generated at check time by tools/gen_ovmb.cpp) after a symbolic fault:
//   (1) truncation to a symbolic length, (2) substitution of one byte of a must-reject field by a symbolic other value,
//   (3) a forbidden change of the chunk structure, (4) a stream that stops delivering at a symbolic offset.
// The stream is the memory-buffer model of models/stream_model.cpp (vstream.h); natively a real std::istream.
#include "verif.h"
#include "c18_meshes.h"
#include "vstream.h"
#include "gen/c18_files.inc"
#include <OpenVolumeMesh/IO/ovmb_read.hh>
using namespace OpenVolumeMesh::IO;

enum { NOFAULT = ~0ull };
enum { BUFCAP = 512 };
static uint8_t g_buf[BUFCAP];

static unsigned file_len(unsigned which) { return which == FM_EMPTY ? F_EMPTY_LEN : which == FM_TET ? F_TET_LEN : F_TETP_LEN; }
static const unsigned char *file_bytes(unsigned which) { return which == FM_EMPTY ? F_EMPTY : which == FM_TET ? F_TET : F_TETP; }
static void load_file(unsigned which) {
  const unsigned char *b = file_bytes(which); unsigned n = file_len(which);
  for (unsigned i = 0; i < n; ++i) g_buf[i] = b[i];
}

static __attribute__((noinline)) ReadResult read_buf(uint64_t n, uint64_t fail_at, VMesh &m, bool with_codecs) {
  VIn in(g_buf, n, fail_at);
  ReadOptions opt;
  if (with_codecs) return ovmb_read(in.stream(), m, opt, g_default_property_codecs);
  PropertyCodecs none;
  return ovmb_read(in.stream(), m, opt, none);
}

// ---- sanity: the unmodified files read Ok (keeps the other harnesses honest: a reader that rejects everything would pass them)
extern "C" void harness_valid() {
  unsigned which = v_param(0);
  load_file(which);
  VMesh m;
  ReadResult r = read_buf(file_len(which), NOFAULT, m, which == FM_TETP);
  V_ASSERT(r == ReadResult::Ok);
  V_ASSERT(m.n_vertices() == (which == FM_EMPTY ? 0u : 4u) && m.n_cells() == (which == FM_EMPTY ? 0u : 1u));
  v_witness("valid file read");
}

// ---- (1) truncation: every strict prefix is rejected
extern "C" void harness_trunc() {
  unsigned which = v_param(0);
  load_file(which);
  unsigned lo = v_param(1), hi = v_param(2);   // shard: L in [lo, hi), hi == 0: whole range
  if (hi == 0) hi = file_len(which);
  unsigned L = v_nondet_below(file_len(which));
  v_assume(L >= lo && L < hi);
  VMesh m;
  ReadResult r = read_buf(L, NOFAULT, m, which == FM_TETP);
  v_assert(r != ReadResult::Ok, "C18 truncation: a strict prefix of a valid file must not read as Ok");
  v_witness("truncated file rejected or accepted");
}
