// C06 (a): every header struct of ovmb_format.hh / ovmb_codec.hh: write -> read identity for symbolic VALID contents, the
// byte layout against the published description (extra/ovmb-kaitai/ovmb.ksy; documentation/subpages/binary_file_format.docu),
// and which contents read() refuses.  Plus handles and suitable_int_encoding.
#include "verif.h"
#include <OpenVolumeMesh/IO/detail/Decoder.hh>
#include <OpenVolumeMesh/IO/detail/Encoder.hh>
#include <OpenVolumeMesh/IO/detail/WriteBuffer.hh>
#include <OpenVolumeMesh/IO/detail/ovmb_format.hh>
#include <OpenVolumeMesh/IO/detail/ovmb_codec.hh>
#include <OpenVolumeMesh/IO/detail/exceptions.hh>
#include <OpenVolumeMesh/IO/PropertyCodecsT_impl.hh>
#include <OpenVolumeMesh/Core/Handles.hh>
using namespace OpenVolumeMesh;
using namespace OpenVolumeMesh::IO::detail;
namespace OpenVolumeMesh::IO::detail { void read(Decoder &, ArraySpan &); void write(Encoder &, const ArraySpan &); }  // defined (external linkage) in ovmb_codec.cc

enum Outcome { OK = 0, PARSE_ERROR = 1, OTHER = 2 };
#define RUN(out, stmt) do { out = OK; try { stmt; } catch (const parse_error &) { out = PARSE_ERROR; } catch (...) { out = OTHER; } } while (0)
static uint64_t le(const std::vector<uint8_t> &b, unsigned off, unsigned n) {  // reference little-endian read ("LSB first")
  uint64_t r = 0;
  for (unsigned k = 0; k < 8; ++k) if (k < n) r |= (uint64_t)b[off + k] << (8 * k);
  return r;
}

// ---- FileHeader: 48 bytes = magic[8] file_version header_version vertex_dim topo_type reserved[4]=0 n_verts n_edges n_faces n_cells (u64 LE)
extern "C" void harness_file_header() {
  FileHeader h;
  h.file_version = v_nondet_u8(); h.header_version = v_nondet_u8(); h.vertex_dim = v_nondet_u8();
  uint8_t tt = v_nondet_u8(); v_assume(tt <= 2); h.topo_type = (TopoType)tt;
  h.n_verts = v_nondet_u64(); h.n_edges = v_nondet_u64(); h.n_faces = v_nondet_u64(); h.n_cells = v_nondet_u64();
  WriteBuffer wb; Encoder enc(wb);
  write(enc, h);
  std::vector<uint8_t> b = wb.vec();
  V_ASSERT(b.size() == 48 && ovmb_size<FileHeader> == 48);
  V_ASSERT(b[0] == 'O' && b[1] == 'V' && b[2] == 'M' && b[3] == 'B' && b[4] == 0x0a && b[5] == 0x0d && b[6] == 0x0a && b[7] == 0xff);
  V_ASSERT(b[8] == h.file_version && b[9] == h.header_version && b[10] == h.vertex_dim && b[11] == tt);
  V_ASSERT(b[12] == 0 && b[13] == 0 && b[14] == 0 && b[15] == 0);
  V_ASSERT(le(b, 16, 8) == h.n_verts && le(b, 24, 8) == h.n_edges && le(b, 32, 8) == h.n_faces && le(b, 40, 8) == h.n_cells);
  Decoder dec(b);
  FileHeader r; bool ok = false; int out;
  RUN(out, ok = read(dec, r));
  V_ASSERT(out == OK);
  if (h.header_version != 1) { V_ASSERT(!ok); v_witness("file header: header_version != 1 is written but refused on reading (returns false)"); return; }
  V_ASSERT(ok && dec.finished());
  V_ASSERT(r.file_version == h.file_version && r.header_version == 1 && r.vertex_dim == h.vertex_dim && r.topo_type == h.topo_type);
  V_ASSERT(r.n_verts == h.n_verts && r.n_edges == h.n_edges && r.n_faces == h.n_faces && r.n_cells == h.n_cells);
  v_witness("file header: round trip");
}

// ---- ChunkHeader: 16 bytes = type[4] version padding_bytes compression flags file_length(u64 LE); payload_length = file_length - padding_bytes
extern "C" void harness_chunk_header() {
  ChunkHeader h;
  h.type = (ChunkType)v_nondet_u32(); h.version = v_nondet_u8(); h.padding_bytes = v_nondet_u8(); h.compression = v_nondet_u8();
  uint8_t fl = v_nondet_u8(); h.flags = (ChunkFlags)fl; h.file_length = v_nondet_u64(); h.payload_length = v_nondet_u64();
  WriteBuffer wb; Encoder enc(wb);
  write(enc, h);
  std::vector<uint8_t> b = wb.vec();
  V_ASSERT(b.size() == 16 && ovmb_size<ChunkHeader> == 16);
  V_ASSERT((uint32_t)le(b, 0, 4) == (uint32_t)h.type && b[4] == h.version && b[5] == h.padding_bytes && b[6] == h.compression && b[7] == fl && le(b, 8, 8) == h.file_length);
  Decoder dec(b);
  ChunkHeader r; int out;
  RUN(out, read(dec, r));
  V_ASSERT(out != OTHER);
  bool valid = fl <= 1 && (uint64_t)h.padding_bytes <= h.file_length;
  V_ASSERT((out == OK) == valid);
  if (!valid) { v_witness("chunk header: flags > 1 or padding_bytes > file_length refused (parse_error)"); return; }
  V_ASSERT(r.type == h.type && r.version == h.version && r.padding_bytes == h.padding_bytes && r.compression == h.compression && r.flags == h.flags && r.file_length == h.file_length);
  V_ASSERT(r.payload_length == h.file_length - h.padding_bytes && dec.finished());
  V_ASSERT(r.isMandatory() == (fl == 1));
  v_witness("chunk header: round trip");
}

// ---- ArraySpan (12 bytes: first u64, count u32), PropChunkHeader (16: span, idx u32)
extern "C" void harness_span_and_prop_header() {
  PropChunkHeader h; h.span.first = v_nondet_u64(); h.span.count = v_nondet_u32(); h.idx = v_nondet_u32();
  {
    WriteBuffer wb; Encoder enc(wb);
    write(enc, h.span);
    std::vector<uint8_t> b = wb.vec();
    V_ASSERT(b.size() == 12 && ovmb_size<ArraySpan> == 12 && le(b, 0, 8) == h.span.first && (uint32_t)le(b, 8, 4) == h.span.count);
    Decoder dec(b); ArraySpan r; int out;
    RUN(out, read(dec, r));
    V_ASSERT(out == OK && r.first == h.span.first && r.count == h.span.count && dec.finished() && r.empty() == (h.span.count == 0));
  }
  WriteBuffer wb; Encoder enc(wb);
  write(enc, h);
  std::vector<uint8_t> b = wb.vec();
  V_ASSERT(b.size() == 16 && ovmb_size<PropChunkHeader> == 16 && le(b, 0, 8) == h.span.first && (uint32_t)le(b, 8, 4) == h.span.count && (uint32_t)le(b, 12, 4) == h.idx);
  Decoder dec(b); PropChunkHeader r; int out;
  RUN(out, read(dec, r));
  V_ASSERT(out == OK && r.span.first == h.span.first && r.span.count == h.span.count && r.idx == h.idx && dec.finished());
  v_witness("array span + prop chunk header: round trip");
}

// ---- VertexChunkHeader: 16 bytes = span, vertex_encoding (0,1,2), reserved[3]=0
extern "C" void harness_vertex_chunk_header() {
  VertexChunkHeader h; h.span.first = v_nondet_u64(); h.span.count = v_nondet_u32();
  uint8_t e = v_nondet_u8(); v_assume(e <= 2); h.vertex_encoding = (VertexEncoding)e;
  WriteBuffer wb; Encoder enc(wb);
  write(enc, h);
  std::vector<uint8_t> b = wb.vec();
  V_ASSERT(b.size() == 16 && ovmb_size<VertexChunkHeader> == 16 && le(b, 0, 8) == h.span.first && (uint32_t)le(b, 8, 4) == h.span.count && b[12] == e && b[13] == 0 && b[14] == 0 && b[15] == 0);
  V_ASSERT(elem_size(h.vertex_encoding) == (e == 1 ? 4 : e == 2 ? 8 : 0));
  Decoder dec(b); VertexChunkHeader r; int out;
  RUN(out, read(dec, r));
  V_ASSERT(out == OK && r.span.first == h.span.first && r.span.count == h.span.count && r.vertex_encoding == h.vertex_encoding && dec.finished());
  v_witness("vertex chunk header: round trip");
}

// ---- TopoChunkHeader: 24 bytes = span, entity (1..3), valence, valence_encoding, handle_encoding (0,1,2,4), handle_offset u64
extern "C" void harness_topo_chunk_header() {
  TopoChunkHeader h; h.span.first = v_nondet_u64(); h.span.count = v_nondet_u32();
  uint8_t ent = v_nondet_u8(), ve = v_nondet_u8(), he = v_nondet_u8();
  v_assume(ent >= 1 && ent <= 3); v_assume(ve == 0 || ve == 1 || ve == 2 || ve == 4); v_assume(he == 0 || he == 1 || he == 2 || he == 4);
  h.entity = (TopoEntity)ent; h.valence = v_nondet_u8(); h.valence_encoding = (IntEncoding)ve; h.handle_encoding = (IntEncoding)he; h.handle_offset = v_nondet_u64();
  WriteBuffer wb; Encoder enc(wb);
  write(enc, h);
  std::vector<uint8_t> b = wb.vec();
  V_ASSERT(b.size() == 24 && ovmb_size<TopoChunkHeader> == 24 && le(b, 0, 8) == h.span.first && (uint32_t)le(b, 8, 4) == h.span.count);
  V_ASSERT(b[12] == ent && b[13] == h.valence && b[14] == ve && b[15] == he && le(b, 16, 8) == h.handle_offset);
  V_ASSERT(elem_size(h.handle_encoding) == he);       // U8=1, U16=2, U32=4 bytes per handle, None=0
  Decoder dec(b); TopoChunkHeader r; int out;
  RUN(out, read(dec, r));
  V_ASSERT(out == OK && r.span.first == h.span.first && r.span.count == h.span.count && r.entity == h.entity && r.valence == h.valence);
  V_ASSERT(r.valence_encoding == h.valence_encoding && r.handle_encoding == h.handle_encoding && r.handle_offset == h.handle_offset && dec.finished());
  v_witness("topo chunk header: round trip");
}

// ---- enums: read_enum accepts exactly the values the description lists (ovmb.ksy enums), for every byte value
extern "C" void harness_enums() {
  uint8_t x = v_nondet_u8();
  std::vector<uint8_t> b; b.reserve(4); b.push_back(x); b.push_back(0); b.push_back(0); b.push_back(0);
  int out;
  { Decoder d(b); IntEncoding e; RUN(out, { d.need(1); read(d, e); }); V_ASSERT((out == OK) == (x == 0 || x == 1 || x == 2 || x == 4)); V_ASSERT(out != OTHER); if (out == OK) V_ASSERT((uint8_t)e == x); }
  { Decoder d(b); PropertyEntity e; RUN(out, { d.need(1); read(d, e); }); V_ASSERT((out == OK) == (x <= 6)); if (out == OK) V_ASSERT((uint8_t)e == x); }
  { Decoder d(b); TopoType e; RUN(out, { d.need(1); read(d, e); }); V_ASSERT((out == OK) == (x <= 2)); if (out == OK) V_ASSERT((uint8_t)e == x); }
  { Decoder d(b); VertexEncoding e; RUN(out, { d.need(1); read(d, e); }); V_ASSERT((out == OK) == (x <= 2)); if (out == OK) V_ASSERT((uint8_t)e == x); }
  { Decoder d(b); ChunkFlags e; RUN(out, { d.need(1); read(d, e); }); V_ASSERT((out == OK) == (x <= 1)); if (out == OK) V_ASSERT((uint8_t)e == x); }
  { Decoder d(b); ChunkType e; RUN(out, { d.need(4); read(d, e); }); V_ASSERT(out == OK && (uint32_t)e == x); }
  V_ASSERT((uint32_t)ChunkType::Vertices == 0x54524556u && (uint32_t)ChunkType::Topo == 0x4f504f54u && (uint32_t)ChunkType::PropertyDirectory == 0x50524944u);
  V_ASSERT((uint32_t)ChunkType::Property == 0x504f5250u && (uint32_t)ChunkType::EndOfFile == 0x20464f45u);     // "VERT","TOPO","DIRP","PROP","EOF " as LE u32
  // PropertyEntity <-> EntityType mapping is a bijection on the 7 valid values (literal constants: the throwing default branches fold away)
  for (unsigned k = 0; k <= 6; ++k) { PropertyEntity pe = (PropertyEntity)k; V_ASSERT(as_prop_entity(as_entity_type(pe)) == pe); }
  if (x <= 6) v_witness("enums: byte value valid as property entity"); else v_witness("enums: byte value > 6");
}

// ---- suitable_int_encoding: smallest encoding that can represent the value; boundaries 255/256, 65535/65536
extern "C" void harness_suitable_int_encoding() {
  uint32_t v = v_nondet_u32();
  IntEncoding e = suitable_int_encoding(v);
  V_ASSERT((e == IntEncoding::U8) == (v <= 255u));
  V_ASSERT((e == IntEncoding::U16) == (v >= 256u && v <= 65535u));
  V_ASSERT((e == IntEncoding::U32) == (v >= 65536u));
  V_ASSERT(is_valid(e) && e != IntEncoding::None);
  // what is written with that encoding reads back as v
  WriteBuffer wb; Encoder enc(wb);
  call_with_encoder(e, [&](auto write_one) { write_one(enc, v); });
  std::vector<uint8_t> b = wb.vec();
  V_ASSERT(b.size() == elem_size(e));
  Decoder dec(b); uint32_t r = 0;
  call_with_decoder(e, [&](auto read_one) { r = read_one(dec); });
  V_ASSERT(r == v && dec.finished());
  // a 64-bit count (size_t, as BinaryFileWriter passes n_vertices()/n_halfedges()/n_halffaces()) below 2^32 selects the same encoding
  uint64_t w = v_nondet_u64(); v_assume(w <= 0xffffffffULL);
  IntEncoding e64 = suitable_int_encoding(w);
  V_ASSERT((e64 == IntEncoding::U8) == (w <= 255u) && (e64 == IntEncoding::U16) == (w >= 256u && w <= 65535u) && (e64 == IntEncoding::U32) == (w >= 65536u));
  if (v == 255u) v_witness("suitable_int_encoding: 255 -> U8");
  else if (v == 256u) v_witness("suitable_int_encoding: 256 -> U16");
  else if (v == 65535u) v_witness("suitable_int_encoding: 65535 -> U16");
  else if (v == 65536u) v_witness("suitable_int_encoding: 65536 -> U32");
  else v_witness("suitable_int_encoding: other value");
}

// ---- handles through the OVMHandle codec (4 bytes, two's complement LE of idx(); -1 = invalid handle survives)
template <class Hd> static void handle_rt(int idx) {
  using C = IO::Codecs::SimplePropCodec<IO::Codecs::OVMHandle<Hd>>;
  Hd h(idx);
  WriteBuffer wb; Encoder enc(wb);
  C::encode_one(enc, h);
  std::vector<uint8_t> b = wb.vec();
  V_ASSERT(b.size() == 4 && (uint32_t)le(b, 0, 4) == (uint32_t)idx);
  Decoder dec(b); Hd r;
  dec.need(4);
  C::decode_one(dec, r);
  V_ASSERT(r == h && r.idx() == idx && r.is_valid() == (idx >= 0) && dec.finished());
}
extern "C" void harness_handles() {
  int idx = v_nondet_int();
  handle_rt<VH>(idx); handle_rt<EH>(idx); handle_rt<HEH>(idx); handle_rt<FH>(idx); handle_rt<HFH>(idx); handle_rt<CH>(idx);
  v_witness("handles: round trip");
}

// ---- PropertyInfo: entity u8, name (u32 length + bytes), data_type_name (same), serialized_default (u32 length + bytes).
//      Lengths: name = v_param(0), data_type_name = v_param(1) (one query per pair), serialized_default 0..3 by selector dispatch;
//      every content byte and the entity are symbolic.
#include <utility>
template <template <unsigned> class F, unsigned... Is>
static inline void dispatch_seq(unsigned sel, std::integer_sequence<unsigned, Is...>) { ((sel == Is ? (F<Is>::run(), 0) : 0), ...); }
static uint8_t g_raw[16];
template <bool EMPTY> static void property_info_case(unsigned l0, unsigned l1, unsigned l2) {
  PropertyInfo pi;
  uint8_t ent = v_nondet_u8(); v_assume(ent <= 6); pi.entity_type = (PropertyEntity)ent;
  for (unsigned i = 0; i < l0; ++i) pi.name.push_back((char)g_raw[i]);
  for (unsigned i = 0; i < l1; ++i) pi.data_type_name.push_back((char)g_raw[4 + i]);
  pi.serialized_default.reserve(4);
  for (unsigned i = 0; i < l2; ++i) pi.serialized_default.push_back(g_raw[8 + i]);
  WriteBuffer wb; Encoder enc(wb);
  write(enc, pi);
  std::vector<uint8_t> b = wb.vec();
  V_ASSERT(b.size() == 13 + l0 + l1 + l2);
  V_ASSERT(b[0] == ent && le(b, 1, 4) == l0 && le(b, 5 + l0, 4) == l1 && le(b, 9 + l0 + l1, 4) == l2);
  for (unsigned i = 0; i < l0; ++i) V_ASSERT(b[5 + i] == g_raw[i]);
  for (unsigned i = 0; i < l1; ++i) V_ASSERT(b[9 + l0 + i] == g_raw[4 + i]);
  for (unsigned i = 0; i < l2; ++i) V_ASSERT(b[13 + l0 + l1 + i] == g_raw[8 + i]);
  Decoder dec(b); PropertyInfo r; int out;
  RUN(out, read(dec, r));
  V_ASSERT(out != OTHER);
  if constexpr (EMPTY) {
    // read() demands 14 bytes up front (need(2+3*4)); the 13-byte entry with three empty fields is refused. The writer never
    // produces it (every registered type name and every serialized default is non-empty, except the 4-byte default of "s32").
    V_ASSERT(out == PARSE_ERROR);
    v_witness("property info: entry with three empty fields (13 bytes) is refused by read()");
  } else {
  V_ASSERT(out == OK && dec.finished());
  V_ASSERT(r.entity_type == pi.entity_type && r.name.size() == l0 && r.data_type_name.size() == l1 && r.serialized_default.size() == l2);
  for (unsigned i = 0; i < l0; ++i) V_ASSERT((uint8_t)r.name[i] == g_raw[i]);
  for (unsigned i = 0; i < l1; ++i) V_ASSERT((uint8_t)r.data_type_name[i] == g_raw[4 + i]);
  for (unsigned i = 0; i < l2; ++i) V_ASSERT(r.serialized_default[i] == g_raw[8 + i]);
  v_witness("property info: round trip");
  }
}
template <unsigned I> struct CasePI { static __attribute__((noinline)) void run() { property_info_case<false>(v_param(0), v_param(1), I); } };
extern "C" void harness_property_info() {
  for (unsigned i = 0; i < 12; ++i) g_raw[i] = v_nondet_u8();
  unsigned sel = v_nondet_below(4);
  if (v_param(0) + v_param(1) == 0) v_assume(sel != 0);     // the all-empty entry has its own entry point (different witness)
  dispatch_seq<CasePI>(sel, std::make_integer_sequence<unsigned, 4>{});
}
extern "C" void harness_property_info_empty() { property_info_case<true>(0, 0, 0); }
