// C18 part 4b: a write failure while saving produces an error result, never Ok -- the real writer (IO::ovmb_write on a
// std::ostream&) on the ostream model of models/stream_model.cpp (vstream.h: append buffer; from byte offset P on write()
// stores nothing and sets badbit; the inline ostream.good() reads the fake basic_ios state through the vtable's vbase offset).
// Also (C06): without a fault the bytes the SYMBOLICALLY EXECUTED writer produces equal, byte for byte, the file the
// natively run writer produced (gen/c18_files.inc) -- the writer is deterministic and the encoding of the writer is faithful.
// shard params: 0 = mesh (FM_EMPTY/FM_TET/FM_TETP), 1 = block of 8 fault positions.
#include "verif.h"
#include "c18_meshes.h"
#include "vstream.h"
#include "gen/c18_files.inc"
#include <OpenVolumeMesh/IO/ovmb_write.hh>
#include <OpenVolumeMesh/IO/PropertyCodecsT_impl.hh>
using namespace OpenVolumeMesh::IO;

enum { OUTCAP = 512 };
static uint8_t g_out[OUTCAP];

static __attribute__((noinline)) WriteResult write_mesh(unsigned which, uint64_t fail_at, uint64_t &len) {
  VMesh m; build_file_mesh(m, which);
  PropertyCodecs codecs;
  if (which == FM_TETP) codecs.register_codec<Codecs::SimplePropCodec<Codecs::Primitive<int32_t>>>("i32");
  VOut out(g_out, OUTCAP, fail_at);
  WriteOptions opt;
  WriteResult r = ovmb_write(out.stream(), m, opt, codecs);
  len = out.len();
  return r;
}

extern "C" void harness_write_ok() {
  unsigned which = v_param(0);
  const unsigned char *ref = which == FM_EMPTY ? F_EMPTY : which == FM_TET ? F_TET : F_TETP;
  unsigned n = which == FM_EMPTY ? (unsigned)F_EMPTY_LEN : which == FM_TET ? (unsigned)F_TET_LEN : (unsigned)F_TETP_LEN;
  uint64_t len = 0;
  WriteResult r = write_mesh(which, ~0ull, len);
  v_assert(r == WriteResult::Ok, "C18 write: a working stream gives Ok");
  v_assert(len == n, "C06 writer: the file has the length of the natively written file");
  unsigned i = v_nondet_below(OUTCAP);   // symbolic probe position
  if (i < n) v_assert(g_out[i] == ref[i], "C06 writer: byte for byte the natively written file");
  v_witness("C18 write ok end");
}

// fault positions: for every chunk (and the file header) the first byte, the second, the last header byte, the first payload
// byte, the last byte -- every write() call of the writer is cut at its start and inside
static unsigned fault_pos(unsigned which, unsigned idx, bool &valid) {
  const unsigned short *off = which == FM_EMPTY ? F_EMPTY_CHUNK_OFF : which == FM_TET ? F_TET_CHUNK_OFF : F_TETP_CHUNK_OFF;
  unsigned nch = which == FM_EMPTY ? (unsigned)F_EMPTY_NCHUNKS : which == FM_TET ? (unsigned)F_TET_NCHUNKS : (unsigned)F_TETP_NCHUNKS;
  unsigned n = which == FM_EMPTY ? (unsigned)F_EMPTY_LEN : which == FM_TET ? (unsigned)F_TET_LEN : (unsigned)F_TETP_LEN;
  valid = true;
  if (idx < 3) return idx == 0 ? 0 : idx == 1 ? 1 : 47;
  idx -= 3;
  unsigned k = idx / 5, w = idx % 5;
  if (k >= nch) { valid = false; return 0; }
  unsigned end = k + 1 < nch ? off[k + 1] : n;
  unsigned p = w == 0 ? off[k] : w == 1 ? off[k] + 1u : w == 2 ? off[k] + 15u : w == 3 ? off[k] + 16u : end - 1;
  if (p >= n) valid = false;
  return p;
}

static __attribute__((noinline)) void do_case(unsigned i) {
  unsigned which = v_param(0);
  bool valid; unsigned p = fault_pos(which, v_param(1) * CASES_PER_QUERY + i, valid);
  if (!valid) { v_witness("C18 write case outside the list"); return; }
  uint64_t len = 0;
  WriteResult r = write_mesh(which, p, len);
  v_assert(r != WriteResult::Ok, "C18 write fault: a write failure while saving must not give Ok");
  v_assert(len <= p, "stream model: nothing is stored from the fault position on");
  v_witness("C18 write fault case end");
}
extern "C" void harness_write_fault() {
  unsigned sel = v_nondet_u32();
  v_assume(sel < CASES_PER_QUERY);
  dispatch<Case, CASES_PER_QUERY>(sel);
}
// the fault position is a FREE symbolic byte offset inside the file: everything else is concrete, so the paths fork only where a write() call
// compares its range with the fault position (one path per write call of the writer)
extern "C" void harness_write_fault_sym() {
  unsigned which = v_param(0);
  unsigned n = which == FM_EMPTY ? (unsigned)F_EMPTY_LEN : which == FM_TET ? (unsigned)F_TET_LEN : (unsigned)F_TETP_LEN;
  uint64_t p = v_nondet_below(OUTCAP);
  v_assume(p < n);
  uint64_t len = 0;
  WriteResult r = write_mesh(which, p, len);
  v_assert(r != WriteResult::Ok, "C18 write fault: a write failure while saving must not give Ok");
  v_assert(len <= p, "stream model: nothing is stored from the fault position on");
  if (p >= n - 16) v_witness("C18 write fault inside the end-of-file chunk");
  if (p < 48) v_witness("C18 write fault inside the file header");
  v_witness("C18 write fault (symbolic position) end");
}
