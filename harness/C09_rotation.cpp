// C09: halffaces around an edge come in rotational order for single-fan edges; adjacent_halfface_in_cell is the unique other
// halfface of a closed cell at an edge and an involution.
// shard params: 0 base, 1 deletion mode, 2 op (OP_NONE / delete / gc / swap / bottom-up toggle), 3 chunk, 4 pre-op, 5 pre-op index.
#include "ops.h"
#include "refmodel.h"
#ifndef NCASES
#define NCASES 4
#endif
enum { MAXFAN = 8 };

// brute force over the snapshot: successor of live halfface hfh (containing he) around he, -1 if hfh is a boundary halfface,
// -2 if the cell is not a 2-manifold at this edge
static int bf_succ(const Snap &s, int hfh, int he) {
  int c = snap_incident_cell(s, hfh);
  if (c == -1) return -1;
  if (c < 0) return -2;
  int g = -1, cnt = 0, cnt_same = 0;
  for (int k = 0; k < s.cval[c]; ++k) {
    int x = s.chf[c][k];
    if (snap_count_he_in_hf(s, x, he ^ 1) > 0) { g = x; ++cnt; }
    if (snap_count_he_in_hf(s, x, he) > 0) ++cnt_same;
  }
  if (cnt != 1 || cnt_same != 1) return -2;
  return g ^ 1;
}

static void check_rotation(const TopologyKernel &m) {
  Snap s; take_snapshot(m, s);
  if (s.overflow) return;
  unsigned pk = v_nondet_below(MAXFAN);   // symbolic position in the reported sequence
  for (int he = 0; he < 2 * s.nE; ++he) {
    if (s.edel[he >> 1]) continue;
    // H = live halffaces containing he (each face contains the edge at most once in the base family)
    int H[MAXFAN], nH = 0; bool simple = true;
    for (int g = 0; g < 2 * s.nF; ++g) { int c = s.fdel[g >> 1] ? 0 : snap_count_he_in_hf(s, g, he); if (c > 1) simple = false; if (c == 1 && nH < MAXFAN) H[nH++] = g; }
    if (!simple || nH == 0) continue;
    // single fan? successor map must be a single path or a single cycle over H
    int succ[MAXFAN], indeg[MAXFAN]; bool fan = true; int ends = 0, starts = 0;
    for (int a = 0; a < nH; ++a) indeg[a] = 0;
    for (int a = 0; a < nH; ++a) {
      int t = bf_succ(s, H[a], he); succ[a] = -1;
      if (t == -2) { fan = false; continue; }
      if (t == -1) { ++ends; continue; }
      for (int b = 0; b < nH; ++b) if (H[b] == t) { succ[a] = b; ++indeg[b]; }
      if (succ[a] < 0) fan = false;
    }
    for (int a = 0; a < nH; ++a) { if (indeg[a] > 1) fan = false; if (indeg[a] == 0) ++starts; }
    if (ends > 1 || starts > 1 || (ends == 0) != (starts == 0)) fan = false;
    if (fan) {  // connectivity: walk from the start (or anywhere on a cycle)
      int cur = 0; for (int a = 0; a < nH; ++a) if (indeg[a] == 0) cur = a;
      int steps = 1; while (succ[cur] >= 0 && steps < nH) { cur = succ[cur]; ++steps; }
      if (steps != nH) fan = false;
    }
    if (!fan) continue;
    // reported sequence
    int S[MAXFAN], n = 0;
    for (auto it = m.hehf_iter(HEH(he)); it.valid() && n < MAXFAN; ++it) S[n++] = (*it).idx();
    v_assert(n == nH, "C09 halfedge_halffaces lists every live halfface at the halfedge once");
    int R[MAXFAN], nr = 0;
    for (auto it = m.hehf_iter(HEH(he ^ 1)); it.valid() && nr < MAXFAN; ++it) R[nr++] = (*it).idx();
    v_assert(nr == n, "C09 opposite halfedge reports as many halffaces");
    if (n != nH || nr != n) continue;
    int T[MAXFAN];                                   // brute-force successor of every reported halfface (concrete)
    for (int k = 0; k < MAXFAN; ++k) T[k] = (k < n) ? bf_succ(s, S[k], he) : -3;
    if ((int)pk < n) {
      int cur = S[pk], t = T[pk];
      if ((int)pk + 1 < n) {
        v_assert(t != -1, "C09 a boundary halfface can only come last");
        v_assert(t == S[pk + 1], "C09 each halfface is followed by the opposite of its neighbour across the edge inside its cell");
      } else {
        v_assert(t == -1 || t == S[0], "C09 the last halfface is a boundary halfface or closes the ring");
      }
      v_assert(R[n - 1 - (int)pk] == (cur ^ 1), "C09 opposite halfedge reports the mirrored reverse sequence");
    }
  }
  // adjacent_halfface_in_cell on closed cells
  unsigned pc = s.nC > 0 ? v_nondet_below((unsigned)s.nC) : 0;   // symbolic cell: only a guard over the enumerated cells
  for (int pj = 0; pj < MAXFV; ++pj)
  for (int c = 0; c < s.nC; ++c) {
    if ((unsigned)c != pc) continue;
    if (s.cdel[c]) continue;
    for (int k = 0; k < s.cval[c]; ++k) {
      int hfh = s.chf[c][k];
      if (snap_incident_cell(s, hfh) != c) continue;
      int f = hfh >> 1;
      if ((int)pj >= s.fval[f]) continue;
      int he = snap_hf_he(s, hfh, (int)pj);
      int t = bf_succ(s, hfh, he);           // = (other halfface)^1
      if (t < 0) continue;
      int g = t ^ 1;
      if (g == (hfh ^ 1)) continue;          // self-adjacent through this very face: excluded here
      v_assert(m.adjacent_halfface_in_cell(HFH(hfh), HEH(he)).idx() == g, "C09 adjacent_halfface_in_cell == the unique other halfface of the cell at the edge");
      // legacy orientation: accepted when hfh does not also contain the opposite halfedge
      if (snap_count_he_in_hf(s, hfh, he ^ 1) == 0)
        v_assert(m.adjacent_halfface_in_cell(HFH(hfh), HEH(he ^ 1)).idx() == g, "C09 adjacent_halfface_in_cell accepts either halfedge orientation when unambiguous");
      v_assert(m.adjacent_halfface_in_cell(HFH(g), HEH(he ^ 1)).idx() == hfh, "C09 adjacent_halfface_in_cell applied twice returns the start");
    }
  }
}

static __attribute__((noinline)) void do_case(unsigned i) {
  unsigned base = v_param(0), mode = v_param(1), op = v_param(2), chunk = v_param(3), pre = v_param(4), pre_idx = v_param(5);
  TopologyKernel m;
  set_mode(m, mode);
  build_base(m, base);
  unsigned a, b;
  if (pre != OP_NONE) {
    if (pre_idx >= op_arity_count(m, pre)) { v_witness("C09 pre-op outside argument space"); return; }
    op_decode(m, pre, pre_idx, a, b);
    if (!op_valid(m, pre, a, b)) { v_witness("C09 pre-op invalid"); return; }
    apply_op(m, pre, a, b);
  }
  if (op != OP_NONE) {
    unsigned idx = chunk * NCASES + i;
    if (idx >= op_arity_count(m, op)) { v_witness("C09 case outside the op's argument space"); return; }
    op_decode(m, op, idx, a, b);
    if (!op_valid(m, op, a, b)) { v_witness("C09 case with invalid argument"); return; }
    apply_op(m, op, a, b);
  } else if (i != 0) { v_witness("C09 single case"); return; }
  check_rotation(m);
  v_witness("C09 case end");
}

extern "C" void harness_c09() {
  unsigned sel = v_nondet_u32();
  v_assume(sel < NCASES);
  dispatch<CaseW, NCASES>(sel);
}
