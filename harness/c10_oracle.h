// C10: lookup queries compared with a brute-force search over the stored definitions (snapshot), under the
// contract documented in TopologyKernel.hh.  The handle that selects the container a lookup iterates ("centre") is
// enumerated over its whole range by a concrete loop; every other argument is a FREE symbolic value (see check_lookups).
// All oracle loops run over concrete candidates (entity counts / valences of concrete entities); only the compared
// argument values and the returned handle are symbolic.
#pragma once
#include "mesh_common.h"

// lookup groups (bitmask)
enum { G_HE = 1, G_HE_CELL = 2, G_HF_HES = 4, G_HF_VS = 8, G_HF_EXT = 16, G_HF_CELL = 32, G_HFV = 64, G_INC = 128, G_NVC = 256, G_ALL = 511 };

static inline int c10_below(int n) { unsigned x = v_nondet_u32(); v_assume(x < (unsigned)n); return (int)x; }

// ---- brute force on the snapshot -------------------------------------------------------------------------------
// Every candidate entity is enumerated by a concrete loop, so the tables below are indexed concretely; only the
// compared ARGUMENT values are symbolic.
static int c10_hfn[2 * MAXF];            // valence of halfface g
static int c10_hfv[2 * MAXF][MAXFV];     // k-th vertex of halfface g (start vertex of its k-th halfedge, in g's orientation)
static void c10_tables(const Snap &s) {
  for (int g = 0; g < 2 * s.nF; ++g) {
    c10_hfn[g] = s.fval[g >> 1];
    for (int k = 0; k < s.fval[g >> 1]; ++k) c10_hfv[g][k] = snap_he_from(s, snap_hf_he(s, g, k));
  }
}
// halfface g lists halfedge he
static inline bool c10_hf_has_he(const Snap &s, int g, int he) {
  bool r = false;
  for (int k = 0; k < c10_hfn[g]; ++k) if (snap_hf_he(s, g, k) == he) r = true;
  return r;
}
// a, b, c are three consecutive vertices of halfface g (in its orientation)
static inline bool c10_hf_consec(int g, int a, int b, int c) {
  const int n = c10_hfn[g];
  bool r = false;
  if (n >= 3) for (int k = 0; k < n; ++k) if (c10_hfv[g][k] == a && c10_hfv[g][(k + 1) % n] == b && c10_hfv[g][(k + 2) % n] == c) r = true;
  return r;
}
// the vertex cycle of halfface g, read from some occurrence of vs[0], is exactly vs[0..n)
static inline bool c10_hf_equals(int g, const int *vs, int n) {
  if (c10_hfn[g] != n) return false;
  bool r = false;
  for (int o = 0; o < n; ++o) {
    bool all = true;
    for (int i = 0; i < n; ++i) if (c10_hfv[g][(i + o) % n] != vs[i]) all = false;
    if (all) r = true;
  }
  return r;
}
static inline bool c10_hf_has_vertex(int g, int v) {
  bool r = false;
  for (int k = 0; k < c10_hfn[g]; ++k) if (c10_hfv[g][k] == v) r = true;
  return r;
}

static inline std::vector<VH> c10_vs(const int *vs, int n) { std::vector<VH> v; v.reserve((size_t)n); for (int i = 0; i < n; ++i) v.push_back(VH(vs[i])); return v; }

// result r of get_halfface_vertices for (concrete) halfface g: one vertex per halfedge, the vertex cycle of g in g's orientation
// (any rotation of the stored order), and -- if a start vertex was requested (start >= 0, a vertex of g) -- starting there.
#define C10_HFV(r, g, start, NAME) do { const int n_ = s.fval[(g) >> 1]; \
    v_assert((int)(r).size() == n_, "C10 " NAME ": one vertex per halfedge of the halfface"); \
    if ((int)(r).size() == n_) { int rv_[MAXFV]; for (int i_ = 0; i_ < MAXFV; ++i_) rv_[i_] = (i_ < n_) ? (r)[(size_t)i_].idx() : -1; \
      v_assert(c10_hf_equals((g), rv_, n_), "C10 " NAME ": the vertices of the halfface in its cyclic order and orientation"); \
      if ((start) >= 0) v_assert(rv_[0] == (start), "C10 " NAME ": the list starts at the requested vertex"); } } while (0)

// ---- result checks --------------------------------------------------------------------------------------------------
// r = returned handle index (possibly symbolic).  x enumerates all candidate handles 0..N-1 (concrete loop), PRED (over x) is the
// brute-force predicate "x is live and satisfies the request" -> soundness: r valid => r is one of the satisfying
// candidates; completeness: r valid <=> some candidate satisfies; else exactly the invalid handle (-1).
#define C10_RESULT(r, N, x, PRED, NAME) do { bool ex_ = false, sound_ = false; \
    for (int x = 0; x < (N); ++x) if (PRED) { ex_ = true; if ((r) == x) sound_ = true; } \
    v_assert((r) < 0 || sound_, "C10 " NAME ": a returned valid handle is a live entity satisfying the request (soundness)"); \
    v_assert(((r) >= 0) == ex_, "C10 " NAME ": a valid handle is returned iff brute force over the stored definitions finds one (completeness)"); \
    v_assert((r) >= -1, "C10 " NAME ": otherwise exactly the invalid handle"); } while (0)

// Measured: a lookup whose loop runs over a container selected by a SYMBOLIC handle and copies a per-element vector
// inside (halfface(hf) by value, Face copies) gives no verdict in 300 s even on one tet.  Therefore the handle that selects
// the container ("centre": cell, first halfedge, first two vertices, halfface, face) is ENUMERATED over its whole range
// by a concrete loop, and every other argument stays a free symbolic value (one fresh value per enumerated centre).
static void check_lookups(const TopologyKernel &m, unsigned groups) {
  Snap s; take_snapshot(m, s);
  if (s.overflow) return;
  const int nHE = 2 * s.nE, nHF = 2 * s.nF;
  c10_tables(s);

  // find_halfedge(v1, v2): "Get halfedge from vertex _vh1 to _vh2"            [v1, v2 symbolic]
  if ((groups & G_HE) && s.nV > 0) {
    int a = c10_below(s.nV), b = c10_below(s.nV);
    int r = m.find_halfedge(VH(a), VH(b)).idx();
    C10_RESULT(r, nHE, h, !s.edel[h >> 1] && snap_he_from(s, h) == a && snap_he_to(s, h) == b, "find_halfedge(v1,v2) [live halfedge v1->v2]");
  }
  // find_halfedge_in_cell(v1, v2, c): "... restricted to halfedges of cell _ch"   [c enumerated (live), v1, v2 symbolic]
  if ((groups & G_HE_CELL) && s.nV > 0) {
    for (int c = 0; c < s.nC; ++c) if (!s.cdel[c]) {
      int a = c10_below(s.nV), b = c10_below(s.nV);
      int r = m.find_halfedge_in_cell(VH(a), VH(b), CH(c)).idx();
      C10_RESULT(r, nHE, h, !s.edel[h >> 1] && snap_he_from(s, h) == a && snap_he_to(s, h) == b && snap_cell_has_edge(s, c, h >> 1), "find_halfedge_in_cell(v1,v2,c) [live halfedge v1->v2 whose edge belongs to a face of c]");
    }
  }
  // find_halfface(halfedges): "Only the first two half-edges are checked"      [he0 enumerated, he1, he2 symbolic]
  if ((groups & G_HF_HES) && nHE > 0) {
    for (int h0 = 0; h0 < nHE; ++h0) {
      int h1 = c10_below(nHE), h2 = c10_below(nHE);
      int r = m.find_halfface(vec2(HEH(h0), HEH(h1))).idx();
      C10_RESULT(r, nHF, g, !s.fdel[g >> 1] && c10_hf_has_he(s, g, h0) && c10_hf_has_he(s, g, h1), "find_halfface({he0,he1}) [live halfface listing he0 and he1]");
      int r3 = m.find_halfface(vec3(HEH(h0), HEH(h1), HEH(h2))).idx();   // only the first two are checked
      C10_RESULT(r3, nHF, g, !s.fdel[g >> 1] && c10_hf_has_he(s, g, h0) && c10_hf_has_he(s, g, h1), "find_halfface({he0,he1,he2}) [live halfface listing he0 and he1; he2 not checked]");
    }
  }
  // find_halfface(vertices): "(in connected order); only the first three vertices are checked"   [v0, v1 enumerated, v2, v3 symbolic]
  // find_halfface_extensive(vertices): "All vertices are checked"                                 [v0, v1 enumerated, v2..v4 symbolic]
  if ((groups & (G_HF_VS | G_HF_EXT)) && s.nV > 0) {
    for (int v0 = 0; v0 < s.nV; ++v0) for (int v1 = 0; v1 < s.nV; ++v1) {
      int vs[5]; vs[0] = v0; vs[1] = v1; for (int i = 2; i < 5; ++i) vs[i] = c10_below(s.nV);
      if (groups & G_HF_VS) {
        int r = m.find_halfface(c10_vs(vs, 3)).idx();
        C10_RESULT(r, nHF, g, !s.fdel[g >> 1] && c10_hf_consec(g, vs[0], vs[1], vs[2]), "find_halfface({v0,v1,v2}) [live halfface with v0,v1,v2 as consecutive vertices]");
        int r4 = m.find_halfface(c10_vs(vs, 4)).idx();
        C10_RESULT(r4, nHF, g, !s.fdel[g >> 1] && c10_hf_consec(g, vs[0], vs[1], vs[2]), "find_halfface({v0,v1,v2,v3}) [live halfface with v0,v1,v2 as consecutive vertices; v3 not checked]");
      }
      if (groups & G_HF_EXT) {
        int r3 = m.find_halfface_extensive(c10_vs(vs, 3)).idx();
        C10_RESULT(r3, nHF, g, !s.fdel[g >> 1] && c10_hf_equals(g, vs, 3), "find_halfface_extensive(3 vertices) [live halfface whose vertex cycle from v0 is exactly the list]");
        int r4 = m.find_halfface_extensive(c10_vs(vs, 4)).idx();
        C10_RESULT(r4, nHF, g, !s.fdel[g >> 1] && c10_hf_equals(g, vs, 4), "find_halfface_extensive(4 vertices) [live halfface whose vertex cycle from v0 is exactly the list]");
        int r5 = m.find_halfface_extensive(c10_vs(vs, 5)).idx();
        C10_RESULT(r5, nHF, g, !s.fdel[g >> 1] && c10_hf_equals(g, vs, 5), "find_halfface_extensive(5 vertices) [live halfface whose vertex cycle from v0 is exactly the list]");
      }
    }
  }
  // find_halfface_in_cell(vertices, c): first three vertices, restricted to the halffaces of the (live, closed) cell   [c enumerated, v0..v3 symbolic]
  if ((groups & G_HF_CELL) && s.nV > 0) {
    for (int c = 0; c < s.nC; ++c) if (!s.cdel[c]) {
      int vs[4]; for (int i = 0; i < 4; ++i) vs[i] = c10_below(s.nV);
      int r = m.find_halfface_in_cell(c10_vs(vs, 3), CH(c)).idx();
      C10_RESULT(r, nHF, g, !s.fdel[g >> 1] && snap_cell_has_hf(s, c, g) && c10_hf_consec(g, vs[0], vs[1], vs[2]), "find_halfface_in_cell({v0,v1,v2},c) [halfface of c with v0,v1,v2 as consecutive vertices]");
      int r4 = m.find_halfface_in_cell(c10_vs(vs, 4), CH(c)).idx();
      C10_RESULT(r4, nHF, g, !s.fdel[g >> 1] && snap_cell_has_hf(s, c, g) && c10_hf_consec(g, vs[0], vs[1], vs[2]), "find_halfface_in_cell({v0,v1,v2,v3},c) [halfface of c with v0,v1,v2 as consecutive vertices; v3 not checked]");
    }
  }
  // get_halfface_vertices x3   [halfface enumerated (live), start vertex / start halfedge symbolic]
  if ((groups & G_HFV) && nHF > 0) {
    for (int g = 0; g < nHF; ++g) if (!s.fdel[g >> 1]) {
      { std::vector<VH> r = m.get_halfface_vertices(HFH(g)); C10_HFV(r, g, -1, "get_halfface_vertices(hf)"); }
      int v = c10_below(s.nV);
      if (c10_hf_has_vertex(g, v)) { std::vector<VH> r = m.get_halfface_vertices(HFH(g), VH(v)); C10_HFV(r, g, v, "get_halfface_vertices(hf,v)"); }
      int h = c10_below(nHE);
      int hv = snap_he_from(s, h);
      if (c10_hf_has_vertex(g, hv)) { std::vector<VH> r = m.get_halfface_vertices(HFH(g), HEH(h)); C10_HFV(r, g, hv, "get_halfface_vertices(hf,he)"); }
    }
  }
  // is_incident(face, edge)   [face enumerated (Face copied by value inside), edge symbolic]
  if ((groups & G_INC) && s.nE > 0) {
    for (int f = 0; f < s.nF; ++f) {
      int e = c10_below(s.nE);
      v_assert(m.is_incident(FH(f), EH(e)) == snap_face_has_edge(s, f, e), "C10 is_incident(f,e) iff the face lists a halfedge of the edge");
    }
  }
  // n_vertices_in_cell(c)   [cell enumerated (std::set inside), live]
  if ((groups & G_NVC)) {
    for (int c = 0; c < s.nC; ++c) if (!s.cdel[c]) {
      int cnt = 0;
      for (int v = 0; v < s.nV; ++v) if (snap_cell_has_vertex(s, c, v)) ++cnt;
      v_assert((int)m.n_vertices_in_cell(CH(c)) == cnt, "C10 n_vertices_in_cell == number of distinct vertices of the cell's faces");
    }
  }
}
