// C10: lookup queries compared with a brute-force search over the stored definitions (snapshot), under the
// contract documented in TopologyKernel.hh.  Argument tuples are FREE symbolic values (the lookups only read).
// Oracle loops over entities run to the (concrete) entity counts; loops over the valence of a SYMBOLIC face/cell have
// constant bounds + guards (HARNESS_GUIDE rule 3).
#pragma once
#include "mesh_common.h"

// lookup groups (bitmask)
enum { G_HE = 1, G_HE_CELL = 2, G_HF_HES = 4, G_HF_VS = 8, G_HF_EXT = 16, G_HF_CELL = 32, G_HFV = 64, G_INC = 128, G_NVC = 256, G_ALL = 511 };

static inline int c10_below(int n) { unsigned x = v_nondet_u32(); v_assume(x < (unsigned)n); return (int)x; }

// ---- brute force on the snapshot -------------------------------------------------------------------------------
// k-th vertex of halfface g (= start vertex of its k-th halfedge)
static inline int c10_hf_vertex(const Snap &s, int g, int k) { return snap_he_from(s, snap_hf_he(s, g, k)); }
static inline bool c10_live_he(const Snap &s, int h) { return h >= 0 && h < 2 * s.nE && !s.edel[h >> 1]; }
static inline bool c10_live_hf(const Snap &s, int g) { return g >= 0 && g < 2 * s.nF && !s.fdel[g >> 1]; }
// some live halfedge a -> b exists
static inline bool c10_exists_he(const Snap &s, int a, int b) {
  bool r = false;
  for (int h = 0; h < 2 * s.nE; ++h) if (!s.edel[h >> 1] && snap_he_from(s, h) == a && snap_he_to(s, h) == b) r = true;
  return r;
}
// some halfedge a -> b whose edge belongs to a face of cell c
static inline bool c10_exists_he_in_cell(const Snap &s, int a, int b, int c) {
  bool r = false;
  for (int h = 0; h < 2 * s.nE; ++h) if (snap_he_from(s, h) == a && snap_he_to(s, h) == b && snap_cell_has_edge(s, c, h >> 1)) r = true;
  return r;
}
// halfface g lists halfedge he
static inline bool c10_hf_has_he(const Snap &s, int g, int he) { return snap_count_he_in_hf(s, g, he) > 0; }
// a, b, c are three consecutive vertices of halfface g (in its orientation)
static inline bool c10_hf_consec(const Snap &s, int g, int a, int b, int c) {
  const int n = s.fval[g >> 1];
  bool r = false;
  for (int k = 0; k < MAXFV; ++k) if (k < n) {
    int k1 = (k + 1 >= n) ? k + 1 - n : k + 1, k2 = (k + 2 >= n) ? k + 2 - n : k + 2;
    if (n >= 3 && c10_hf_vertex(s, g, k) == a && c10_hf_vertex(s, g, k1) == b && c10_hf_vertex(s, g, k2) == c) r = true;
  }
  return r;
}
// the vertex cycle of halfface g, started at its (some) occurrence of vs[0], is exactly vs[0..n)
static inline bool c10_hf_equals(const Snap &s, int g, const int *vs, int n) {
  if (s.fval[g >> 1] != n) return false;
  bool r = false;
  for (int o = 0; o < MAXFV; ++o) if (o < n) {
    bool all = true;
    for (int i = 0; i < MAXFV; ++i) if (i < n) { int k = i + o; if (k >= n) k -= n; if (c10_hf_vertex(s, g, k) != vs[i]) all = false; }
    if (all) r = true;
  }
  return r;
}
static inline bool c10_hf_has_vertex(const Snap &s, int g, int v) {
  bool r = false;
  for (int k = 0; k < MAXFV; ++k) if (k < s.fval[g >> 1] && c10_hf_vertex(s, g, k) == v) r = true;
  return r;
}

static inline std::vector<VH> c10_vs(const int *vs, int n) { std::vector<VH> v; v.reserve((size_t)n); for (int i = 0; i < n; ++i) v.push_back(VH(vs[i])); return v; }

// result of get_halfface_vertices: the vertex cycle of g; `start` = required first vertex (-1: any rotation)
static inline void c10_check_hfv(const Snap &s, const std::vector<VH> &r, int g, int start, const char *msg_size, const char *msg_cycle, const char *msg_start) {
  const int n = s.fval[g >> 1];
  v_assert((int)r.size() == n, msg_size);
  if ((int)r.size() != n) return;
  int rv[MAXFV];
  for (int i = 0; i < MAXFV; ++i) rv[i] = (i < n) ? r[(size_t)i].idx() : -1;
  v_assert(c10_hf_equals(s, g, rv, n), msg_cycle);
  if (start >= 0) v_assert(rv[0] == start, msg_start);
}

// ---- the checks -------------------------------------------------------------------------------------------------
static void check_lookups(const TopologyKernel &m, unsigned groups) {
  Snap s; take_snapshot(m, s);
  if (s.overflow) return;
  const int nHE = 2 * s.nE, nHF = 2 * s.nF;

  // find_halfedge(v1, v2): "Get halfedge from vertex _vh1 to _vh2"
  if ((groups & G_HE) && s.nV > 0) {
    int a = c10_below(s.nV), b = c10_below(s.nV);
    int r = m.find_halfedge(VH(a), VH(b)).idx();
    if (r >= 0) v_assert(c10_live_he(s, r) && snap_he_from(s, r) == a && snap_he_to(s, r) == b, "C10 find_halfedge: a returned halfedge is live and runs from v1 to v2");
    v_assert((r >= 0) == c10_exists_he(s, a, b), "C10 find_halfedge: valid iff some live halfedge v1->v2 exists");
    v_assert(r >= -1, "C10 find_halfedge: otherwise the invalid handle");
  }
  // find_halfedge_in_cell(v1, v2, c): "... restricted to halfedges of cell _ch" (c live)
  if ((groups & G_HE_CELL) && s.nV > 0 && s.nC > 0) {
    int a = c10_below(s.nV), b = c10_below(s.nV), c = c10_below(s.nC);
    if (!s.cdel[c]) {
      int r = m.find_halfedge_in_cell(VH(a), VH(b), CH(c)).idx();
      if (r >= 0) v_assert(c10_live_he(s, r) && snap_he_from(s, r) == a && snap_he_to(s, r) == b && snap_cell_has_edge(s, c, r >> 1), "C10 find_halfedge_in_cell: a returned halfedge is live, runs from v1 to v2 and its edge belongs to the cell");
      v_assert((r >= 0) == c10_exists_he_in_cell(s, a, b, c), "C10 find_halfedge_in_cell: valid iff some halfedge v1->v2 of the cell exists");
      v_assert(r >= -1, "C10 find_halfedge_in_cell: otherwise the invalid handle");
    }
  }
  // find_halfface(halfedges): "Only the first two half-edges are checked"
  if ((groups & G_HF_HES) && nHE > 0) {
    int h0 = c10_below(nHE), h1 = c10_below(nHE), h2 = c10_below(nHE);
    bool ex = false;
    for (int g = 0; g < nHF; ++g) if (!s.fdel[g >> 1] && c10_hf_has_he(s, g, h0) && c10_hf_has_he(s, g, h1)) ex = true;
    int r = m.find_halfface(vec2(HEH(h0), HEH(h1))).idx();
    if (r >= 0) v_assert(c10_live_hf(s, r) && c10_hf_has_he(s, r, h0) && c10_hf_has_he(s, r, h1), "C10 find_halfface(halfedges): a returned halfface is live and lists both halfedges");
    v_assert((r >= 0) == ex, "C10 find_halfface(halfedges): valid iff some live halfface lists both halfedges");
    v_assert(r >= -1, "C10 find_halfface(halfedges): otherwise the invalid handle");
    // longer list: only the first two are checked
    int r3 = m.find_halfface(vec3(HEH(h0), HEH(h1), HEH(h2))).idx();
    if (r3 >= 0) v_assert(c10_live_hf(s, r3) && c10_hf_has_he(s, r3, h0) && c10_hf_has_he(s, r3, h1), "C10 find_halfface(3 halfedges): a returned halfface is live and lists the first two halfedges");
    v_assert((r3 >= 0) == ex, "C10 find_halfface(3 halfedges): valid iff some live halfface lists the first two halfedges");
  }
  // find_halfface(vertices): "list of incident vertices (in connected order); only the first three vertices are checked"
  if ((groups & G_HF_VS) && s.nV > 0) {
    int vs[4]; for (int i = 0; i < 4; ++i) vs[i] = c10_below(s.nV);
    bool ex = false;
    for (int g = 0; g < nHF; ++g) if (!s.fdel[g >> 1] && c10_hf_consec(s, g, vs[0], vs[1], vs[2])) ex = true;
    int r = m.find_halfface(c10_vs(vs, 3)).idx();
    if (r >= 0) v_assert(c10_live_hf(s, r) && c10_hf_consec(s, r, vs[0], vs[1], vs[2]), "C10 find_halfface(vertices): a returned halfface is live and has v0,v1,v2 as consecutive vertices");
    v_assert((r >= 0) == ex, "C10 find_halfface(vertices): valid iff some live halfface has v0,v1,v2 as consecutive vertices");
    v_assert(r >= -1, "C10 find_halfface(vertices): otherwise the invalid handle");
    int r4 = m.find_halfface(c10_vs(vs, 4)).idx();
    if (r4 >= 0) v_assert(c10_live_hf(s, r4) && c10_hf_consec(s, r4, vs[0], vs[1], vs[2]), "C10 find_halfface(4 vertices): a returned halfface is live and has v0,v1,v2 as consecutive vertices");
    v_assert((r4 >= 0) == ex, "C10 find_halfface(4 vertices): valid iff some live halfface has the first three as consecutive vertices");
  }
  // find_halfface_extensive(vertices): "All vertices are checked"
  if ((groups & G_HF_EXT) && s.nV > 0) {
    int vs[5]; for (int i = 0; i < 5; ++i) vs[i] = c10_below(s.nV);
    for (int n = 3; n <= 5; ++n) {
      bool ex = false;
      for (int g = 0; g < nHF; ++g) if (!s.fdel[g >> 1] && c10_hf_equals(s, g, vs, n)) ex = true;
      int r = m.find_halfface_extensive(c10_vs(vs, n)).idx();
      if (r >= 0) v_assert(c10_live_hf(s, r) && c10_hf_equals(s, r, vs, n), "C10 find_halfface_extensive: a returned halfface is live and its vertex cycle from v0 equals the list");
      v_assert((r >= 0) == ex, "C10 find_halfface_extensive: valid iff some live halfface has exactly this vertex cycle");
      v_assert(r >= -1, "C10 find_halfface_extensive: otherwise the invalid handle");
    }
  }
  // find_halfface_in_cell(vertices, c): first three vertices, restricted to the halffaces of the (live, closed) cell
  if ((groups & G_HF_CELL) && s.nV > 0 && s.nC > 0) {
    int vs[4]; for (int i = 0; i < 4; ++i) vs[i] = c10_below(s.nV);
    int c = c10_below(s.nC);
    if (!s.cdel[c]) {
      bool ex = false;
      for (int k = 0; k < MAXCV; ++k) if (k < s.cval[c] && c10_hf_consec(s, s.chf[c][k], vs[0], vs[1], vs[2])) ex = true;
      int r = m.find_halfface_in_cell(c10_vs(vs, 3), CH(c)).idx();
      if (r >= 0) v_assert(c10_live_hf(s, r) && snap_cell_has_hf(s, c, r) && c10_hf_consec(s, r, vs[0], vs[1], vs[2]), "C10 find_halfface_in_cell: a returned halfface is live, belongs to the cell and has v0,v1,v2 as consecutive vertices");
      v_assert((r >= 0) == ex, "C10 find_halfface_in_cell: valid iff some halfface of the cell has v0,v1,v2 as consecutive vertices");
      v_assert(r >= -1, "C10 find_halfface_in_cell: otherwise the invalid handle");
      int r4 = m.find_halfface_in_cell(c10_vs(vs, 4), CH(c)).idx();
      if (r4 >= 0) v_assert(c10_live_hf(s, r4) && snap_cell_has_hf(s, c, r4) && c10_hf_consec(s, r4, vs[0], vs[1], vs[2]), "C10 find_halfface_in_cell(4 vertices): a returned halfface is live, belongs to the cell and has v0,v1,v2 as consecutive vertices");
      v_assert((r4 >= 0) == ex, "C10 find_halfface_in_cell(4 vertices): valid iff some halfface of the cell has the first three as consecutive vertices");
    }
  }
  // get_halfface_vertices x3 (hfh live)
  if ((groups & G_HFV) && nHF > 0) {
    int g = c10_below(nHF);
    if (!s.fdel[g >> 1]) {
      c10_check_hfv(s, m.get_halfface_vertices(HFH(g)), g, -1, "C10 get_halfface_vertices(hf): one vertex per halfedge", "C10 get_halfface_vertices(hf): the vertex cycle of the halfface in its orientation", "");
      int v = c10_below(s.nV);
      if (c10_hf_has_vertex(s, g, v))
        c10_check_hfv(s, m.get_halfface_vertices(HFH(g), VH(v)), g, v, "C10 get_halfface_vertices(hf,v): one vertex per halfedge", "C10 get_halfface_vertices(hf,v): the vertex cycle of the halfface in its orientation", "C10 get_halfface_vertices(hf,v): starts at v");
      int h = c10_below(nHE);
      int hv = snap_he_from(s, h);
      if (c10_hf_has_vertex(s, g, hv))
        c10_check_hfv(s, m.get_halfface_vertices(HFH(g), HEH(h)), g, hv, "C10 get_halfface_vertices(hf,he): one vertex per halfedge", "C10 get_halfface_vertices(hf,he): the vertex cycle of the halfface in its orientation", "C10 get_halfface_vertices(hf,he): starts at from_vertex(he)");
    }
  }
  // is_incident(face, edge)
  if ((groups & G_INC) && s.nF > 0 && s.nE > 0) {
    int f = c10_below(s.nF), e = c10_below(s.nE);
    v_assert(m.is_incident(FH(f), EH(e)) == snap_face_has_edge(s, f, e), "C10 is_incident(f,e) iff the face lists a halfedge of the edge");
  }
  // n_vertices_in_cell(c): cell enumerated (std::set inside), live
  if ((groups & G_NVC)) {
    for (int c = 0; c < s.nC; ++c) if (!s.cdel[c]) {
      int cnt = 0;
      for (int v = 0; v < s.nV; ++v) if (snap_cell_has_vertex(s, c, v)) ++cnt;
      v_assert((int)m.n_vertices_in_cell(CH(c)) == cnt, "C10 n_vertices_in_cell == number of distinct vertices of the cell's faces");
    }
  }
}
