// C14: property registry -- sharing by name, visibility, persistence and lifetime safety.
// A history of K+1 registry operations (K = v_param(0) in 0..2 prefix operations given by v_param(1), v_param(2); the LAST operation is
// chosen by a symbolic selector over a chunk (v_param(3)) of the full operation alphabet, see c14_ops.h) runs on a tiny mesh
// (v_param(4): 0 = 3 vertices / 0 cells, 1 = one tetrahedron) and, step by step, on a reference registry (plain arrays of records,
// written from the doc comments of ResourceManager.hh and the property text).  After every step: n_props / n_persistent_props per entity
// kind, property_exists for every (name, type, entity) combination, flags / name / attachment / size / contents (symbolic probe index) of
// every handle the harness holds, identity of returned handles (a symbolic value written through the handle obtained in this step must be
// visible through exactly the handles the reference maps to the same record), "throws exactly when the reference says so, and then
// nothing changed", and the invariant of the property text (persistent => shared => named and unique).
// Memory safety of the Tracker/Tracked back-pointer protocol is checked by CBMC's pointer checks over all of this (checks="mem"),
// including mesh destruction before the handles are dropped and the final teardown.
#include "c14_ops.h"

static void do_case(unsigned i) {
#ifdef C14_ONLY
  if (i != C14_ONLY) return;   // development only
#endif
  v_alloc_order_reset();
  const unsigned K = v_param(0), p1 = v_param(1), p2 = v_param(2), chunk = v_param(3), base = v_param(4);
  const unsigned idx = chunk * C14_CASES + i;
  if (idx >= C14_NOPS) return;
  const unsigned last = c14_op_at(idx);
  if (last == OPC_PAD) return;
  Real r;
  r.m.emplace();
  if (base == 1) build_base(*r.m, B_TET); else r.m->add_n_vertices(3);
  ref_init((int)r.m->n_vertices(), (int)r.m->n_cells());
  unsigned step = 0;
  if (K >= 1) { if (!apply_step(r, p1, step, false)) return; ++step; }
  if (K >= 2) { if (!apply_step(r, p2, step, false)) return; ++step; }
  if (!apply_step(r, last, step, true)) return;
  if (g_last_threw) v_witness("C14 history ends in a rejected (throwing) transition");
  else v_witness("C14 history completed");
  teardown(r);
  v_witness("C14 teardown done");
}

extern "C" void harness_c14() {
  unsigned sel = v_nondet_u32();
  v_assume(sel < C14_CASES);
#ifdef C14_LIMIT
  v_assume(sel < C14_LIMIT);   // development only
#endif
  dispatch<Case, C14_CASES>(sel);
}
