// C12: bottom-up incidences are optional.  A mesh with a subset of the three incidence kinds disabled (before or after the
// base is built) receives the same operation history as a fully enabled twin: definitions, counts and flags stay equal, every
// access is memory-safe (CBMC pointer/bounds checks), circulators needing a disabled kind are invalid, and after re-enabling
// the sub mesh satisfies the C01 oracle again.
// shard params: 0 base, 1 deletion mode, 2 op, 3 chunk, 4 pre-op, 5 pre-op argument index, 7 disabled kinds (bit0 V, bit1 E, bit2 F; bit3: disabled before building).
#include "ops.h"
#include "refmodel.h"
#include "oracle_bu.h"
#ifndef NCASES
#define NCASES 2
#endif

static bool run_op(TopologyKernel &ma, TopologyKernel &ms, unsigned op, unsigned idx) {
  unsigned a, b;
  if (idx >= op_arity_count(ma, op)) return false;
  op_decode(ma, op, idx, a, b);
  if (!op_valid(ma, op, a, b)) return false;
  apply_op(ma, op, a, b);
  apply_op(ms, op, a, b);
  return true;
}

static __attribute__((noinline)) void do_case(unsigned i) {
  unsigned base = v_param(0), mode = v_param(1), op = v_param(2), chunk = v_param(3), pre = v_param(4), pre_idx = v_param(5), sub = v_param(7);
  TopologyKernel ma, ms;
  set_mode(ma, mode); set_mode(ms, mode);
  if (sub & 8) apply_op(ms, OP_BU_OFF, sub & 7, 0);
  build_base(ma, base); build_base(ms, base);
  if (!(sub & 8)) apply_op(ms, OP_BU_OFF, sub & 7, 0);
  if (pre != OP_NONE && !run_op(ma, ms, pre, pre_idx)) { v_witness("C12 pre-op not applicable"); return; }
  if (!run_op(ma, ms, op, chunk * NCASES + i)) { v_witness("C12 case outside the op's argument space"); return; }
  Snap sa, ss; take_snapshot(ma, sa); take_snapshot(ms, ss);
  if (sa.overflow) return;
  assert_snap_matches(ss, sa, "C12 same entity counts with bottom-up incidences disabled", "C12 same vertex flags", "C12 same edge definitions", "C12 same face definitions", "C12 same cell definitions");
  v_assert(ms.n_logical_vertices() == ma.n_logical_vertices() && ms.n_logical_edges() == ma.n_logical_edges() && ms.n_logical_faces() == ma.n_logical_faces() &&
           ms.n_logical_cells() == ma.n_logical_cells() && ms.needs_garbage_collection() == ma.needs_garbage_collection(), "C12 same logical counts / gc flag");
  v_assert(ms.has_vertex_bottom_up_incidences() == !(sub & 1) && ms.has_edge_bottom_up_incidences() == !(sub & 2) && ms.has_face_bottom_up_incidences() == !(sub & 4), "C12 operations do not switch incidences back on");
  // circulators that need a disabled kind are invalid (never dereference an emptied cache)
  if (ss.nV > 0) {
    VH v(0);
    if (sub & 1) v_assert(!ms.voh_iter(v).valid() && !ms.vih_iter(v).valid() && !ms.vv_iter(v).valid() && !ms.ve_iter(v).valid(), "C12 vertex circulators invalid without vertex bottom-up incidences");
    if (sub & 7) v_assert(!ms.vf_iter(v).valid() && !ms.vc_iter(v).valid(), "C12 vertex->face/cell circulators invalid without full bottom-up incidences");
  }
  if (ss.nE > 0) {
    HEH h(0);
    if (sub & 2) v_assert(!ms.hehf_iter(h).valid() && !ms.hef_iter(h).valid() && !ms.ehf_iter(EH(0)).valid() && !ms.ef_iter(EH(0)).valid(), "C12 edge circulators invalid without edge bottom-up incidences");
    if (sub & 6) v_assert(!ms.hec_iter(h).valid() && !ms.ec_iter(EH(0)).valid(), "C12 edge->cell circulators invalid without edge+face bottom-up incidences");
  }
  if (ss.nC > 0 && (sub & 4)) v_assert(!ms.cc_iter(CH(0)).valid(), "C12 cell->cell circulator invalid without face bottom-up incidences");
  // transparent to re-enable
  ms.enable_bottom_up_incidences(true);
  check_bottom_up(ms, 1);
  v_witness("C12 case end");
}

extern "C" void harness_c12() {
  unsigned sel = v_nondet_u32();
  v_assume(sel < NCASES);
  dispatch<CaseW, NCASES>(sel);
}
