// C05 reference incident sequences, computed by brute force from the snapshot of the stored top-down definitions
// (mesh_common.h: Snap).  Centres are concrete here (enumerated by the harness), so plain loops are fine.
// Each function fills r[] and returns the length.  "ordered" families follow the stored halfedge order of the face
// (side 1: reversed list of opposite halfedges); all others are compared as multisets (a set relation therefore
// has every element exactly once in the reference).
#pragma once
#include "mesh_common.h"

enum { C05_MAXSEQ = 40 };
enum Fam { F_VV = 0, F_VOH, F_VIH, F_VE, F_VF, F_VHF, F_VC,
           F_HEHF, F_HEF, F_HEC, F_EHF, F_EF, F_EC,
           F_HFHE, F_HFE, F_HFV, F_FV, F_FHE, F_FE, F_BHFHF,
           F_CV, F_CHE, F_CE, F_CHF, F_CF, F_CC, N_FAM };

struct RefSeq { int n; int h[C05_MAXSEQ]; bool overflow; };
static inline void ref_push(RefSeq &r, int x) { if (r.n < C05_MAXSEQ) r.h[r.n++] = x; else r.overflow = true; }
static inline bool ref_has(const RefSeq &r, int x) { for (int i = 0; i < r.n; ++i) if (r.h[i] == x) return true; return false; }
static inline void ref_push_unique(RefSeq &r, int x) { if (!ref_has(r, x)) ref_push(r, x); }

static inline bool live_he(const Snap &s, int he) { return !s.edel[he >> 1]; }
static inline bool live_hf(const Snap &s, int hf) { return !s.fdel[hf >> 1]; }

// ---- centre: vertex v (live)
static void ref_voh(const Snap &s, int v, RefSeq &r) { r.n = 0; r.overflow = false; for (int he = 0; he < 2 * s.nE; ++he) if (live_he(s, he) && snap_he_from(s, he) == v) ref_push(r, he); }
static void ref_vih(const Snap &s, int v, RefSeq &r) { r.n = 0; r.overflow = false; for (int he = 0; he < 2 * s.nE; ++he) if (live_he(s, he) && snap_he_to(s, he) == v) ref_push(r, he); }
static void ref_ve(const Snap &s, int v, RefSeq &r) { r.n = 0; r.overflow = false; for (int he = 0; he < 2 * s.nE; ++he) if (live_he(s, he) && snap_he_from(s, he) == v) ref_push(r, he >> 1); }
static void ref_vv(const Snap &s, int v, RefSeq &r) { r.n = 0; r.overflow = false; for (int he = 0; he < 2 * s.nE; ++he) if (live_he(s, he) && snap_he_from(s, he) == v) ref_push(r, snap_he_to(s, he)); }
static void ref_vf(const Snap &s, int v, RefSeq &r) { r.n = 0; r.overflow = false; for (int f = 0; f < s.nF; ++f) if (!s.fdel[f] && snap_face_has_vertex(s, f, v)) ref_push(r, f); }
static void ref_vhf(const Snap &s, int v, RefSeq &r) { r.n = 0; r.overflow = false; for (int f = 0; f < s.nF; ++f) if (!s.fdel[f] && snap_face_has_vertex(s, f, v)) { ref_push(r, 2 * f); ref_push(r, 2 * f + 1); } }
static void ref_vc(const Snap &s, int v, RefSeq &r) { r.n = 0; r.overflow = false; for (int c = 0; c < s.nC; ++c) if (!s.cdel[c] && snap_cell_has_vertex(s, c, v)) ref_push(r, c); }
// ---- centre: halfedge he (edge live) / edge e
static void ref_hehf(const Snap &s, int he, RefSeq &r) {
  r.n = 0; r.overflow = false;
  for (int g = 0; g < 2 * s.nF; ++g) if (live_hf(s, g)) { int c = snap_count_he_in_hf(s, g, he); for (int k = 0; k < c; ++k) ref_push(r, g); }
}
static void ref_hef(const Snap &s, int he, RefSeq &r) {
  r.n = 0; r.overflow = false;
  for (int f = 0; f < s.nF; ++f) if (!s.fdel[f] && (snap_count_he_in_hf(s, 2 * f, he) + snap_count_he_in_hf(s, 2 * f + 1, he)) > 0) ref_push(r, f);
}
static void ref_hec(const Snap &s, int he, RefSeq &r) {
  r.n = 0; r.overflow = false;
  for (int c = 0; c < s.nC; ++c) if (!s.cdel[c]) {
    bool in = false;
    for (int k = 0; k < s.cval[c]; ++k) if (live_hf(s, s.chf[c][k]) && snap_count_he_in_hf(s, s.chf[c][k], he) > 0) in = true;
    if (in) ref_push(r, c);
  }
}
static void ref_ehf(const Snap &s, int e, RefSeq &r) {
  r.n = 0; r.overflow = false;
  for (int g = 0; g < 2 * s.nF; ++g) if (live_hf(s, g)) {
    int c = snap_count_he_in_hf(s, g, 2 * e) + snap_count_he_in_hf(s, g ^ 1, 2 * e);
    for (int k = 0; k < c; ++k) ref_push(r, g);
  }
}
static void ref_ef(const Snap &s, int e, RefSeq &r) { ref_hef(s, 2 * e, r); }
static void ref_ec(const Snap &s, int e, RefSeq &r) { ref_hec(s, 2 * e, r); }
// ---- centre: halfface hf (face live) / face f
static void ref_hfhe(const Snap &s, int hfh, RefSeq &r) { r.n = 0; r.overflow = false; for (int k = 0; k < s.fval[hfh >> 1]; ++k) ref_push(r, snap_hf_he(s, hfh, k)); }
static void ref_hfv(const Snap &s, int hfh, RefSeq &r) { r.n = 0; r.overflow = false; for (int k = 0; k < s.fval[hfh >> 1]; ++k) ref_push(r, snap_he_from(s, snap_hf_he(s, hfh, k))); }
static void ref_hfe(const Snap &s, int hfh, RefSeq &r) { r.n = 0; r.overflow = false; for (int k = 0; k < s.fval[hfh >> 1]; ++k) ref_push(r, snap_hf_he(s, hfh, k) >> 1); }
static void ref_fv(const Snap &s, int f, RefSeq &r) { ref_hfv(s, 2 * f, r); }
static void ref_fhe(const Snap &s, int f, RefSeq &r) { ref_hfhe(s, 2 * f, r); }
static void ref_fe(const Snap &s, int f, RefSeq &r) { ref_hfe(s, 2 * f, r); }
// boundary halffaces sharing an edge with (boundary) halfface hfh: the live halffaces without incident cell that
// contain the opposite of one of hfh's halfedges, once per such halfedge
static int g_inc_cell[2 * MAXF];   // snap_incident_cell per halfface, filled once per snapshot by ref_prepare()
static void ref_prepare(const Snap &s) { for (int g = 0; g < 2 * s.nF; ++g) g_inc_cell[g] = snap_incident_cell(s, g); }
static void ref_bhfhf(const Snap &s, int hfh, RefSeq &r) {
  r.n = 0; r.overflow = false;
  for (int k = 0; k < s.fval[hfh >> 1]; ++k) {
    int opp = snap_hf_he(s, hfh, k) ^ 1;
    for (int g = 0; g < 2 * s.nF; ++g) if (live_hf(s, g) && g_inc_cell[g] == -1) {
      int c = snap_count_he_in_hf(s, g, opp);
      for (int q = 0; q < c; ++q) ref_push(r, g);
    }
  }
}
// ---- centre: cell c (live)
static void ref_chf(const Snap &s, int c, RefSeq &r) { r.n = 0; r.overflow = false; for (int k = 0; k < s.cval[c]; ++k) ref_push(r, s.chf[c][k]); }
static void ref_cf(const Snap &s, int c, RefSeq &r) { r.n = 0; r.overflow = false; for (int k = 0; k < s.cval[c]; ++k) ref_push(r, s.chf[c][k] >> 1); }
static void ref_che(const Snap &s, int c, RefSeq &r) {
  r.n = 0; r.overflow = false;
  for (int k = 0; k < s.cval[c]; ++k) for (int j = 0; j < s.fval[s.chf[c][k] >> 1]; ++j) ref_push(r, snap_hf_he(s, s.chf[c][k], j));
}
static void ref_ce(const Snap &s, int c, RefSeq &r) { r.n = 0; r.overflow = false; for (int e = 0; e < s.nE; ++e) if (snap_cell_has_edge(s, c, e)) ref_push(r, e); }
static void ref_cv(const Snap &s, int c, RefSeq &r) { r.n = 0; r.overflow = false; for (int v = 0; v < s.nV; ++v) if (snap_cell_has_vertex(s, c, v)) ref_push(r, v); }
static void ref_cc(const Snap &s, int c, RefSeq &r) {
  r.n = 0; r.overflow = false;
  for (int k = 0; k < s.cval[c]; ++k) { int d = g_inc_cell[s.chf[c][k] ^ 1]; if (d >= 0) ref_push_unique(r, d); }
}
