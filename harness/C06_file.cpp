// C06 (c): whole-file level of the OVMB round trip.
// The bytes the REAL writer produced (natively, from the current tree: gen/c18_files.inc via tools/gen_ovmb.cpp) for the
// meshes of c18_meshes.h are read back by the real reader through the public entry point IO::ovmb_read and compared with
// the mesh that was written (rebuilt here through the same builder): entity counts, every edge/face/cell definition handle
// for handle (take_snapshot), positions bit for bit, the persistent property (entity kind, name, type, default, values).
// SYMBOLIC part: the 12 position coordinates (arbitrary 64-bit patterns, NaN payloads included) and the 4 property values
// (arbitrary 32-bit patterns) are substituted into the payload bytes at the offsets the published layout gives
// (VERT chunk: 16-byte chunk header + 16-byte vertex header, little-endian doubles; PROP chunk: 16 + 16, little-endian i32),
// so the read-back comparison holds for every position / property value, not only for the ones the generator used.
// shard params: 0 = file (FM_EMPTY/FM_TET/FM_TETP), 1 = read options (bit0: topology_check off, bit1: bottom_up_incidences off)
#include "verif.h"
#include "c18_meshes.h"
#include "vstream.h"
#include "gen/c18_files.inc"
#include <OpenVolumeMesh/IO/ovmb_read.hh>
#include <OpenVolumeMesh/IO/PropertyCodecsT_impl.hh>
using namespace OpenVolumeMesh::IO;

enum { BUFCAP = 512 };
static uint8_t g_buf[BUFCAP];
static Snap g_a, g_b;

static void put_le(unsigned off, uint64_t v, unsigned n) { for (unsigned i = 0; i < 8; ++i) if (i < n) g_buf[off + i] = (uint8_t)(v >> (8 * i)); }

extern "C" void harness_roundtrip() {
  unsigned which = v_param(0), ro = v_param(1);
  const unsigned short *chunk_off = which == FM_TET ? F_TET_CHUNK_OFF : F_TETP_CHUNK_OFF;
  const unsigned char *chunk_kind = which == FM_TET ? F_TET_CHUNK_KIND : F_TETP_CHUNK_KIND;
  unsigned nchunks = which == FM_EMPTY ? (unsigned)F_EMPTY_NCHUNKS : which == FM_TET ? (unsigned)F_TET_NCHUNKS : (unsigned)F_TETP_NCHUNKS;
  unsigned len = which == FM_EMPTY ? (unsigned)F_EMPTY_LEN : which == FM_TET ? (unsigned)F_TET_LEN : (unsigned)F_TETP_LEN;
  switch (which) {
  case FM_EMPTY: __builtin_memcpy(g_buf, F_EMPTY, F_EMPTY_LEN); break;
  case FM_TET: __builtin_memcpy(g_buf, F_TET, F_TET_LEN); break;
  default: __builtin_memcpy(g_buf, F_TETP, F_TETP_LEN); break;
  }
  // symbolic payload data at the documented offsets
  uint64_t pos_bits[4][3]; uint32_t prop_bits[4];
  bool sym_pos = false, sym_prop = false;
  if (which != FM_EMPTY) {
    for (unsigned k = 0; k < nchunks; ++k) {
      if (chunk_kind[k] == CK_VERT) {
        sym_pos = true;
        for (unsigned v = 0; v < 4; ++v) for (unsigned d = 0; d < 3; ++d) { pos_bits[v][d] = v_nondet_u64(); put_le(chunk_off[k] + 32 + 8 * (3 * v + d), pos_bits[v][d], 8); }
      }
      if (chunk_kind[k] == CK_PROP) {
        sym_prop = true;
        for (unsigned v = 0; v < 4; ++v) { prop_bits[v] = v_nondet_u32(); put_le(chunk_off[k] + 32 + 4 * v, prop_bits[v], 4); }
      }
    }
  }
  VMesh r;
  ReadOptions opt; opt.topology_check = !(ro & 1); opt.bottom_up_incidences = !(ro & 2);
  PropertyCodecs codecs;
  if (which == FM_TETP) codecs.register_codec<Codecs::SimplePropCodec<Codecs::Primitive<int32_t>>>("i32");
  VIn in(g_buf, len, ~0ull);
  ReadResult res = ovmb_read(in.stream(), r, opt, codecs);
  v_assert(res == ReadResult::Ok, "C06 file: a file produced by the writer reads Ok");
  if (res != ReadResult::Ok) return;

  VMesh w; build_file_mesh(w, which);
  take_snapshot(r, g_a); take_snapshot(w, g_b);
  v_assert(!g_a.overflow && !g_b.overflow, "C06 file: snapshot capacity");
  v_assert(snap_equal(g_a, g_b), "C06 file: read-back mesh has the same counts and edge/face/cell definitions, handle for handle");
  v_assert(r.has_vertex_bottom_up_incidences() == !(ro & 2) && r.has_edge_bottom_up_incidences() == !(ro & 2) && r.has_face_bottom_up_incidences() == !(ro & 2),
           "C06 file: bottom-up incidences as requested by ReadOptions");
  if (sym_pos) {
    bool same = true;
    for (unsigned v = 0; v < 4; ++v) for (unsigned d = 0; d < 3; ++d) {
      double c = r.vertex(VH((int)v))[d]; uint64_t b; __builtin_memcpy(&b, &c, 8);
      if (b != pos_bits[v][d]) same = false;
    }
    v_assert(same, "C06 file: positions are read back bit for bit");
  }
  if (which == FM_TETP) {
    v_assert(r.vertex_property_exists<int>("p"), "C06 file: persistent property exists with its entity kind, name and value type");
    if (r.vertex_property_exists<int>("p")) {
      auto p = r.get_vertex_property<int>("p");
      bool ok = p.has_value();
      if (ok) {
        for (unsigned v = 0; v < 4; ++v) if ((uint32_t)(*p)[VH((int)v)] != prop_bits[v]) ok = false;
        v_assert((*p).def() == (int)FM_PROP_DEFAULT, "C06 file: property default value");
        v_assert((*p).persistent(), "C06 file: property is persistent after reading");
      }
      v_assert(ok, "C06 file: property values are read back exactly");
    }
    v_assert(!r.edge_property_exists<int>("p") && !r.cell_property_exists<int>("p"), "C06 file: no property of another entity kind appears");
  }
  (void)sym_prop;
  v_witness("C06 file round trip end");
}

// the writer's own values (no substitution): the generated file carries exactly the coordinates / property values of the written mesh
extern "C" void harness_roundtrip_fixed() {
  unsigned which = v_param(0);
  unsigned len = which == FM_TET ? (unsigned)F_TET_LEN : (unsigned)F_TETP_LEN;
  if (which == FM_TET) __builtin_memcpy(g_buf, F_TET, F_TET_LEN); else __builtin_memcpy(g_buf, F_TETP, F_TETP_LEN);
  VMesh r;
  ReadOptions opt;
  PropertyCodecs codecs;
  if (which == FM_TETP) codecs.register_codec<Codecs::SimplePropCodec<Codecs::Primitive<int32_t>>>("i32");
  VIn in(g_buf, len, ~0ull);
  ReadResult res = ovmb_read(in.stream(), r, opt, codecs);
  v_assert(res == ReadResult::Ok, "C06 file: a file produced by the writer reads Ok");
  if (res != ReadResult::Ok) return;
  bool same = r.n_vertices() == 4;
  if (same) for (unsigned v = 0; v < 4; ++v) for (unsigned d = 0; d < 3; ++d) if (!(r.vertex(VH((int)v))[d] == fm_coord(v, d))) same = false;
  v_assert(same, "C06 file: positions equal the written ones");
  if (which == FM_TETP) {
    auto p = r.get_vertex_property<int>("p");
    bool ok = p.has_value();
    if (ok) for (unsigned v = 0; v < 4; ++v) if ((*p)[VH((int)v)] != fm_prop_value(v)) ok = false;
    v_assert(ok, "C06 file: property values equal the written ones");
  }
  v_witness("C06 file fixed round trip end");
}

// "every other encoding of it which the format description permits (chunks split into spans ...) reads to that same mesh":
// the TET file with its VERT chunk [0,4) re-encoded as two chunks [0,k) + [k,4) (k = v_param(2) in 1..3; chunk header file_length and the
// vertex sub-header's span {first,count} rewritten per the published layout, payload bytes distributed unchanged), the 12 coordinates symbolic.
extern "C" void harness_roundtrip_split() {
  const unsigned k = v_param(2);
  if (k < 1 || k > 3) return;
  unsigned vo = 0, vend = 0;
  for (unsigned c = 0; c < (unsigned)F_TET_NCHUNKS; ++c) if (F_TET_CHUNK_KIND[c] == CK_VERT) { vo = F_TET_CHUNK_OFF[c]; vend = c + 1 < (unsigned)F_TET_NCHUNKS ? F_TET_CHUNK_OFF[c + 1] : (unsigned)F_TET_LEN; }
  v_assert(vo == 48 && vend == vo + 128, "C06 harness: the generated TET file has one 128-byte VERT chunk right after the file header");
  if (vo != 48 || vend != vo + 128) return;
  uint64_t pos_bits[4][3];
  unsigned o = 0;
  __builtin_memcpy(g_buf, F_TET, 48); o = 48;
  for (unsigned part = 0; part < 2; ++part) {
    const unsigned first = part == 0 ? 0 : k, count = part == 0 ? k : 4 - k;
    const unsigned base = o;
    for (unsigned i = 0; i < 32; ++i) g_buf[o++] = F_TET[vo + i];          // chunk header + vertex sub-header of the original chunk
    put_le(base + 8, 16 + 24 * count, 8);                                  // ChunkHeader.file_length = sub-header + data (no padding: multiples of 8)
    put_le(base + 16, first, 8); put_le(base + 24, count, 4);              // ArraySpan {first u64, count u32}
    for (unsigned v = first; v < first + count; ++v) for (unsigned d = 0; d < 3; ++d) { pos_bits[v][d] = v_nondet_u64(); put_le(o, pos_bits[v][d], 8); o += 8; }
  }
  v_assert(o == 48 + 32 + 128, "C06 harness: split chunks occupy 160 bytes");
  __builtin_memcpy(g_buf + 208, F_TET + 176, F_TET_LEN - 176); o = 208 + ((unsigned)F_TET_LEN - 176);
  const unsigned len = o;
  VMesh r;
  ReadOptions opt; PropertyCodecs codecs;
  VIn in(g_buf, len, ~0ull);
  ReadResult res = ovmb_read(in.stream(), r, opt, codecs);
  v_assert(res == ReadResult::Ok, "C06 file: the TET file with its VERT chunk split into two spans reads Ok");
  if (res != ReadResult::Ok) return;
  VMesh w; build_file_mesh(w, FM_TET);
  take_snapshot(r, g_a); take_snapshot(w, g_b);
  v_assert(!g_a.overflow && !g_b.overflow && snap_equal(g_a, g_b), "C06 file: read-back mesh has the same counts and edge/face/cell definitions, handle for handle");
  bool same = r.n_vertices() == 4;
  if (same) for (unsigned v = 0; v < 4; ++v) for (unsigned d = 0; d < 3; ++d) {
    double c = r.vertex(VH((int)v))[d]; uint64_t b; __builtin_memcpy(&b, &c, 8);
    if (b != pos_bits[v][d]) same = false;
  }
  v_assert(same, "C06 file: positions of a VERT chunk split into spans are read back bit for bit, vertex for vertex");
  v_witness("C06 file split-span round trip end");
}
