#include "ops.h"
static void do_case(unsigned) {}
extern "C" void harness_prop() {
  TopologyKernel m;
  set_mode(m, 0);
  build_base(m, B_TET);
  auto pv = m.request_vertex_property<int>("tv", -1);
  auto pe = m.request_edge_property<int>("te", -1);
  for (int i = 0; i < 4; ++i) pv[VH(i)] = 10 + i;
  for (int i = 0; i < 6; ++i) pe[EH(i)] = 20 + i;
  m.delete_vertex(VH(1));
  unsigned j = v_nondet_below(3);
  int t = pv[VH((int)j)];
  v_assert(t == (int)(j < 1 ? 10 + j : 11 + j), "vertex tag follows");
  v_assert(m.n_edges() == 3, "edges left");
  unsigned k = v_nondet_below(3);
  int te = pe[EH((int)k)];
  v_assert(te >= 20 && te < 26, "edge tag valid");
  v_witness("end");
}
