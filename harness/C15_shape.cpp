// C15: shape invariants of the tetrahedral kernel under additions (accepted and rejected) and under the inherited
// deletion / swap / garbage-collection operations.
//   harness_c15_adds  shard params: 0 = base, 1 = chunk of the case list, 2 = cases per query (0: 8; selector dispatch)
//   harness_c15_ops   shard params: 0 = base, 1 = deletion mode (bit0 deferred, bit1 fast), 2 = op kind (ops.h), 3 = chunk
// All mutating calls get constant arguments (one case = one constant argument tuple); the selector is symbolic.
#include "c15_common.h"
#include "ops.h"

// handles looked up by brute force in the reference tables (constant arguments only)
static int ref_he(int a, int b) { int r = -1; for (int h = 0; h < 2 * R_nE; ++h) if (!R_edel[h >> 1] && R_hefrom[h] == a && R_heto[h] == b && r < 0) r = h; return r; }
static int ref_hf(int a, int b, int c) {
  int r = -1;
  for (int h = 0; h < 2 * R_nF; ++h) if (!R_fdel[h >> 1] && r < 0) { int p = r_hf_pos(h, a); if (p >= 0 && r_hf_v(h, (p + 1) % 3) == b && r_hf_v(h, (p + 2) % 3) == c) r = h; }
  return r;
}
// no two live edges on the same vertex pair, no two live faces on the same vertex triple, no two live cells on the same halfface
static bool ref_no_duplicates() {
  bool ok = true;
  for (int e = 0; e < R_nE; ++e) for (int g = e + 1; g < R_nE; ++g) if (!R_edel[e] && !R_edel[g]) {
    int a = R_hefrom[2 * e], b = R_heto[2 * e], c = R_hefrom[2 * g], d = R_heto[2 * g];
    if ((a == c && b == d) || (a == d && b == c)) ok = false;
  }
  for (int f = 0; f < R_nF; ++f) for (int g = f + 1; g < R_nF; ++g) if (!R_fdel[f] && !R_fdel[g])
    if (r_hf_has_v(2 * f, r_hf_v(2 * g, 0)) && r_hf_has_v(2 * f, r_hf_v(2 * g, 1)) && r_hf_has_v(2 * f, r_hf_v(2 * g, 2))) ok = false;
  for (int h = 0; h < 2 * R_nF; ++h) if (R_ic[h] == -2) ok = false;
  return ok;
}

enum { N_ADD_CASES = 24 };

static void do_case(unsigned i) {
  const unsigned per = v_param(2) ? v_param(2) : (unsigned)CASES_PER_QUERY;    // cases of this query
  if (i >= per) return;
  const unsigned idx = v_param(1) * per + i;
  if (idx >= N_ADD_CASES) return;
  TetMesh m;
  build_tets(m, v_param(0));
  Snap s0; take_snapshot(m, s0);
  check_shape(m, s0);
  if (!R_ok) return;
  // every base starts with the cell (0,1,2,3): halffaces (0,1,2) (0,2,3) (0,3,1) (1,3,2); its face {1,2,3} is a boundary face in every base
  const int he01 = ref_he(0, 1), he12 = ref_he(1, 2), he23 = ref_he(2, 3), he30 = ref_he(3, 0), he10 = ref_he(1, 0), he20 = ref_he(2, 0);
  const int hf012 = ref_hf(0, 1, 2), hf023 = ref_hf(0, 2, 3), hf031 = ref_hf(0, 3, 1), hf132 = ref_hf(1, 3, 2);
  v_assert(he01 >= 0 && he12 >= 0 && he23 >= 0 && he30 >= 0 && he10 == (he01 ^ 1) && he20 >= 0, "C15 (base) the first cell's halfedges exist once");
  v_assert(hf012 >= 0 && hf023 >= 0 && hf031 >= 0 && hf132 >= 0 && R_ic[hf012] == 0 && R_ic[hf132] == 0 && R_ic[hf132 ^ 1] == -1, "C15 (base) first cell is (0,1,2,3), face {1,2,3} is boundary");
  v_assert(ref_no_duplicates(), "C15 add_cell(vertices) created no duplicate edge / face while building the base (reuse of existing halffaces and edges)");
  const int nV = s0.nV, nE = s0.nE, nF = s0.nF, nC = s0.nC;
  bool expect_unchanged = false, expect_valid = false, expect_invalid = false;
  int dE = 0, dF = 0, dC = 0;       // expected growth for accepted calls
  int ret = -2;
  switch (idx) {
  // ---- rejected: wrong valence
  case 0: ret = m.add_face(vec2(VH(0), VH(1))).idx(); expect_invalid = expect_unchanged = true; break;
  case 1: ret = m.add_face(vec4(VH(0), VH(1), VH(2), VH(3))).idx(); expect_invalid = expect_unchanged = true; break;
  case 2: ret = m.add_face(vec2(HEH(he01), HEH(he12))).idx(); expect_invalid = expect_unchanged = true; break;
  case 3: ret = m.add_face(vec4(HEH(he01), HEH(he12), HEH(he23), HEH(he30)), true).idx(); expect_invalid = expect_unchanged = true; break;   // closed 4-loop
  case 4: ret = m.add_cell(vec3(HFH(hf012), HFH(hf023), HFH(hf031))).idx(); expect_invalid = expect_unchanged = true; break;
  case 5: ret = m.add_cell(vec5(HFH(hf012), HFH(hf023), HFH(hf031), HFH(hf132), HFH(hf132 ^ 1))).idx(); expect_invalid = expect_unchanged = true; break;
  case 6: ret = m.add_cell(vec3(VH(0), VH(1), VH(2))).idx(); expect_invalid = expect_unchanged = true; break;
  case 7: ret = m.add_cell(vec5(VH(0), VH(1), VH(2), VH(3), VH(0))).idx(); expect_invalid = expect_unchanged = true; break;
  // ---- rejected: handle-based call failing the topology check
  case 8: ret = m.add_face(vec3(HEH(he01), HEH(he23), HEH(he12)), true).idx(); expect_invalid = expect_unchanged = true; break;              // not a closed loop
  case 9: ret = m.add_cell(vec4(HFH(hf012), HFH(hf023), HFH(hf031), HFH(hf132 ^ 1)), true).idx(); expect_invalid = expect_unchanged = true; break;   // not closed
  case 10: ret = m.add_cell(vec4(HFH(hf012), HFH(hf012), HFH(hf031), HFH(hf132)), true).idx(); expect_invalid = expect_unchanged = true; break;      // halfface twice
  // ---- rejected: vertex-based call, all halffaces exist and are taken -> nothing to create
  case 11: ret = m.add_cell(vec4(VH(0), VH(1), VH(2), VH(3)), true).idx(); expect_invalid = expect_unchanged = true; break;
  // ---- rejected vertex-based call that needs new faces (the contract promises the invalid handle and the shape invariants only)
  case 12: { VH n = m.add_vertex(); ret = m.add_cell(vec4(VH(0), VH(1), VH(2), n), true).idx(); expect_invalid = true; break; }
  case 13: ret = m.add_cell(VH(0), VH(1), VH(2), VH(2), true).idx(); expect_invalid = true; break;                                            // repeated vertex
  // ---- accepted: new tet across the boundary face {1,2,3} with a new vertex: exactly 3 new edges, 3 new faces, 1 new cell
  case 14: { VH n = m.add_vertex(); ret = m.add_cell(VH(1), VH(2), VH(3), n).idx(); expect_valid = true; dE = 3; dF = 3; dC = 1; break; }
  case 15: { VH n = m.add_vertex(); ret = m.add_cell(vec4(VH(1), VH(2), VH(3), n)).idx(); expect_valid = true; dE = 3; dF = 3; dC = 1; break; }
  case 16: { VH n = m.add_vertex(); ret = m.add_cell(vec4(VH(2), VH(3), VH(1), n), true).idx(); expect_valid = true; dE = 3; dF = 3; dC = 1; break; }
  case 17: { VH n = m.add_vertex(); ret = m.add_cell(VH(3), VH(1), VH(2), n, true).idx(); expect_valid = true; dE = 3; dF = 3; dC = 1; break; }
  // ---- accepted: faces
  case 18: { VH n = m.add_vertex(); ret = m.add_face(vec3(VH(0), VH(1), n)).idx(); expect_valid = true; dE = 2; dF = 1; break; }             // reuses edge {0,1}
  case 19: { VH n = m.add_vertex(); HEH a = m.add_halfedge(VH(0), n), b = m.add_halfedge(n, VH(1));
             ret = m.add_face(vec3(a, b, HEH(he10)), true).idx(); expect_valid = true; dE = 2; dF = 1; break; }
  // ---- accepted: cell from four halffaces, three of them made by add_halfface (new), one existing (the outer side of {1,2,3})
  case 20: { VH n = m.add_vertex();
             HFH a = m.add_halfface(VH(1), VH(3), n), b = m.add_halfface(VH(1), n, VH(2)), c = m.add_halfface(VH(2), n, VH(3));
             ret = m.add_cell(vec4(HFH(hf132 ^ 1), a, b, c), true).idx(); expect_valid = true; dE = 3; dF = 3; dC = 1; break; }
  // ---- reuse-or-create helpers on existing entities: must return the existing handle and change nothing
  case 21: ret = m.add_halfedge(VH(1), VH(0)).idx(); v_assert(ret == he10, "C15 add_halfedge on an existing edge returns the existing halfedge in the requested direction"); expect_unchanged = true; break;
  case 22: ret = m.add_halfface(VH(2), VH(1), VH(3)).idx(); v_assert(ret == hf132, "C15 add_halfface on existing vertices returns the existing halfface in the requested rotation"); expect_unchanged = true; break;
  case 23: ret = m.add_halfface(vec3(HEH(he12 ^ 1), HEH(he01 ^ 1), HEH(he20 ^ 1))).idx(); v_assert(ret == (hf012 ^ 1), "C15 add_halfface(halfedges) returns the existing (opposite) halfface"); expect_unchanged = true; break;
  default: break;
  }
  Snap s1; take_snapshot(m, s1);
  check_shape(m, s1);                       // valence 3 / valence 4 / four distinct vertices, whatever happened
  if (expect_invalid) v_assert(ret == -1, "C15 add_face / add_cell with wrong valence or failing topology check returns the invalid handle");
  if (expect_unchanged) v_assert(snap_equal(s0, s1), "C15 rejected (or deduplicated) call leaves the observable snapshot unchanged");
  if (expect_valid) {
    v_assert(ret >= 0, "C15 valid add_face / add_cell is accepted");
    int addV = (idx >= 14 && idx <= 20) ? 1 : 0;
    v_assert(s1.nV == nV + addV && s1.nE == nE + dE && s1.nF == nF + dF && s1.nC == nC + dC, "C15 accepted add creates exactly the missing edges / faces (existing ones are reused)");
    if (R_ok) v_assert(ref_no_duplicates(), "C15 accepted add creates no duplicate edge, face or doubly used halfface");
    if (dC == 1 && ret >= 0 && ret < s1.nC && R_ok) {
      v_assert(ret == nC, "C15 accepted add_cell appends the cell");
      v_assert(r_cell_has_hf(ret, hf132 ^ 1), "C15 the new cell uses the existing outer halfface on {1,2,3}");
      v_assert(r_cell_has_v(ret, 1) && r_cell_has_v(ret, 2) && r_cell_has_v(ret, 3) && r_cell_has_v(ret, nV), "C15 the new cell has the four requested vertices");
    }
  }
  v_witness("C15 adds case end");
}

extern "C" void harness_c15_adds() {
  unsigned sel = v_nondet_u32();
  v_assume(sel < CASES_PER_QUERY);
  dispatch<Case, CASES_PER_QUERY>(sel);
}

// ------------------------------------------------------------------------------------------------------------------------
// inherited deletion / swap / garbage collection keep the shape invariants (one operation from ops.h, then re-check)
static __attribute__((noinline)) void op_case(unsigned I) {
  const unsigned base = v_param(0), mode = v_param(1), op = v_param(2), chunk = v_param(3);
  TetMesh m;
  set_mode(m, mode);
  build_tets(m, base);
  unsigned idx = chunk * CASES_PER_QUERY + I;
  if (idx >= op_arity_count(m, op)) return;
  unsigned a, b; op_decode(m, op, idx, a, b);
  if (!op_valid(m, op, a, b)) return;
  apply_op(m, op, a, b);
  if (op != OP_GC && (mode & 1)) m.collect_garbage();      // deferred mode: also look at the state after garbage collection
  Snap s; take_snapshot(m, s);
  check_shape(m, s);
  v_witness("C15 ops case end");
}
template <unsigned I> struct OpCase { static __attribute__((noinline)) void run() { op_case(I); } };

extern "C" void harness_c15_ops() {
  unsigned sel = v_nondet_u32();
  v_assume(sel < CASES_PER_QUERY);
  dispatch<OpCase, CASES_PER_QUERY>(sel);
}
