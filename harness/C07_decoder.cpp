// C07 unit obligations on the OVMB decoding primitives: a Decoder over a SYMBOLIC byte vector of SYMBOLIC length is
// driven through every header read(), Decoder::read(std::string&), readVec, reserved<N>, padding.  Each unit is called
// the way IO/detail/BinaryFileReader.cc calls it (see the comment at every entry).  Obligations: CBMC's pointer/bounds
// checks (checks="mem") on every access, unwinding assertions, and "outcome = success or parse_error".
#include "verif.h"
#include <OpenVolumeMesh/IO/detail/Decoder.hh>
#include <OpenVolumeMesh/IO/detail/ovmb_format.hh>
#include <OpenVolumeMesh/IO/detail/ovmb_codec.hh>
#include <OpenVolumeMesh/IO/detail/exceptions.hh>
using namespace OpenVolumeMesh::IO::detail;
namespace OpenVolumeMesh::IO::detail { void read(Decoder &, ArraySpan &); }  // defined (external linkage) in ovmb_codec.cc

#ifndef MAXLEN
#define MAXLEN 24
#endif

// The reader's decoders own a vector allocated with EXACTLY n bytes (BinaryIStream::make_decoder: std::vector<uint8_t> vec(n)).
// The harness does the same: std::vector<uint8_t>(g_raw, g_raw + len) allocates exactly len bytes and is moved into the
// Decoder, so a read past the payload is a read past the allocation, as in the reader.
// The LENGTH is symbolic through a selector dispatch (sel = nondet <= MAX; one noinline case per length with a literal
// constant): the symbolic executor forks on the length, every allocation has a constant size, the byte VALUES stay free.
#include <utility>
template <template <unsigned> class F, unsigned... Is>
static inline void dispatch_seq(unsigned sel, std::integer_sequence<unsigned, Is...>) { ((sel == Is ? (F<Is>::run(), 0) : 0), ...); }
static uint8_t g_raw[64];  // the symbolic bytes (plain global array: reads at constant offsets fold)
// lengths LO..HI in chunks of CH per solver query: shard parameter v_param(0) = chunk index (0 when CH = HI-LO+1)
#define LEN_HARNESS_C(name, LO, HI, CH)                                                                             \
  static void body_##name(unsigned len);                                                                            \
  template <unsigned I> struct Case_##name { static __attribute__((noinline)) void run() {                          \
    unsigned len = (LO) + v_param(0) * (CH) + I; if (len <= (HI)) body_##name(len); } };                            \
  extern "C" void harness_##name() {                                                                                \
    for (unsigned i_ = 0; i_ < (HI); ++i_) g_raw[i_] = v_nondet_u8();                                               \
    unsigned sel = v_nondet_below(CH); v_assume((LO) + v_param(0) * (CH) + sel <= (HI));                            \
    dispatch_seq<Case_##name>(sel, std::make_integer_sequence<unsigned, (CH)>{}); }                                 \
  static void body_##name(unsigned len)
#define LEN_HARNESS(name, MAX) LEN_HARNESS_C(name, 0, MAX, (MAX) + 1)
// exactly `len` bytes on the heap, moved into the Decoder
#define SYM_BYTES(bytes, len, MAX) const uint8_t *bytes = g_raw; std::vector<uint8_t> vec_(g_raw, g_raw + len);
#define DECODER(dec) Decoder dec(std::move(vec_))

static uint64_t le(const uint8_t *b, unsigned off, unsigned n) {  // reference little-endian read (format doc: "LSB first")
  uint64_t r = 0;
  for (unsigned k = 0; k < 8; ++k) if (k < n) r |= (uint64_t)b[off + k] << (8 * k);
  return r;
}

enum Outcome { OK = 0, PARSE_ERROR = 1, OTHER = 2 };
#define RUN(out, stmt) do { out = OK; try { stmt; } catch (const parse_error &) { out = PARSE_ERROR; } catch (...) { out = OTHER; } } while (0)

// ---- read(Decoder&, FileHeader&): reader = read_header(): stream_.make_decoder(48) then read(); need(48) is inside read().
template <bool FULL> static void file_header_body(unsigned len) {
  SYM_BYTES(bytes, len, 48)
  DECODER(dec);
  FileHeader h; bool ok = false; int out;
  RUN(out, ok = read(dec, h));
  V_ASSERT(out != OTHER);
  if constexpr (!FULL) { V_ASSERT(out == PARSE_ERROR); V_ASSERT(dec.pos() == 0); v_witness("file header: short buffer -> parse_error"); return; }
  else {
  // reference, from ovmb.ksy file_header
  bool magic_ok = bytes[0] == 'O' && bytes[1] == 'V' && bytes[2] == 'M' && bytes[3] == 'B' && bytes[4] == 0x0a && bytes[5] == 0x0d && bytes[6] == 0x0a && bytes[7] == 0xff;
  bool version_ok = bytes[9] == 1;
  bool topo_ok = bytes[11] <= 2;
  bool reserved_ok = bytes[12] == 0 && bytes[13] == 0 && bytes[14] == 0 && bytes[15] == 0;
  if (!magic_ok || !version_ok) { V_ASSERT(out == OK && !ok); v_witness("file header: bad magic/header_version -> false"); return; }
  if (!topo_ok || !reserved_ok) { V_ASSERT(out == PARSE_ERROR); v_witness("file header: bad topo_type/reserved -> parse_error"); return; }
  V_ASSERT(out == OK && ok);
  V_ASSERT(h.file_version == bytes[8] && h.header_version == 1 && h.vertex_dim == bytes[10] && (uint8_t)h.topo_type == bytes[11]);
  V_ASSERT(h.n_verts == le(bytes, 16, 8) && h.n_edges == le(bytes, 24, 8) && h.n_faces == le(bytes, 32, 8) && h.n_cells == le(bytes, 40, 8));
  V_ASSERT(dec.finished());
  v_witness("file header: accepted");
  }
}
LEN_HARNESS_C(file_header_short, 0, 47, 8) { file_header_body<false>(len); }   // 6 shards: lengths 8c..8c+7 (< 48: need() must refuse)
extern "C" void harness_file_header_full() { for (unsigned i = 0; i < 48; ++i) g_raw[i] = v_nondet_u8(); file_header_body<true>(48); }

// ---- read(Decoder&, ChunkHeader&): reader = read_chunk(): stream_.make_decoder(16) then read().
LEN_HARNESS(chunk_header, MAXLEN) {
  SYM_BYTES(bytes, len, MAXLEN)
  DECODER(dec);
  ChunkHeader h; int out;
  RUN(out, read(dec, h));
  V_ASSERT(out != OTHER);
  if (len < 16) { V_ASSERT(out == PARSE_ERROR); v_witness("chunk header: short buffer -> parse_error"); return; }
  uint64_t flen = le(bytes, 8, 8);
  bool flags_ok = bytes[7] <= 1;
  bool pad_ok = (uint64_t)bytes[5] <= flen;
  if (!flags_ok || !pad_ok) { V_ASSERT(out == PARSE_ERROR); v_witness("chunk header: bad flags / padding > length -> parse_error"); return; }
  V_ASSERT(out == OK);
  V_ASSERT((uint32_t)h.type == (uint32_t)le(bytes, 0, 4) && h.version == bytes[4] && h.padding_bytes == bytes[5] && h.compression == bytes[6] && (uint8_t)h.flags == bytes[7]);
  V_ASSERT(h.file_length == flen && h.payload_length == flen - bytes[5]);
  V_ASSERT(dec.pos() == 16);
  v_witness("chunk header: accepted");
}

// ---- read(Decoder&, ArraySpan&) / PropChunkHeader: reader = read_prop_chunk(chunk_reader): first call on the chunk payload.
LEN_HARNESS(prop_chunk_header, MAXLEN) {
  SYM_BYTES(bytes, len, MAXLEN)
  DECODER(dec);
  PropChunkHeader h; int out;
  RUN(out, read(dec, h));
  V_ASSERT(out != OTHER);
  if (len < 16) { V_ASSERT(out == PARSE_ERROR); V_ASSERT(dec.pos() == 0); v_witness("prop chunk header: short -> parse_error"); return; }
  V_ASSERT(out == OK && h.span.first == le(bytes, 0, 8) && h.span.count == (uint32_t)le(bytes, 8, 4) && h.idx == (uint32_t)le(bytes, 12, 4) && dec.pos() == 16);
  v_witness("prop chunk header: accepted");
}

LEN_HARNESS(array_span, MAXLEN) {
  SYM_BYTES(bytes, len, MAXLEN)
  DECODER(dec);
  ArraySpan s; int out;
  RUN(out, read(dec, s));
  V_ASSERT(out != OTHER);
  if (len < 12) { V_ASSERT(out == PARSE_ERROR); v_witness("array span: short -> parse_error"); return; }
  V_ASSERT(out == OK && s.first == le(bytes, 0, 8) && s.count == (uint32_t)le(bytes, 8, 4) && dec.pos() == 12);
  v_witness("array span: accepted");
}

// ---- VertexChunkHeader: reader = read_vertices_chunk(chunk_reader): first call on the chunk payload.
LEN_HARNESS(vertex_chunk_header, MAXLEN) {
  SYM_BYTES(bytes, len, MAXLEN)
  DECODER(dec);
  VertexChunkHeader h; int out;
  RUN(out, read(dec, h));
  V_ASSERT(out != OTHER);
  if (len < 16) { V_ASSERT(out == PARSE_ERROR); v_witness("vertex chunk header: short -> parse_error"); return; }
  bool enc_ok = bytes[12] <= 2;
  bool reserved_ok = bytes[13] == 0 && bytes[14] == 0 && bytes[15] == 0;
  if (!enc_ok || !reserved_ok) { V_ASSERT(out == PARSE_ERROR); v_witness("vertex chunk header: bad encoding/reserved -> parse_error"); return; }
  V_ASSERT(out == OK && h.span.first == le(bytes, 0, 8) && h.span.count == (uint32_t)le(bytes, 8, 4) && (uint8_t)h.vertex_encoding == bytes[12] && dec.pos() == 16);
  v_witness("vertex chunk header: accepted");
}

// ---- TopoChunkHeader: reader = read_topo_chunk(chunk_reader): first call on the chunk payload.
static bool int_enc_ok(uint8_t e) { return e == 0 || e == 1 || e == 2 || e == 4; }
LEN_HARNESS(topo_chunk_header, MAXLEN) {
  SYM_BYTES(bytes, len, MAXLEN)
  DECODER(dec);
  TopoChunkHeader h; int out;
  RUN(out, read(dec, h));
  V_ASSERT(out != OTHER);
  if (len < 24) { V_ASSERT(out == PARSE_ERROR); v_witness("topo chunk header: short -> parse_error"); return; }
  bool ent_ok = bytes[12] >= 1 && bytes[12] <= 3;
  if (!ent_ok || !int_enc_ok(bytes[14]) || !int_enc_ok(bytes[15])) { V_ASSERT(out == PARSE_ERROR); v_witness("topo chunk header: bad enum -> parse_error"); return; }
  V_ASSERT(out == OK && h.span.first == le(bytes, 0, 8) && h.span.count == (uint32_t)le(bytes, 8, 4) && (uint8_t)h.entity == bytes[12] && h.valence == bytes[13]);
  V_ASSERT((uint8_t)h.valence_encoding == bytes[14] && (uint8_t)h.handle_encoding == bytes[15] && h.handle_offset == le(bytes, 16, 8) && dec.pos() == 24);
  v_witness("topo chunk header: accepted");
}

// ---- reserved<N>: only reached from the FileHeader / VertexChunkHeader read()s, after their need(); here directly after need(N).
template <unsigned N> static void reserved_body(unsigned len) {
  SYM_BYTES(bytes, len, 8)
  DECODER(dec);
  int out;
  RUN(out, { dec.need(N); dec.reserved<N>(); });
  V_ASSERT(out != OTHER);
  if (len < N) { V_ASSERT(out == PARSE_ERROR); v_witness("reserved: short -> parse_error"); return; }
  bool zero = true;
  for (unsigned i = 0; i < N; ++i) if (bytes[i] != 0) zero = false;
  V_ASSERT((out == OK) == zero);
  if (out == OK) { V_ASSERT(dec.pos() == N); v_witness("reserved: zero bytes accepted"); } else v_witness("reserved: non-zero byte -> parse_error");
}
LEN_HARNESS(reserved3, 8) { reserved_body<3>(len); }
LEN_HARNESS(reserved4, 8) { reserved_body<4>(len); }

// ---- padding(n): reader = read_chunk(): stream_.make_decoder(header.padding_bytes).padding(header.padding_bytes)
//      i.e. a decoder of exactly n bytes (make_decoder throws parse_error if the stream has fewer).
LEN_HARNESS(padding, MAXLEN) {
  SYM_BYTES(bytes, len, MAXLEN)
  DECODER(dec);
  int out;
  RUN(out, dec.padding((uint8_t)len));
  V_ASSERT(out != OTHER);
  bool zero = true;
  for (unsigned i = 0; i < MAXLEN; ++i) if (i < len && bytes[i] != 0) zero = false;
  V_ASSERT((out == OK) == zero);
  if (out == OK) { V_ASSERT(dec.finished()); v_witness("padding: zero bytes accepted"); } else v_witness("padding: non-zero byte -> parse_error");
}

// ---- readVec<uint32_t>: reader = read(Decoder&, PropertyInfo&) (three times); need() calls are inside readVec.
LEN_HARNESS(readvec, MAXLEN) {
  SYM_BYTES(bytes, len, MAXLEN)
  DECODER(dec);
  std::vector<uint8_t> v; int out;
  RUN(out, dec.readVec<uint32_t>(v));
  V_ASSERT(out != OTHER);
  if (len < 4) { V_ASSERT(out == PARSE_ERROR); v_witness("readVec: no room for length -> parse_error"); return; }
  uint64_t n = le(bytes, 0, 4);
  if (n > len - 4) { V_ASSERT(out == PARSE_ERROR); v_witness("readVec: declared length beyond buffer -> parse_error"); return; }
  V_ASSERT(out == OK && v.size() == n && dec.pos() == 4 + n);
  unsigned k = v_nondet_below(MAXLEN);
  if (k < n) V_ASSERT(v[k] == bytes[4 + k]);
  v_witness("readVec: accepted");
}

// ---- Decoder::read(std::string&) under its documented contract (caller did need(4) for the length word):
//      the declared length is then checked by the function itself.
LEN_HARNESS(string_after_need, MAXLEN) {
  SYM_BYTES(bytes, len, MAXLEN)
  DECODER(dec);
  std::string s; int out;
  RUN(out, { dec.need(4); dec.read(s); });
  V_ASSERT(out != OTHER);
  if (len < 4) { V_ASSERT(out == PARSE_ERROR); v_witness("string(need 4): short -> parse_error"); return; }
  uint64_t n = le(bytes, 0, 4);
  if (n > len - 4) { V_ASSERT(out == PARSE_ERROR); v_witness("string(need 4): declared length beyond buffer -> parse_error"); return; }
  V_ASSERT(out == OK && s.size() == n && dec.pos() == 4 + n);
  unsigned k = v_nondet_below(MAXLEN);
  if (k < n) V_ASSERT((uint8_t)s[k] == bytes[4 + k]);
  v_witness("string(need 4): accepted");
}

// ---- Decoder::read(std::string&) AS THE READER REACHES IT: Primitive<std::string>::decode <- SimplePropCodec::decode_n /
//      decode_one <- PropertyDecoderT::deserialize / request_property; none of them calls need() for the length word.
//      string_short: 1..3 bytes remain (fewer than the u32 length word); string_empty: nothing remains (empty payload: data()==nullptr).
//      C07 demands memory safety (and parse_error); the memory checks are the obligation.
LEN_HARNESS_C(string_short, 1, 3, 3) {
  SYM_BYTES(bytes, len, 3)
  DECODER(dec);
  std::string s; int out;
  RUN(out, dec.read(s));
  (void)out;
  v_witness("string(as called, 1..3 bytes): returned");
}
extern "C" void harness_string_empty() {
  std::vector<uint8_t> vec_;
  DECODER(dec);
  std::string s; int out;
  RUN(out, dec.read(s));
  (void)out;
  v_witness("string(as called, empty payload): returned");
}

// ---- PropertyInfo: reader = read_propdir_chunk(): while (remaining_bytes() > 0) read(reader, prop_info);
#ifndef PI_MAX
#define PI_MAX MAXLEN
#endif
// CLS 0: len < 13 (cannot hold an entry), 1: len == 13 (entry with three empty fields), 2: len >= 14
template <int CLS> static void property_info_body(unsigned len) {
  SYM_BYTES(bytes, len, MAXLEN)
  DECODER(dec);
  PropertyInfo pi; int out;
  RUN(out, read(dec, pi));
  V_ASSERT(out != OTHER);
  // reference walk (ovmb.ksy propdir_entry): u1 entity, string4 name, string4 data_type_name, bytes4 serialized_default
  bool ok = len >= 13 && bytes[0] <= 6;
  uint64_t pos = 1, l0 = 0, l1 = 0, l2 = 0;
  if (ok) { l0 = le(bytes, (unsigned)pos, 4); pos += 4; ok = l0 <= len - pos; if (ok) pos += l0; }
  if (ok) { ok = len - pos >= 4; if (ok) { l1 = le(bytes, (unsigned)pos, 4); pos += 4; ok = l1 <= len - pos; if (ok) pos += l1; } }
  if (ok) { ok = len - pos >= 4; if (ok) { l2 = le(bytes, (unsigned)pos, 4); pos += 4; ok = l2 <= len - pos; if (ok) pos += l2; } }
  if (!ok) { V_ASSERT(out == PARSE_ERROR); v_witness("property info: malformed -> parse_error"); return; }
  if constexpr (CLS == 0) { V_ASSERT(false); }
  else if constexpr (CLS == 1) {  // the code demands 14 bytes up front (need(2+3*4)); the 13-byte entry (three empty fields) is refused
    V_ASSERT(out == PARSE_ERROR); v_witness("property info: 13-byte entry refused (code asks for 14)"); }
  else {
    V_ASSERT(out == OK && (uint8_t)pi.entity_type == bytes[0] && pi.name.size() == l0 && pi.data_type_name.size() == l1 && pi.serialized_default.size() == l2 && dec.pos() == pos);
    unsigned k = v_nondet_below(MAXLEN);
    if (k < l0) V_ASSERT((uint8_t)pi.name[k] == bytes[5 + k]);
    if (k < l1) V_ASSERT((uint8_t)pi.data_type_name[k] == bytes[9 + l0 + k]);
    if (k < l2) V_ASSERT(pi.serialized_default[k] == bytes[13 + l0 + l1 + k]);
    v_witness("property info: accepted");
  }
}
LEN_HARNESS_C(property_info_short, 0, 12, 13) { property_info_body<0>(len); }
LEN_HARNESS_C(property_info_13, 13, 13, 1) { property_info_body<1>(len); }
LEN_HARNESS_C(property_info, 14, PI_MAX, 1) { property_info_body<2>(len); }   // one length per shard: len = 14 + v_param(0)
