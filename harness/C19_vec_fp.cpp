// C19 (b): VectorT<float|double, 2|3|4> with arbitrary bit patterns as components (NaN, infinities, denormals and
// signed zeros included unless an entry says otherwise).  The property asks for agreement "within rounding"; what is
// decided here is the sufficient condition that every result equals the defining formula evaluated in IEEE
// arithmetic in the same association order, bit for bit (or both NaN).  Order-type queries (max/min/</minimize...)
// are specified relationally under a no-NaN assumption (the order of NaNs is not defined by the documentation).
// sqrt is an uninterpreted function shared by implementation and oracle.  Stream operators are outside the claim.
#include "verif.h"
#include <OpenVolumeMesh/Geometry/VectorT.hh>
#include <type_traits>
#include <cmath>
using namespace OpenVolumeMesh::Geometry;

template <class F> static inline F nd();
template <> inline float nd<float>() { return v_nondet_float(); }
template <> inline double nd<double>() { return v_nondet_double(); }

static inline bool same(float a, float b) {
  if (a != a || b != b) return a != a && b != b;
  uint32_t x, y; __builtin_memcpy(&x, &a, 4); __builtin_memcpy(&y, &b, 4); return x == y;
}
static inline bool same(double a, double b) {
  if (a != a || b != b) return a != a && b != b;
  uint64_t x, y; __builtin_memcpy(&x, &a, 8); __builtin_memcpy(&y, &b, 8); return x == y;
}
template <class F> static inline F fabs_(F a) { return a < 0 ? -a : a; }   // numeric |a| (sign of zero irrelevant below)

template <class F, int D> struct SymA {
  F a[D];
  VectorT<F, D> va;
  SymA() {
    for (int i = 0; i < D; ++i) a[i] = nd<F>();
    for (int i = 0; i < D; ++i) va[(size_t)i] = a[i];
  }
  bool has_nan() const { bool r = false; for (int i = 0; i < D; ++i) if (a[i] != a[i]) r = true; return r; }
};
template <class F, int D> struct Sym : SymA<F, D> {
  F b[D], s;
  VectorT<F, D> vb;
  Sym() {
    for (int i = 0; i < D; ++i) b[i] = nd<F>();
    s = nd<F>();
    vb = VectorT<F, D>(&b[0]);
  }
  bool has_nan2() const { bool r = this->has_nan(); for (int i = 0; i < D; ++i) if (b[i] != b[i]) r = true; return r; }
};

// ------------------------------------------------------------------------------------------------ construction / access / conversion
template <class F, int D> __attribute__((flatten)) static void t_ctor() {
  Sym<F, D> x; typedef VectorT<F, D> V;
  for (int i = 0; i < D; ++i) V_ASSERT(same(x.va[(size_t)i], x.a[i]) && same(x.vb[(size_t)i], x.b[i]) && same(x.va.data()[i], x.a[i]));
  V u(x.s), w = V::vectorized(x.s), z(x.va);
  z.vectorize(x.s);
  for (int i = 0; i < D; ++i) V_ASSERT(same(u[(size_t)i], x.s) && same(w[(size_t)i], x.s) && same(z[(size_t)i], x.s));
  if constexpr (D == 2) { V c(x.a[0], x.a[1]); V_ASSERT(same(c[0], x.a[0]) && same(c[1], x.a[1])); }
  if constexpr (D == 3) { V c(x.a[0], x.a[1], x.a[2]); V_ASSERT(same(c[0], x.a[0]) && same(c[1], x.a[1]) && same(c[2], x.a[2])); }
  if constexpr (D == 4) { V c(x.a[0], x.a[1], x.a[2], x.a[3]); V_ASSERT(same(c[0], x.a[0]) && same(c[1], x.a[1]) && same(c[2], x.a[2]) && same(c[3], x.a[3])); }
  V p(x.va), q(x.vb);
  p.swap(q);
  for (int i = 0; i < D; ++i) V_ASSERT(same(p[(size_t)i], x.b[i]) && same(q[(size_t)i], x.a[i]));
  swap(p, q);
  for (int i = 0; i < D; ++i) V_ASSERT(same(p[(size_t)i], x.a[i]) && same(q[(size_t)i], x.b[i]));
  V_ASSERT(same(*x.va.begin(), x.a[0]) && (x.va.end() - x.va.begin()) == D && same(*x.va.rbegin(), x.a[D - 1]));
  // conversions: component-wise static_cast (float <-> double; to int only where the value is representable)
  typedef typename std::conditional<std::is_same<F, float>::value, double, float>::type O;
  VectorT<O, D> co(x.va); VectorT<O, D> co2; co2 = x.vb;
  for (int i = 0; i < D; ++i) V_ASSERT(same(co[(size_t)i], static_cast<O>(x.a[i])) && same(co2[(size_t)i], static_cast<O>(x.b[i])));
  bool in_range = true;
  for (int i = 0; i < D; ++i) if (!(x.a[i] > (F)-2147483000.0 && x.a[i] < (F)2147483000.0)) in_range = false;
  if (in_range) {
    VectorT<int, D> ci(x.va);
    for (int i = 0; i < D; ++i) V_ASSERT(ci[(size_t)i] == static_cast<int>(x.a[i]));
    v_witness("fp ctor: int conversion in range");
  }
  v_witness("fp ctor/access/conversion");
}

// ------------------------------------------------------------------------------------------------ + - negation, comparison, order
template <class F, int D> __attribute__((flatten)) static void t_lin() {
  Sym<F, D> x; typedef VectorT<F, D> V;
  V sum = x.va + x.vb, dif = x.va - x.vb, neg = -x.va;
  V pe(x.va); V &r1 = (pe += x.vb);
  V me(x.va); V &r2 = (me -= x.vb);
  V_ASSERT(&r1 == &pe && &r2 == &me);
  for (int i = 0; i < D; ++i) {
    V_ASSERT(same(sum[(size_t)i], x.a[i] + x.b[i]) && same(pe[(size_t)i], x.a[i] + x.b[i]));
    V_ASSERT(same(dif[(size_t)i], x.a[i] - x.b[i]) && same(me[(size_t)i], x.a[i] - x.b[i]));
    V_ASSERT(same(neg[(size_t)i], -x.a[i]));
  }
  // component-wise comparison in IEEE semantics (a NaN component makes vectors unequal)
  bool all_eq = true;
  for (int i = 0; i < D; ++i) if (!(x.a[i] == x.b[i])) all_eq = false;
  V_ASSERT((x.va == x.vb) == all_eq);
  V_ASSERT((x.va != x.vb) == !all_eq);
  // lexicographic order (no NaN): decided by the first differing component
  if (!x.has_nan2()) {
    bool less = false, decided = false;
    for (int i = 0; i < D; ++i) if (!decided && x.a[i] != x.b[i]) { decided = true; less = x.a[i] < x.b[i]; }
    V_ASSERT((x.va < x.vb) == less);
    V_ASSERT(!(x.va < x.va));
    if (less) v_witness("fp lin: lexicographically smaller");
  }
  if (all_eq) v_witness("fp lin: equal vectors");
  v_witness("fp lin: end");
}

// ------------------------------------------------------------------------------------------------ reductions, minimize / maximize (no NaN)
// max()/min(): a bound of all components that is attained
template <class F, int D> __attribute__((flatten)) static void t_maxmin() {
  SymA<F, D> x;
  v_assume(!x.has_nan());
  F mx = x.va.max(), mn = x.va.min();
  bool mx_att = false, mn_att = false;
  for (int i = 0; i < D; ++i) {
    V_ASSERT(mx >= x.a[i] && mn <= x.a[i]);
    if (mx == x.a[i]) mx_att = true;
    if (mn == x.a[i]) mn_att = true;
  }
  V_ASSERT(mx_att && mn_att);
  v_witness("fp max/min");
}
// max_abs()/min_abs()/l8_norm(): bounds of all |x_i| that are attained
template <class F, int D> __attribute__((flatten)) static void t_maxabs() {
  SymA<F, D> x;
  v_assume(!x.has_nan());
  F mxa = x.va.max_abs(), mna = x.va.min_abs(), l8 = x.va.l8_norm();
  bool mxa_att = false, mna_att = false;
  for (int i = 0; i < D; ++i) {
    F ab = fabs_(x.a[i]);
    V_ASSERT(mxa >= ab && mna <= ab);
    if (mxa == ab) mxa_att = true;
    if (mna == ab) mna_att = true;
  }
  V_ASSERT(mxa_att && mna_att);
  V_ASSERT(l8 == mxa);
  v_witness("fp max_abs/min_abs/l8_norm");
}
template <class F, int D> __attribute__((flatten)) static void t_red() {
  Sym<F, D> x; typedef VectorT<F, D> V;
  v_assume(!x.has_nan2());
  V mi = x.va.min(x.vb), ma = x.va.max(x.vb);
  V mz(x.va); mz.minimize(x.vb);
  V xz(x.va); xz.maximize(x.vb);
  V md(x.va); bool fmin = md.minimized(x.vb);
  V xd(x.va); bool fmax = xd.maximized(x.vb);
  bool some_smaller = false, some_larger = false, min_changed = false, max_changed = false;
  for (int i = 0; i < D; ++i) {
    F lo = x.b[i] < x.a[i] ? x.b[i] : x.a[i], hi = x.b[i] > x.a[i] ? x.b[i] : x.a[i];
    V_ASSERT(mi[(size_t)i] == lo && mz[(size_t)i] == lo && md[(size_t)i] == lo);   // numeric equality: sign of zero not prescribed
    V_ASSERT(ma[(size_t)i] == hi && xz[(size_t)i] == hi && xd[(size_t)i] == hi);
    if (x.b[i] < x.a[i]) some_smaller = true;
    if (x.b[i] > x.a[i]) some_larger = true;
    if (md[(size_t)i] != x.a[i]) min_changed = true;
    if (xd[(size_t)i] != x.a[i]) max_changed = true;
  }
  V_ASSERT(!some_smaller || fmin);
  V_ASSERT(fmin || !min_changed);
  V_ASSERT(!some_larger || fmax);
  V_ASSERT(fmax || !max_changed);
  if (some_smaller) v_witness("fp red: some coordinate minimized");
  v_witness("fp red: end");
}

// mean: (x_0 + x_1 + ...) / DIM and mean_abs: (|x_0| + |x_1| + ...) / DIM, left to right, any bit pattern
template <class F, int D> __attribute__((flatten)) static void t_mean() {
  SymA<F, D> x;
  F sum = x.a[0], asum = std::abs(x.a[0]);
  for (int i = 1; i < D; ++i) { sum = sum + x.a[i]; asum = asum + std::abs(x.a[i]); }
  V_ASSERT(same(x.va.mean(), sum / (F)D));
  V_ASSERT(same(x.va.mean_abs(), asum / (F)D));
  v_witness("fp mean/mean_abs");
}

// L1 (Manhattan) norm = sum |x_i|.  Asserted here: a NECESSARY condition of every rounding of that sum (a floating-
// point sum of non-negative terms is >= each term), for finite components.
template <class F, int D> __attribute__((flatten)) static void t_l1() {
  SymA<F, D> x;
  for (int i = 0; i < D; ++i) v_assume(x.a[i] == x.a[i] && fabs_(x.a[i]) < (F)1e30);
  F l1 = x.va.l1_norm();
  bool ok = true;
  for (int i = 0; i < D; ++i) if (!(l1 >= fabs_(x.a[i]))) ok = false;
  v_assert(ok, "C19 l1_norm() >= |x_i| for every i (necessary for l1_norm() == sum of |x_i| within rounding)");
  v_witness("fp l1 norm");
}

// ------------------------------------------------------------------------------------------------ products
template <class F, int D> __attribute__((flatten)) static void t_mul() {
  Sym<F, D> x; typedef VectorT<F, D> V;
  V cw = x.va * x.vb, sr = x.va * x.s, sl = x.s * x.va;
  V ce(x.va); ce *= x.vb;
  V se(x.va); se *= x.s;
  for (int i = 0; i < D; ++i) {
    V_ASSERT(same(cw[(size_t)i], x.a[i] * x.b[i]) && same(ce[(size_t)i], x.a[i] * x.b[i]));
    V_ASSERT(same(sr[(size_t)i], x.a[i] * x.s) && same(sl[(size_t)i], x.a[i] * x.s) && same(se[(size_t)i], x.a[i] * x.s));
  }
  v_witness("fp component/scalar products");
}
template <class F, int D> __attribute__((flatten)) static void t_dot() {
  Sym<F, D> x;
  F dot = x.a[0] * x.b[0], sq = x.a[0] * x.a[0];
  for (int i = 1; i < D; ++i) { dot = dot + x.a[i] * x.b[i]; sq = sq + x.a[i] * x.a[i]; }
  V_ASSERT(same(x.va | x.vb, dot));
  V_ASSERT(same(x.va.dot(x.vb), dot));
  V_ASSERT(same(OpenVolumeMesh::Geometry::dot(x.va, x.vb), dot));
  V_ASSERT(same(x.va.sqrnorm(), sq));
  v_witness("fp dot/sqrnorm");
}
template <class F> __attribute__((flatten)) static void t_cross() {
  Sym<F, 3> x; typedef VectorT<F, 3> V;
  const F *a = x.a, *b = x.b;
  F c0 = a[1] * b[2] - a[2] * b[1];
  F c1 = a[2] * b[0] - a[0] * b[2];
  F c2 = a[0] * b[1] - a[1] * b[0];
  V p = x.va % x.vb, q = x.va.cross(x.vb), r = cross(x.va, x.vb);
  V_ASSERT(same(p[0], c0) && same(p[1], c1) && same(p[2], c2));
  V_ASSERT(same(q[0], c0) && same(q[1], c1) && same(q[2], c2));
  V_ASSERT(same(r[0], c0) && same(r[1], c1) && same(r[2], c2));
  v_witness("fp cross product");
}

// ------------------------------------------------------------------------------------------------ division
template <class F, int D> __attribute__((flatten)) static void t_div() {
  Sym<F, D> x; typedef VectorT<F, D> V;
  V cw = x.va / x.vb, sr = x.va / x.s;
  V ce(x.va); ce /= x.vb;
  V se(x.va); se /= x.s;
  for (int i = 0; i < D; ++i) {
    V_ASSERT(same(cw[(size_t)i], x.a[i] / x.b[i]) && same(ce[(size_t)i], x.a[i] / x.b[i]));
    V_ASSERT(same(sr[(size_t)i], x.a[i] / x.s) && same(se[(size_t)i], x.a[i] / x.s));
  }
  if constexpr (D == 4) {
    V h = x.va.homogenized();
    V_ASSERT(same(h[0], x.a[0] / x.a[3]) && same(h[1], x.a[1] / x.a[3]) && same(h[2], x.a[2] / x.a[3]) && same(h[3], (F)1));
  }
  v_witness("fp division");
}

// ------------------------------------------------------------------------------------------------ euclidean norm, normalisation (modulo sqrt)
template <class F, int D> static inline F o_norm(const F *a) {
  F sq = a[0] * a[0];
  for (int i = 1; i < D; ++i) sq = sq + a[i] * a[i];
  return std::sqrt(sq);
}
template <class F, int D> __attribute__((flatten)) static void t_norm() {
  SymA<F, D> x;
  F n = o_norm<F, D>(x.a);
  V_ASSERT(same(x.va.norm(), n));
  V_ASSERT(same(x.va.length(), n));
  v_witness("fp norm");
}
template <class F, int D> __attribute__((flatten)) static void t_normalized() {
  SymA<F, D> x; typedef VectorT<F, D> V;
  F n = o_norm<F, D>(x.a);
  V nz = x.va.normalized();
  for (int i = 0; i < D; ++i) V_ASSERT(same(nz[(size_t)i], x.a[i] / n));
  v_witness("fp normalized");
}
template <class F, int D> __attribute__((flatten)) static void t_normalize() {
  SymA<F, D> x; typedef VectorT<F, D> V;
  F n = o_norm<F, D>(x.a);
  V nn(x.va); V &r1 = nn.normalize();
  V_ASSERT(&r1 == &nn);
  for (int i = 0; i < D; ++i) V_ASSERT(same(nn[(size_t)i], x.a[i] / n));
  v_witness("fp normalize");
}
template <class F, int D> __attribute__((flatten)) static void t_normalize_cond() {
  SymA<F, D> x; typedef VectorT<F, D> V;
  F n = o_norm<F, D>(x.a);
  V nc(x.va); V &r2 = nc.normalize_cond();
  V_ASSERT(&r2 == &nc);
  if (n != (F)0) {
    for (int i = 0; i < D; ++i) V_ASSERT(same(nc[(size_t)i], x.a[i] / n));
    v_witness("fp normalize_cond: non-zero norm");
  }
  if (n == (F)0) {
    for (int i = 0; i < D; ++i) V_ASSERT(same(nc[(size_t)i], x.a[i]));   // left unchanged
    v_witness("fp normalize_cond: zero norm");
  }
  v_witness("fp normalize_cond: end");
}

#define ENTRIES(F, D, tag) \
  extern "C" void harness_ctor_##tag() { t_ctor<F, D>(); } \
  extern "C" void harness_lin_##tag() { t_lin<F, D>(); } \
  extern "C" void harness_red_##tag() { t_red<F, D>(); } \
  extern "C" void harness_maxmin_##tag() { t_maxmin<F, D>(); } \
  extern "C" void harness_maxabs_##tag() { t_maxabs<F, D>(); } \
  extern "C" void harness_mean_##tag() { t_mean<F, D>(); } \
  extern "C" void harness_l1_##tag() { t_l1<F, D>(); } \
  extern "C" void harness_mul_##tag() { t_mul<F, D>(); } \
  extern "C" void harness_dot_##tag() { t_dot<F, D>(); } \
  extern "C" void harness_div_##tag() { t_div<F, D>(); } \
  extern "C" void harness_norm_##tag() { t_norm<F, D>(); } \
  extern "C" void harness_normalized_##tag() { t_normalized<F, D>(); } \
  extern "C" void harness_normalize_##tag() { t_normalize<F, D>(); } \
  extern "C" void harness_normalize_cond_##tag() { t_normalize_cond<F, D>(); }
ENTRIES(float, 2, f2) ENTRIES(float, 3, f3) ENTRIES(float, 4, f4)
ENTRIES(double, 2, d2) ENTRIES(double, 3, d3) ENTRIES(double, 4, d4)
extern "C" void harness_cross_f3() { t_cross<float>(); }
extern "C" void harness_cross_d3() { t_cross<double>(); }
