// C11: add_cell's closed-surface check must not depend on how the halfedges happen to be NUMBERED.  One quad face on vertices 0,1,2,3
// whose four edges are created in a direction chosen per edge (bit k of the case index: edge k created against the loop direction), so the
// face's halfedge indices are any mix of even and odd; then add_cell(list, topologyCheck=true) for list = v_param(0):
//   0: {halfface 0} (open)   1: {halfface 1} (open)   2: {halfface 0, halfface 1} (closed "pillow")   3: {halfface 1, halfface 0}
// all 16 direction patterns by symbolic selector dispatch.
#include "mesh_common.h"
#include "c11_common.h"

static __attribute__((noinline)) void do_case(unsigned i) {
  if (i >= 16) return;
  TopologyKernel m;
  m.add_n_vertices(4);
  HEH loop[4];
  for (int k = 0; k < 4; ++k) {
    const int a = k, b = (k + 1) & 3;
    const bool rev = ((i >> k) & 1u) != 0;
    EH e = rev ? m.add_edge(VH(b), VH(a)) : m.add_edge(VH(a), VH(b));
    loop[k] = e.halfedge_handle(rev ? 1 : 0);
  }
  FH f = m.add_face(vec4(loop[0], loop[1], loop[2], loop[3]), true);
  V_ASSERT(f.idx() == 0 && m.n_edges() == 4);
  Snap s0; take_snapshot(m, s0);
  if (s0.overflow) return;
  int g[2], n = 0;
  switch (v_param(0)) {
  case 0: g[n++] = 0; break;
  case 1: g[n++] = 1; break;
  case 2: g[n++] = 0; g[n++] = 1; break;
  default: g[n++] = 1; g[n++] = 0; break;
  }
  std::vector<HFH> list; list.reserve(2);
  for (int k = 0; k < n; ++k) list.push_back(HFH(g[k]));
  int r = m.add_cell(list, true).idx();
  Snap s1; take_snapshot(m, s1);
  bool closed = c11_closed_surface(s0, g, n);
  V_ASSERT(closed == (n == 2));   // harness self-check
  v_assert((r >= 0) == closed, "C11 add_cell(topologyCheck): succeeds iff every halfedge of the listed halffaces occurs once and is matched exactly once by its opposite");
  if (r < 0) {
    v_assert(r == -1, "C11 add_cell: a rejected call returns the invalid handle");
    v_assert(snap_equal(s0, s1), "C11 add_cell: a rejected call leaves the mesh unchanged");
  } else {
    v_assert(r == 0 && s1.nC == 1 && s1.nF == 1 && s1.nE == 4 && s1.nV == 4, "C11 add_cell: exactly one cell is appended");
    v_assert(s1.cval[0] == n && s1.chf[0][0] == g[0] && (n < 2 || s1.chf[0][1] == g[1]) && !s1.cdel[0], "C11 add_cell: the new cell is live and has exactly the given halffaces in the given order");
  }
  v_witness("C11 cell-dirs case end");
}

extern "C" void harness_c11_cell_dirs() {
  unsigned sel = v_nondet_u32();
  v_assume(sel < 16);
  dispatch<CaseW, 16>(sel);
}
