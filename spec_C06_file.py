# C06 (c) whole-file round trip + reader-vs-format at chunk level (file/stream level; merged into PROPS["C06"] by the owner of spec_C06.py)
if "FILE_JOB" not in globals():
    import os as _os6
    _p6 = _os6.path.join(_os6.path.dirname(_os6.path.abspath(_f)), "spec_C18.py")
    exec(compile(open(_p6).read(), _p6, "exec"), globals())
C06_FILE_JOBS = [
    dict(name="file-roundtrip", harness="C06_file.cpp", entries=["harness_roundtrip"], timeout={"quick": 600, "thorough": 1800},
         shards={"quick": [{0: FM_TET, 1: 0}], "thorough": [{0: w, 1: ro} for w in (FM_EMPTY, FM_TET, FM_TETP) for ro in range(4)]},
         bounds="bytes written by the real writer (natively, current tree) for the empty mesh, one tetrahedron (Vec3d positions) and the tetrahedron with one persistent int vertex "
                "property are read back by IO::ovmb_read: counts, every edge/face/cell definition handle for handle, bottom-up flags per ReadOptions, property kind/name/type/default/"
                "persistence; the 12 coordinates (arbitrary 64-bit patterns) and the 4 property values (arbitrary 32-bit patterns) are SYMBOLIC, substituted at the offsets of the published "
                "layout, and must be read back bit for bit; thorough: all 4 combinations of topology_check / bottom_up_incidences", **FILE_JOB),
    dict(name="file-roundtrip-split", harness="C06_file.cpp", entries=["harness_roundtrip_split"], shards=[{2: k} for k in (1, 2, 3)], timeout=600,
         bounds="the TET file with its VERT chunk [0,4) re-encoded as two chunks [0,k)+[k,4), k = 1, 2, 3 (an encoding the published format permits: 'chunks split into spans'), 12 SYMBOLIC coordinates: "
                "reads Ok, same topology handle for handle, every vertex gets the coordinates of its own span position bit for bit", **FILE_JOB),
    dict(name="file-roundtrip-fixed", harness="C06_file.cpp", entries=["harness_roundtrip_fixed"], shards=[{0: FM_TET}, {0: FM_TETP}], timeout=600, tiers=["thorough"],
         bounds="same files, the writer's own coordinates and property values (no substitution) compare equal to the written mesh", **FILE_JOB),
    dict(name="reader-edge-chunk-vs-format", harness="C07_file.cpp", entries=["harness_c06_edge_chunk"], shards=[{0: 1, 1: 1}, {0: 2, 1: 1}, {0: 4, 1: 1}], timeout=600, tiers=["thorough"],
         bounds="BinaryFileReader::read_topo_chunk (via OVMVerifAccess) on a one-edge TOPO chunk, 4 vertices read so far: symbolic span.first (64 bit), handle_encoding byte, "
                "handle_offset (64 bit), handle bytes (2 x 1/2/4 bytes): an accepted chunk stores handle + handle_offset (published TopoChunkHeader), a chunk valid under the "
                "published layout is accepted", **FILE_JOB),
]
