_c09_common = dict(harness="C09_rotation.cpp", entries=["harness_c09"], units=CORE, unwind=26, object_bits=13, witness_any=True, checks="none",
                   timeout={"quick": 900, "thorough": 2400}, mem_gb=3)
def _none(bases, modes):
    return [{0: b, 1: md, 2: OP_NONE, 3: 0} for b in bases for md in modes]
PROPS["C09"] = dict(
  jobs=[
    dict(name="c09", **_c09_common,
         shards={"quick": _none([B_TET2_FACE, B_TET3_RING, B_TET3_FAN, B_TET, B_TET_ODD], [1]) + op_shards([B_TET3_RING], [1], [OP_DEL_C], per=4) + op_shards([B_TET2_FACE], [0, 1, 3], [OP_DEL_C], per=4) + op_shards([B_TET3_FAN], [1], [OP_DEL_C], per=4)
                        + op_shards([B_TET2_FACE], [1], [OP_SWAP_C, OP_BU_TOGGLE], per=4)[:5],
                 "thorough": _none([B_PRISM_PYR, B_HEX2, B_HEX, B_TET2_EDGE, B_TWOFACE], [1]) + op_shards([B_TET3_RING, B_TET3_FAN], [0, 1, 3], [OP_DEL_C, OP_DEL_F], per=4)
                        + op_shards([B_TET2_FACE], [0, 1, 3], [OP_DEL_F, OP_DEL_E, OP_DEL_V], per=4) + op_shards([B_TET2_FACE], [1], [OP_SWAP_F, OP_SWAP_E, OP_SWAP_C, OP_BU_TOGGLE], per=4)
                        + _with(op_shards([B_TET3_RING, B_TET3_FAN], [1, 3], [OP_GC], per=4), {4: OP_DEL_C, 5: 1}) + op_shards([B_TET3_RING], [1], [OP_SWAP_C, OP_SWAP_F], per=4)},
         bounds="bases: two tets sharing a face, three tets in a closed ring around an edge, three tets in an open fan (cells attached out of order); thorough adds prism+pyramid, two hexahedra, two tets sharing only an edge; "
                "after 0..2 operations from {delete_cell/face/edge/vertex in three deletion modes, collect_garbage, swap_*_indices, bottom-up toggling} chosen by a symbolic selector (4 argument tuples per query); "
                "every halfedge enumerated, position in the reported sequence symbolic; closed cells: every (halfface, halfedge) of a symbolic cell"),
  ],
  assumptions=["edges that are not a single fan (decided by a brute-force predicate over the stored definitions) and cells containing both halffaces of one face are skipped by the oracle (the latter: outside the bases built here)",
               "hexahedral adjacent_halfface_on_sheet/on_surface are decided in C16"],
)
