# C13: mesh copy / assignment.  shard params: 0 mesh type (0 TopologyKernel, 1 GeometryKernel<Vec3i,TopologyKernel>), 1 copy kind
# (0 copy ctor, 1 assign onto empty, 2 assign onto a non-empty mesh with its own properties and held handles, 3 self-assignment, 4 copy of a
# copy), 2 source base, 3 pending deferred deletion (0 none, 1 last edge, 2 vertex 0), 4 chunk of the (side, mutation) alphabet, 5 oracle level
C13_UNITS = CORE + ["FileManager/TypeNames.cc"]
C13_MIXED_UNITS = C13_UNITS + ["Mesh/TetrahedralMeshTopologyKernel.cc", "Mesh/HexahedralMeshTopologyKernel.cc", "Mesh/TetrahedralMeshIterators.cc", "Mesh/HexahedralMeshIterators.cc"]
def _c13_mut_count(base):
    nv, ne, nf, nc = BASE_COUNTS[base]
    return nv + ne + nf + nc + 15
def _c13_shards(types, kinds, bases, pends, chunks=None, per=2, level1=True):
    out = []
    for t in types:
        for k in kinds:
            for b in bases:
                for p in pends:
                    n = (2 * _c13_mut_count(b) + per - 1) // per
                    for c in (range(n) if chunks is None else chunks):
                        out.append({0: t, 1: k, 2: b, 3: p, 4: c, 5: 1 if (c == 0 and level1) else 0})
    return out
# quick tier: chunks of the B_LOWDIM alphabet (2 per query; side 0 = source mutated: k = 0..25, side 1 = copy mutated: 26 + k) that cover every KIND of mutation on each side:
# 0: delete_vertex(0,1); 5: delete_face(0), add_vertex; 7: swap_vertex_indices (two pairs); 9: collect_garbage; 10: clear(), write persistent int; 12: write private, position write;
# 13: copy: delete_vertex(0,1); 18: copy: delete_face, add_vertex; 23: copy: clear(), write persistent int clone; 24: copy: write persistent bool clone, write held shared; 25: copy: write held private, position
_C13_QUICK_CHUNKS = [0, 5, 7, 9, 10, 12, 13, 18, 23, 24, 25]
_C13_BOUNDS = ("source = base mesh (B_LOWDIM: 5V/5E/1F with a dangling and a duplicate edge and an isolated vertex; B_TET: one tetrahedron) built through the real API, "
               "with 0-1 pending deferred deletion, symbolic vertex positions (Vec3i), shared int 's', private anonymous bool, persistent int 'p' and bool 'q' vertex properties "
               "with symbolic values, all handles held; target of kind 2 = B_TRI2 with its own shared 's', persistent 'p', private properties and held handles. After the copy: "
               "observable snapshot/counts/flags/modes/positions equal, bottom-up oracle of the copy at symbolic probes (quick: level 0 = the three incidence caches; thorough: level 1 = + derived circulators in chunk 0), persistent clones "
               "with equal values (symbolic probe), non-persistent not findable; then ONE mutation on either side, selector-dispatched 2 per query over: delete_vertex/edge/face/cell of "
               "EVERY entity, add_vertex, add_edge (new and duplicate), swap_vertex/edge/face/cell_indices (first/last, one more vertex pair), collect_garbage, clear(), "
               "symbolic-index symbolic-value writes to the persistent int / persistent bool / shared / private property, a symbolic position write; the other side's "
               "snapshot, registry counts, persistent values and (for the source) non-persistent values are unchanged; held handles sized to their own mesh and written through")
PROPS["C13"] = dict(
  jobs=[
    dict(name="c13-indep", harness="C13_copy.cpp", entries=["harness_c13"], units=C13_UNITS, unwind=26, unwindset=["strlen.0:64", "bcmp.0:64"], eh=False, checks="mem", object_bits=13, witness_any=True,
         shards={"quick": _c13_shards([1], [0], [B_LOWDIM], [1], chunks=_C13_QUICK_CHUNKS, level1=False) + _c13_shards([1], [2], [B_LOWDIM], [1], chunks=[13, 18, 23, 24, 25], level1=False),
                 "thorough": _c13_shards([0, 1], [0, 2], [B_LOWDIM], [1]) + _c13_shards([1], [0, 2], [B_LOWDIM], [0, 2]) + _c13_shards([1], [1, 4], [B_LOWDIM], [1]) + _c13_shards([1], [0, 2], [B_TET], [1])},
         timeout={"quick": 450, "thorough": 1200}, mem_gb=6,
         bounds=_C13_BOUNDS + "; quick: geometry kernel (its copy/assignment runs TopologyKernel's and ResourceManager's), copy construction and assignment onto a non-empty mesh, B_LOWDIM with one pending deleted edge; thorough (not measured as a whole): all 26 chunks for both mesh types with a pending deleted edge, geometry kernel also with no / a pending deleted vertex, + assignment onto an empty mesh and copy of a copy, + B_TET (geometry kernel, pending deleted edge)"),
    dict(name="c13-kinds", harness="C13_copy.cpp", entries=["harness_c13"], units=C13_UNITS, unwind=26, unwindset=["strlen.0:64", "bcmp.0:64"], eh=False, checks="mem", object_bits=13, witness_any=True,
         shards={"quick": _c13_shards([0, 1], [1, 3, 4], [B_LOWDIM], [0], chunks=[0], level1=False) + _c13_shards([0], [0, 2], [B_LOWDIM], [1], chunks=[0], level1=False),
                 "thorough": _c13_shards([0, 1], [1, 3, 4], [B_TET], [1], chunks=[0]) + _c13_shards([0, 1], [3], [B_LOWDIM], [1, 2], chunks=[0])},
         timeout={"quick": 450, "thorough": 1200}, mem_gb=6,
         bounds=_C13_BOUNDS + "; assignment onto an empty mesh, self-assignment, copy of a copy (intermediate destroyed before the checks): equality checks + first chunk of mutations (delete_vertex of vertices 0 and 1); quick also runs that chunk for the plain TopologyKernel with copy construction / assignment onto a non-empty mesh"),
    dict(name="c13-mixed", harness="C13_mixed.cpp", entries=["harness_c13_mixed"], units=C13_MIXED_UNITS, unwind=26, unwindset=["strlen.0:64", "bcmp.0:64"], eh=False, checks="mem",
         witness_any=True,   # the end-of-harness witness is instantiated once per kernel pair (3 copies); a shard (one pair) reaches exactly its own copy
         object_bits=13, tiers=["thorough"], shards=[{0: k, 1: p} for k in (0, 1, 2) for p in (0, 1)], timeout=1200, mem_gb=8,
         bounds="mixed-type assignment through GeometryKernel's templated operator=: tetrahedral <- polyhedral and polyhedral <- tetrahedral (source: one tetrahedron, the latter built "
                "through the tetrahedral kernel's add_face/add_cell overrides), hexahedral <- polyhedral (source B_LOWDIM, no cells); 0-1 pending deferred deletion; symbolic positions and "
                "property values; target with its own vertex, shared and persistent property and held handles; after the assignment: equal snapshot/flags/positions, bottom-up oracle "
                "level 0, persistent clones equal, then symbolic property writes + add_vertex on the target and symbolic property/position writes + add_vertex on the source with the "
                "other side unchanged (single path per shard, no selector)"),
  ],
  assumptions=[
    "heap address order = allocation order (rt.c v_plt), std::make_shared control block typed as {refcounts, T}, std::string SSO buffer as 16 bytes, __libc_single_threaded = 1 (see C14)",
    "exceptions are not modelled in these jobs (no operation of the harness throws on its paths); allocation failure out of scope",
    "native replays suppress UBSan's vptr report for detail::Tracked<PropertyStorageBase>'s constructor/destructor downcast (harness/c14_native.h)",
    "outside the bound: mixed-type assignment in the quick tier (thorough: job c13-mixed), assignment of content that is illegal for the target kernel, bases larger than one tetrahedron, more than one pending deletion, more than one mutation after the copy, edge/face/cell/halfedge/halfface/mesh properties, value types other than int/bool/Vec3i",
  ],
)
