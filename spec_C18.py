# C18 (file / stream / chunk-reader level): whole-file harnesses on the real OVMB reader through the public entry point
# IO::ovmb_read, memory-stream model models/stream_model.cpp, valid files generated at check time by tools/gen_ovmb.cpp.
# Unit-level companions: spec_C18_units.py (C18_UNIT_JOBS), appended below when present.
import os as _os18
_u18 = _os18.path.join(_os18.path.dirname(_os18.path.abspath(_f)), "spec_C18_units.py")
if "C18_UNIT_JOBS" not in globals() and _os18.path.exists(_u18):
    exec(compile(open(_u18).read(), _u18, "exec"), globals())

# units of the OVMB reader/writer + CORE; FileManager/{TypeNames,Serializers}.cc only satisfy the NATIVE link of the generator and
# of the replay build (PropertyStorageT<T>::serialize/typeNameWrapper virtuals), nothing of them is reached symbolically
FILE_UNITS = ["IO/detail/BinaryFileReader.cc", "IO/detail/BinaryIStream.cc", "IO/detail/BinaryFileWriter.cc", "IO/detail/GeometryReader.cc",
              "IO/detail/GeometryWriter.cc", "IO/detail/Decoder.cc", "IO/detail/Encoder.cc", "IO/detail/WriteBuffer.cc", "IO/detail/ovmb_codec.cc",
              "IO/detail/ovmb_format.cc", "IO/PropertyCodecs.cc", "IO/enums.cc"] + CORE + ["FileManager/TypeNames.cc", "FileManager/Serializers.cc"]
# keys shared by every file-level job (C18, C06 c, C07 reader level)
FILE_JOB = dict(units=FILE_UNITS, eh=True, checks="mem", object_bits=13, unwind=130,
                extra_models=["stream_model.cpp"],                      # std::istream::read/tellg/seekg, std::ostream::write/flush on a memory buffer
                pregen=["tools/gen_ovmb.cpp"],                          # valid files from the REAL writer of the current tree -> <work>/cfg/gen/c18_files.inc
                drop_functions=["_GLOBAL__sub_I_PropertyCodecs.cc"],    # static initialiser of g_default_property_codecs (30 codecs x 7 entity kinds) left out
                cbmc_flags=["--max-field-sensitivity-array-size", "512"],   # byte buffers up to 512 bytes are tracked per element (constant propagation)
                native_flags=["-fno-sanitize=vptr"],                    # UBSan's vptr check fires in OpenVolumeMesh::detail::Tracked<>::~Tracked (unrelated to these properties)
                witness_any=True, mem_gb=6)
FM_EMPTY, FM_TET, FM_TETP = 0, 1, 2
_LEN = {FM_EMPTY: 64, FM_TET: 352, FM_TETP: 440}             # file sizes (asserted by harness_valid's witness; blocks beyond the file are no-ops)
_CHUNKS = {FM_EMPTY: [48], FM_TET: [48, 176, 232, 288, 336], FM_TETP: [48, 88, 216, 272, 328, 376, 424]}
_MUST_REJECT = {FM_EMPTY: 28, FM_TET: 212, FM_TETP: 259}     # bytes in the must-reject field set; 5 value slots each
def _blocks(n): return list(range((n + 7) // 8))
def _all(which): return [{0: which, 1: b} for b in _blocks(_LEN[which])]
def _bound(which): return [{0: which, 1: b} for b in sorted(set([0] + [o // 8 for o in _CHUNKS[which]] + [(o - 1) // 8 for o in _CHUNKS[which]] + [(_LEN[which] - 1) // 8]))]
def _subst(which, one): return [{0: which, 1: b, 2: 1 if one else 0} for b in _blocks(_MUST_REJECT[which] * (1 if one else 5))]
_C18F = dict(harness="C18_file.cpp", timeout={"quick": 600, "thorough": 1800}, **FILE_JOB)
_FILES = ("files written by the real writer from the current tree: EMPTY (empty mesh, 64 bytes), TET (one tetrahedron with Vec3d positions, 352 bytes, "
          "chunks VERT/TOPO-edges/TOPO-faces/TOPO-cells/EOF), TETP (TET + one persistent int vertex property, 440 bytes, + DIRP/PROP); read through "
          "IO::ovmb_read into GeometryKernel<Vec3d,TopologyKernel> with default ReadOptions; ")

PROPS["C18"] = dict(
  jobs=[
    dict(name="file-valid", entries=["harness_valid"], shards={"quick": [{0: FM_EMPTY}, {0: FM_TET}], "thorough": [{0: FM_EMPTY}, {0: FM_TET}, {0: FM_TETP}]},
         bounds=_FILES + "the unmodified files read Ok (sanity: the reader does not reject everything)", **_C18F),
    dict(name="file-trunc-empty", entries=["harness_trunc"], shards=_all(FM_EMPTY),
         bounds=_FILES + "EMPTY cut at EVERY length L = 0..63 (symbolic selector, 8 lengths per query): header cut, chunk-header cut, missing EOF chunk", **_C18F),
    dict(name="file-trunc-tet", entries=["harness_trunc"], shards=_all(FM_TET), tiers=["thorough"],
         bounds=_FILES + "TET cut at every length L = 0..351 (thorough tier only: not measured in CBMC under the time limit; all 352 lengths were enumerated natively)", **_C18F),
    dict(name="file-trunc-tetp", entries=["harness_trunc"], shards=_all(FM_TETP), tiers=["thorough"],
         bounds=_FILES + "TETP cut at every length L = 0..439 (thorough tier only, not measured in CBMC)", **_C18F),
    dict(name="file-fault-empty", entries=["harness_fault"], shards=_all(FM_EMPTY),
         bounds=_FILES + "EMPTY with the stream delivering nothing from EVERY offset P = 0..63 on (istream::read short, stream failed)", **_C18F),
    dict(name="file-fault-tet", entries=["harness_fault"], shards=_all(FM_TET), tiers=["thorough"],
         bounds=_FILES + "TET with the stream failing from every offset P = 0..351 (thorough tier only, not measured in CBMC)", **_C18F),
    dict(name="file-fault-tetp", entries=["harness_fault"], shards=_all(FM_TETP), tiers=["thorough"],
         bounds=_FILES + "TETP with the stream failing from every offset P = 0..439", **_C18F),
    dict(name="file-subst-empty", entries=["harness_subst"], shards=_subst(FM_EMPTY, False),
         bounds=_FILES + "EMPTY: every byte of the must-reject field set (magic, header_version, reserved, topo_type made invalid, chunk type/version of a mandatory chunk, "
                "padding_bytes, file_length) replaced by each of the boundary values orig^0x01, orig^0x80, 0x00, 0xff and the smallest constraint-violating value", **_C18F),
    dict(name="file-subst-tet", entries=["harness_subst"], shards={"quick": [{0: FM_TET, 1: 46, 2: 0}], "thorough": _subst(FM_TET, False)},
         bounds=_FILES + "TET: every byte of the must-reject field set (as EMPTY plus padding bytes, span first/count, vertex/entity/valence/handle encodings, valence, "
                "handle_offset and handle bytes made >= the number of referenced entities) x 5 boundary values (thorough: all 133 blocks; quick: only block 46 = cases 368..375, "
                "valence_encoding/handle_encoding/handle_offset bytes of the EDGES chunk -- the one block measured in CBMC)", **_C18F),
    dict(name="file-subst-tetp", entries=["harness_subst"], shards=_subst(FM_TETP, False), tiers=["thorough"],
         bounds=_FILES + "TETP: as TET plus the DIRP/PROP chunk headers, PROP span and property index", **_C18F),
    dict(name="file-subst-compression", entries=["harness_subst_compression"], shards={"quick": [{0: FM_EMPTY, 1: 0}], "thorough": [{0: FM_EMPTY, 1: 0}] + [{0: FM_TET, 1: b} for b in range(4)]},
         bounds=_FILES + "the chunk header's compression byte ('not specified yet, must always be 0') of every chunk replaced by boundary values (quick: the EMPTY file; thorough: + TET): "
                "the reader cannot decode such a payload and must not return Ok (defect fixed in 4a2fd2e)", **_C18F),
    dict(name="file-struct", entries=["harness_struct"], shards={"quick": [{0: FM_TET, 1: 0}], "thorough": [{0: FM_TET, 1: 0}, {0: FM_TET, 1: 1}, {0: FM_TETP, 1: 0}]},
         bounds=_FILES + "forbidden chunk sequences: TET: EOF dropped / duplicated / not last / first, EDGES|FACES|CELLS dropped, VERT|EDGES|FACES|CELLS duplicated, FACES before "
                "EDGES, CELLS before FACES (13 cases); TETP: second DIRP, DIRP dropped, PROP before DIRP, EOF before PROP, EOF dropped (5 cases)", **_C18F),
    # ---- writer side: "a write failure while saving produces an error result, never Ok" (real IO::ovmb_write on the ostream model; needs the
    #      OVM_VERIF hook in BinaryFileWriter.hh that replaces the 100 MB preallocation of the chunk buffer by 64 bytes)
    dict(name="file-write-ok", harness="C18_write.cpp", entries=["harness_write_ok"], shards=[{0: FM_EMPTY}, {0: FM_TET}, {0: FM_TETP}], timeout=600,
         bounds="the real writer, executed symbolically on a working stream, returns Ok and produces byte for byte (symbolic probe offset) the file the natively run writer produced for "
                "EMPTY / TET / TETP (also validates the encoding of the writer)", **FILE_JOB),
    dict(name="file-write-fault", harness="C18_write.cpp", entries=["harness_write_fault"], timeout={"quick": 600, "thorough": 1800},
         shards={"quick": [{0: FM_EMPTY, 1: 0}] + [{0: FM_TET, 1: b} for b in range(4)], "thorough": [{0: FM_EMPTY, 1: 0}] + [{0: FM_TET, 1: b} for b in range(4)] + [{0: FM_TETP, 1: b} for b in range(5)]},
         bounds="IO::ovmb_write of EMPTY / TET (thorough: + TETP) on an output stream that stores nothing and turns bad from byte offset P on, P enumerated by a symbolic selector (8 per query) over: "
                "file header bytes 0, 1, 47 and, for every chunk incl. the end-of-file chunk, its first and second byte, last chunk-header byte, first payload byte and last byte; result must not be Ok", **FILE_JOB),
    dict(name="file-write-fault-sym", harness="C18_write.cpp", entries=["harness_write_fault_sym"], shards=[{0: FM_EMPTY}], timeout=1800, tiers=["thorough"],
         bounds="IO::ovmb_write of EMPTY with the fault offset P a FREE symbolic value in 0..63 (every offset of the 64-byte file)", **FILE_JOB),
  ] + globals().get("C18_UNIT_JOBS", []),
  assumptions=[
    "stream model: std::istream::read/tellg/seekg(off,dir)/seekg(pos) (the only members the reader calls, never the stream state) operate on a harness-owned byte buffer "
    "(models/stream_model.cpp); a stream fault = from offset P on read() delivers nothing and the stream is failed; natively the same harness runs on a real std::istream over a std::streambuf",
    "the codec registry handed to ovmb_read holds only the codec of the file's property (\"i32\"), registered through the real PropertyCodecs::register_codec; the default registry "
    "g_default_property_codecs (static initialiser of IO/PropertyCodecs.cc) is not encoded (30 codecs x 7 entity kinds = 2077 virtual-call targets: CBMC out of memory at 10 GB)",
    "truncation length, fault offset, substituted (offset,value) and chunk sequence are enumerated through a symbolic selector (every value in the stated range is a case); a free symbolic "
    "replacement byte / length gave no verdict (path merging turns container shapes symbolic: 600 s timeout for 8 cases on the 64-byte file)",
    "outside the bound: files of other meshes (hexahedra, several cells, more properties, split spans, U16/U32 handle encodings), substitution values other than the 5 boundary values per byte; "
    "writer side: fault offsets other than the enumerated ones for TET/TETP (every offset only for EMPTY, thorough tier)",
    "ostream model (models/stream_model.cpp): std::ostream::write appends to a harness-owned buffer; from byte offset P on it stores nothing and sets badbit (what a full disk / closed pipe does); "
    "ostream::good() is the real inline libstdc++ code reading that state",
  ],
)
