# C18 unit-level companions (header validation in IO/detail/ovmb_codec.cc).  NOT registered in PROPS: the whole-file owner of
# PROPS["C18"] includes this list (e.g. `PROPS["C18"]["jobs"] += C18_UNIT_JOBS`).
# NOTE: specs.py exec's spec_C*.py in sorted order and "spec_C18.py" sorts BEFORE "spec_C18_units.py"; a spec_C18.py that wants
# the list at exec time can do `exec(open(os.path.join(os.path.dirname(_f), "spec_C18_units.py")).read())` first (idempotent).
_C18U_UNITS = ["IO/detail/Decoder.cc", "IO/detail/ovmb_codec.cc", "IO/detail/ovmb_format.cc", "IO/detail/Encoder.cc", "IO/detail/WriteBuffer.cc"]
_C18U = dict(harness="C18_units.cpp", units=_C18U_UNITS, unwind=60, eh=True, checks="mem", timeout=300, mem_gb=4)
C18_UNIT_JOBS = [
    dict(name="unit-header-substitution", entries=["harness_file_header_substitution", "harness_chunk_header_substitution",
                                                   "harness_vertex_chunk_header_substitution", "harness_topo_chunk_header_substitution"],
         bounds="bytes written by the real write() for symbolic VALID contents of FileHeader / ChunkHeader / VertexChunkHeader / TopoChunkHeader (all fields full width), "
                "ONE byte at a symbolic offset replaced by a symbolic different value: read() refuses exactly the must-reject set (magic, header_version, reserved bytes, "
                "topo_type/entity/encoding enums out of range, flags > 1, padding_bytes > file_length); every other change arrives in the decoded struct", **_C18U),
    dict(name="unit-header-truncation-file", entries=["harness_file_header_truncation"], shards=[{0: c} for c in range(6)],
         bounds="every strict prefix (0..47 bytes, exact allocation) of a valid 48-byte file header with symbolic contents: parse_error, nothing read", **_C18U),
    dict(name="unit-header-truncation-chunk", entries=["harness_chunk_header_truncation"],
         bounds="every strict prefix (0..15 bytes) of 16 symbolic bytes presented as chunk header: parse_error, nothing read", **_C18U),
    dict(name="unit-header-truncation-sub", entries=["harness_sub_header_truncation"], shards=[{0: w} for w in range(4)],
         bounds="VertexChunkHeader / TopoChunkHeader / PropChunkHeader / ArraySpan read() on 0..24 symbolic bytes (exact allocation): parse_error whenever shorter than the "
                "header (16/24/16/12 bytes), nothing read", **_C18U),
]
