_c20_common = dict(harness="C20_readonly.cpp", entries=["harness_c20"], units=CORE, unwind=70, object_bits=13, checks="none", ll2c_flags=["--store-hook"], keep_atomics=True,
                   rt_extra=["rt_c20.c"], rt_defines=["V_C20"], unwindset=["v_is_shared.1:601"], timeout={"quick": 900, "thorough": 2400}, mem_gb=3)
PROPS["C20"] = dict(
  jobs=[
    dict(name="c20-core", witness_any=True, const_coverage=["14TopologyKernel", "15ResourceManager"], **_c20_common,
         shards={"quick": [{0: B_TET, 1: g, 2: p, 4: sl} for g in range(6) for p in (0, 1) for sl in (range(4) if 1 <= g <= 4 else [0]) if p == 1 or g in (0, 5)],   # groups 1-4 without pending deletion: thorough
                 "thorough": [{0: B_TET, 1: g, 2: 0, 4: sl} for g in range(1, 5) for sl in range(4)] + [{0: b, 1: g, 2: p, 4: sl} for b in (B_TET2_FACE, B_LOWDIM, B_HEX) for g in range(6) for p in (0, 1) for sl in (range(4) if 1 <= g <= 4 else [0])]},
         bounds="one tetrahedron (thorough: two tets, low-dimensional mesh, hexahedron), with and without a pending deferred deletion; after the epoch mark each query group runs the const API through a const reference: "
                "group 0 counts/flags/definitions/handle accessors with SYMBOLIC handles; groups 1-5 lookups, all 26 circulators (construction, ++ over a full lap, --), entity/boundary iterators and ranges with every centre enumerated. "
                "Every store, memcpy/memset/memmove destination, atomic RMW/cmpxchg and operator delete executed in ANY function is instrumented and asserted not to designate the mesh object, a heap block allocated before the epoch, or any writable object with static storage duration (globals, function-local statics)"),
  ],
  assumptions=["sequential reduction (DESIGN.md C20): absence of writes to pre-existing state by every read-only operation implies absence of data races and schedule-independent results for any number of reader threads; "
               "interleavings themselves are not enumerated (CBMC's thread support is out of reach for IR-derived C with heap containers)",
               "property reads through existing handles, tetrahedral/hexahedral kernels and GeometryKernel const members: thorough tier / not yet covered (stated in coverage)",
               "native confirmation of a counterexample compares a byte snapshot of the shared state before/after (a write that restores the old value is confirmed by reading only)"],
)
