_c12_common = dict(harness="C12_bottom_up_optional.cpp", entries=["harness_c12"], units=CORE, unwind=26, object_bits=13, witness_any=True, checks="mem",
                   timeout={"quick": 1200, "thorough": 3000}, mem_gb=4)
_DELS = [OP_DEL_V, OP_DEL_E, OP_DEL_F, OP_DEL_C]
PROPS["C12"] = dict(
  jobs=[
    dict(name="c12", ll2c_flags=["--null-guard"], **_c12_common,
         shards={"quick": _with(op_shards([B_TET], [3], [OP_DEL_V, OP_DEL_F, OP_DEL_C], per=2) + op_shards([B_TET], [3], [OP_DEL_E], per=2)[:1], {7: 15})
                        + [d for sub in (10, 12) for d in _with(op_shards([B_TET], [3], [OP_DEL_F], per=2)[:1] + op_shards([B_TET], [3], [OP_DEL_C], per=2) + op_shards([B_TET], [3], [OP_DEL_E], per=2)[:1], {7: sub})]
                        + _with(op_shards([B_TET], [0], [OP_DEL_E], per=2)[:1], {7: 15})
                        + _with(op_shards([B_LOWDIM], [0], [OP_ADD_E], per=2)[:1], {7: 9}),
                 "thorough": _with(op_shards([B_LOWDIM], [1], [OP_ADD_V, OP_GC, OP_CLEAR], per=2), {7: 15}) + [d for sub in (15, 7, 9, 10, 12, 11, 13, 14) for md in (0, 1, 3) for d in _with(op_shards([B_TET], [md], _DELS, per=2), {7: sub})]
                        + [d for sub in (15, 10, 12) for d in _with(op_shards([B_TET2_FACE], [3], _DELS, per=2), {7: sub})]
                        + [d for sub in (15, 9) for d in _with(op_shards([B_LOWDIM], [0], [OP_ADD_E, OP_ADD_E_DUP], per=2), {7: sub})]},
         bounds="differential (also after a deferred pre-deletion): fully enabled twin vs. mesh with a subset of {vertex, edge, face} bottom-up incidences disabled (before or after the base is built); one operation (delete_*, add_edge, add_vertex, "
                "collect_garbage, clear) with a symbolic selector over 2 argument tuples per query; CBMC pointer/bounds checks on every access; circulator validity; C01 oracle (level 1) after re-enabling"),
    # two-step histories (deferred pre-deletion, then the checked operation) without CBMC's per-access pointer checks (the null-guard of the translator stays on):
    # with them one query takes > 650 s, which does not fit the quick budget
    dict(name="c12-k2", ll2c_flags=["--null-guard"], **dict(_c12_common, checks="none"),
         shards={"quick": _with(op_shards([B_TET], [1], [OP_DEL_E], per=2)[:2], {4: OP_DEL_F, 5: 0, 7: 10}),
                 "thorough": [d for sub in (10, 12, 9) for pre in (OP_DEL_F, OP_DEL_C) for d in _with(op_shards([B_TET], [1], [OP_DEL_E, OP_DEL_V], per=2), {4: pre, 5: 0, 7: sub})]},
         bounds="as c12 after a deferred pre-deletion (delete_face(0) / delete_cell(0) under deferred deletion, then the checked delete_edge/delete_vertex with edge (quick), face or vertex incidences disabled): "
                "the fallback scans must skip the deferred-deleted entities; translator null-guard on, CBMC pointer/bounds checks off"),
  ],
  assumptions=["swaps with disabled incidences are decided in C17 (job c17-nobu), deletion results without incidences against the reference model in C02 (job c02-nobu)"],
)
