# C19: vector algebra (VectorT) and GeometryKernel queries against their defining formulas.  See DESIGN.md section C19.
# Back ends: cvc5 decides "same formula, same association order" obligations by term identity (seconds) where the SAT
# back ends do not finish (two copies of a multiplier / IEEE adder); minisat/cadical decide the relational ones
# (max/min/minimize...).  Mesh-level jobs (geom-*) can only use SAT back ends: CBMC's SMT2 conversion fails on them.
_C19_INT_TAGS = ["i2", "i3", "i4", "u2", "u3", "u4"]
_C19_SIGNED = ["i2", "i3", "i4"]
_C19_FP_QUICK = ["f3", "f4", "d3"]
_C19_FP_MORE = ["d2", "d4"]
_C19_GEOM_UNITS = CORE + ["FileManager/TypeNames.cc"]   # TypeNames.cc: typeName<Vec3i/Vec3d>() for the native replay link

def _c19_e(kinds, tags):
    return ["harness_%s_%s" % (k, t) for t in tags for k in kinds]

_C19_WRAP = ("signed overflow: two's-complement wrap on both sides (what the compiled code does; undefined in C++), except where stated")
_C19_FP_EQ = ["ctor", "lin", "mean", "mul", "dot", "div", "norm", "normalized", "normalize", "normalize_cond"]
_C19_FP_REL = ["red", "maxmin", "maxabs"]

_C19_FP_EQ_BOUNDS = ("every component/scalar an arbitrary bit pattern (NaN, inf, denormals, -0 included): each result equals the defining formula evaluated in IEEE-754 "
    "binary32/64 round-to-nearest in the same association order, bit for bit (or both NaN): constructors, access, swap, float<->double conversion, ->int where |x| < 2^31, "
    "+ - unary- += -=, == != (IEEE comparison), lexicographic < (no NaN), mean, mean_abs, component/scalar * / *= /=, s*v, dot, sqrnorm, cross (dim 3), homogenized (dim 4), "
    "norm/length/normalized/normalize/normalize_cond modulo sqrt (uninterpreted function shared with the oracle); x86-64 baseline code generation (no FMA contraction); "
    "outside: 'within rounding' w.r.t. real arithmetic, stream << >>")
_C19_FP_REL_BOUNDS = ("arbitrary non-NaN bit patterns: max() min() max_abs() min_abs() l8_norm() are attained bounds, min/max/minimize/maximize/minimized/maximized "
    "component-wise (numeric equality; sign of zero not prescribed)")

def _c19_len_shards(bases, sels=None):   # v_param(1): halfedge index, or 2*nE + edge index
    return [{0: b, 1: x} for b in bases for x in (sels if sels is not None else range(3 * BASE_COUNTS[b][1]))]
def _c19_edge_shards(bases):
    return [{0: b, 1: e} for b in bases for e in range(BASE_COUNTS[b][1])]
def _c19_dvec_shards(base, hes):
    return [{0: base, 1: he, 2: k} for he in hes for k in range(6 if he % 2 == 0 else 3)]

PROPS["C19"] = dict(
  jobs=[
    # ---------------------------------------------------------------- integer vectors, full-width symbolic components
    dict(name="vec-int-linear", harness="C19_vec_int.cpp",
         entries=_c19_e(["ctor", "lin", "red"], _C19_INT_TAGS) + _c19_e(["abs"], _C19_SIGNED) + ["harness_l1_u2", "harness_l1_u3", "harness_l1_u4"],
         units=[], unwind=20, solvers=["minisat", "cvc5"], timeout=300, mem_gb=2,
         bounds="VectorT<int|unsigned, 2|3|4>, every component and scalar a free 32-bit value: constructors (value, variadic, iterator, copy), operator[], data(), "
                "iterators, swap, vectorize(d), conversions (int<->unsigned, ->double->back, ->long long, ->short), + - unary-, += -=, == != , lexicographic <, "
                "max() min() mean(), min/max/minimize/maximize/minimized/maximized (returned flag: only 'a decreased coordinate is signalled' and 'no signal => unchanged'), "
                "signed only: max_abs min_abs l8_norm mean_abs with components != INT_MIN (mean_abs: sum |x_i| <= INT_MAX), unsigned l1_norm; " + _C19_WRAP +
                "; outside: other scalar types and dimensions, apply(), stream << >>"),
    dict(name="vec-int-products", harness="C19_vec_int.cpp",
         entries=_c19_e(["mul", "div", "norm"], _C19_INT_TAGS) + ["harness_cross_i3", "harness_cross_u3"],
         units=[], unwind=20, solvers=["cvc5", "cadical", "z3"], timeout=300, mem_gb=2,
         bounds="VectorT<int|unsigned, 2|3|4>, free 32-bit components and scalar: component-wise and scalar * / *= /=, s*v, dot (| dot() free dot), sqrnorm, cross (% cross() free cross, dim 3), "
                "homogenized (dim 4); division: divisor != 0 and not INT_MIN / -1; norm()/length() == sqrt((double)sqrnorm) with sqrt an uninterpreted function shared by "
                "implementation and oracle; " + _C19_WRAP + "; outside: normalize on integer vectors"),
    dict(name="vec-l1norm", harness="C19_vec_int.cpp", entries=["harness_l1_i2", "harness_l1_i3", "harness_l1_i4"],
         units=[], unwind=20, solvers=["minisat"], timeout=300, mem_gb=2,
         bounds="VectorT<int, 2|3|4>, free 32-bit components != INT_MIN: l1_norm() == sum |x_i| (wrapping sum)"),
    # ---------------------------------------------------------------- floating-point vectors, arbitrary bit patterns
    dict(name="vec-fp-formula", harness="C19_vec_fp.cpp", entries=_c19_e(_C19_FP_EQ, _C19_FP_QUICK) + ["harness_cross_f3", "harness_cross_d3"],
         units=[], unwind=20, solvers=["cvc5"], timeout=300, mem_gb=4, bounds="VectorT<float,3>, VectorT<float,4>, VectorT<double,3>: " + _C19_FP_EQ_BOUNDS),
    dict(name="vec-fp-formula-more", harness="C19_vec_fp.cpp", entries=_c19_e(_C19_FP_EQ, _C19_FP_MORE), tiers=["thorough"],
         units=[], unwind=20, solvers=["cvc5"], timeout=600, mem_gb=4, bounds="VectorT<double,2>, VectorT<double,4>: " + _C19_FP_EQ_BOUNDS),
    dict(name="vec-fp-order", harness="C19_vec_fp.cpp", entries=_c19_e(_C19_FP_REL, _C19_FP_QUICK),
         units=[], unwind=20, solvers=["minisat", "cvc5"], timeout=300, mem_gb=4, bounds="VectorT<float,3>, VectorT<float,4>, VectorT<double,3>: " + _C19_FP_REL_BOUNDS),
    dict(name="vec-fp-order-more", harness="C19_vec_fp.cpp", entries=_c19_e(_C19_FP_REL, _C19_FP_MORE), tiers=["thorough"],
         units=[], unwind=20, solvers=["minisat", "cvc5"], timeout=600, mem_gb=4, bounds="VectorT<double,2>, VectorT<double,4>: " + _C19_FP_REL_BOUNDS),
    dict(name="vec-fp-l1norm", harness="C19_vec_fp.cpp", entries=_c19_e(["l1"], ["f3", "d3"]),
         units=[], unwind=20, solvers=["minisat"], timeout=300, mem_gb=4,
         bounds="VectorT<float,3>, VectorT<double,3>, finite components with |x| < 1e30: l1_norm() >= |x_i| for every i (a necessary condition of l1_norm() == sum |x_i| under any rounding)"),
    dict(name="vec-fp-float2", harness="C19_vec_fp.cpp", entries=_c19_e(["mean", "norm", "red", "maxmin", "maxabs"], ["f2"]),
         units=[], unwind=20, solvers=["cvc5", "minisat"], timeout=300, mem_gb=4,
         bounds="VectorT<float,2>, arbitrary bit patterns: mean, mean_abs, norm/length (modulo sqrt) bit-exact against the formula; max/min/max_abs/min_abs/l8_norm and "
                "min/max/minimize/maximize/minimized/maximized for non-NaN components (the obligations that do not copy the vector, see vec-fp-float2-rest)"),
    dict(name="vec-fp-float2-rest", harness="C19_vec_fp.cpp", tiers=["thorough"],
         entries=_c19_e(["lin", "mul", "normalized"], ["f2"]),   # representative of ctor/lin/mul/dot/div/normalize*: all copy the vector
         units=[], unwind=20, solvers=["cvc5", "minisat"], timeout=300, mem_gb=4,
         bounds="VectorT<float,2>: remaining obligations of vec-fp-formula (clang keeps copies of the 8-byte vector in an i64 temporary accessed through float*; measured: no verdict "
                "in 100-300 s per query - listed as not covered when they time out)"),
    # ---------------------------------------------------------------- GeometryKernel on the base family, symbolic positions
    dict(name="geom-int", harness="C19_geom.cpp", entries=["harness_geom_i_edges", "harness_geom_i_bary"], units=_C19_GEOM_UNITS, unwind=60, object_bits=13,
         solvers=["cadical"], witness_any=True, timeout=300, mem_gb=4,
         shards={"quick": [{0: B_TET}, {0: B_LOWDIM}], "thorough": [{0: b} for b in (B_LOWDIM, B_TRI2, B_TET, B_TET2_FACE)]},
         bounds="GeometryKernel<Vec3i,TopologyKernel> on base meshes (quick: one tetrahedron; triangle+dangling/duplicate edges+isolated vertex), every position component a free "
                "32-bit int: vertex()/set_vertex() round trip for symbolic vertex probes, vector(halfedge)/vector(edge) == position(to)-position(from) for a symbolic halfedge "
                "probe, barycenter(face)/barycenter(cell) == (wrapping sum of the positions of the entity's vertices)/count with C++ integer division, every face and cell of the base"),
    # polyhedral cells whose vertices lie on different numbers of faces (pyramid: apex on 4, base vertices on 3): the mean must weight every vertex once
    dict(name="geom-int-bary-poly", harness="C19_geom.cpp", entries=["harness_geom_i_bary"], units=_C19_GEOM_UNITS, unwind=200, object_bits=13,
         solvers=["cadical"], witness_any=True, timeout=600, mem_gb=4,
         shards={"quick": [{0: B_PRISM_PYR}], "thorough": [{0: b} for b in (B_PRISM_PYR, B_HEX, B_TET2_EDGE, B_TET3_RING)]},
         bounds="barycenter(face)/barycenter(cell) as in geom-int on the prism+pyramid base (7 vertices, triangles and quads, a 5-vertex pyramid and a 6-vertex prism; thorough: + hexahedron, two tets "
                "sharing an edge, three-tet ring), all positions free 32-bit ints; unwind 200 (CBMC accumulates the iteration count of nested harness loops)"),
    dict(name="geom-int-edges-big", harness="C19_geom.cpp", entries=["harness_geom_i_edges"], units=_C19_GEOM_UNITS, unwind=200, object_bits=13, tiers=["thorough"],
         solvers=["cadical"], witness_any=True, timeout=600, mem_gb=4, shards=[{0: b} for b in (B_TET2_EDGE, B_HEX, B_PRISM_PYR)],
         bounds="vertex()/set_vertex() round trip and vector(halfedge)/vector(edge) as in geom-int on two tets sharing an edge, a hexahedron, prism+pyramid; unwind 200"),
    dict(name="geom-int-length", harness="C19_geom.cpp", entries=["harness_geom_i_length"], units=_C19_GEOM_UNITS, unwind=60, object_bits=13,
         solvers=["cadical"], witness_any=True, timeout=300, mem_gb=4,
         shards={"quick": _c19_len_shards([B_TET], [1, 6, 15]), "thorough": _c19_len_shards([B_LOWDIM, B_TET, B_TET2_FACE])},
         bounds="length(halfedge), length(edge) == (int) sqrt((double) wrapping squared norm of position(to)-position(from)), sqrt uninterpreted (shared); one halfedge or edge "
                "per query (quick: halfedges 1, 6 and edge 3 of the tetrahedron; thorough: every halfedge and edge of three bases), all positions free 32-bit ints"),
    dict(name="geom-int-edge-barycenter", harness="C19_geom.cpp", entries=["harness_geom_i_bary_edge"], units=_C19_GEOM_UNITS, unwind=60, object_bits=13,
         solvers=["cadical"], witness_any=True, timeout=300, mem_gb=4,
         shards={"quick": _c19_edge_shards([B_TET])[:2], "thorough": _c19_edge_shards([B_TET, B_LOWDIM])},
         bounds="barycenter(edge), one edge per query (quick: edges 0,1 of the tetrahedron), positions of its end vertices free ints with |x| < 2^30, other vertices fixed: "
                "equals the exact midpoint where that is an integer vector, and is one of the two nearest integers otherwise"),
    dict(name="geom-double", harness="C19_geom.cpp", entries=["harness_geom_d_vertex"], units=_C19_GEOM_UNITS, unwind=60, object_bits=13,
         solvers=["cadical"], witness_any=True, timeout=300, mem_gb=4,
         shards={"quick": [{0: B_TET}], "thorough": [{0: b} for b in (B_LOWDIM, B_TET, B_TET2_FACE, B_HEX)]},
         bounds="GeometryKernel<Vec3d,TopologyKernel>: vertex()/set_vertex() round trip bit-exact for symbolic vertex probes, arbitrary bit patterns"),
    dict(name="geom-double-vector", harness="C19_geom.cpp", entries=["harness_geom_d_vector"], units=_C19_GEOM_UNITS, unwind=60, object_bits=13,
         solvers=["cadical"], witness_any=True, timeout=300, mem_gb=4,
         shards={"quick": [{0: B_TET, 1: 0, 2: 0}, {0: B_TET, 1: 1, 2: 1}, {0: B_TET, 1: 0, 2: 5}], "thorough": _c19_dvec_shards(B_TET, range(12))},
         bounds="GeometryKernel<Vec3d>: vector(halfedge) / vector(edge) == position(to) - position(from) bit for bit, one component of one halfedge per query (quick: three samples on "
                "the tetrahedron; thorough: all components of all 12 halfedges and 6 edges), positions arbitrary double bit patterns"),
  ],
  assumptions=[
    "sqrt/sqrtf are an uninterpreted function shared by implementation and oracle: norm()/length()/normalize*() are decided modulo sqrt",
    "floating point: results are compared with the same formula in the same association order under CBMC's IEEE-754 semantics (round to nearest even), separate multiply and add "
    "(clang emits llvm.fmuladd, which baseline x86-64 executes unfused); 'within rounding' claims that need real error analysis are outside",
    "signed integer overflow is evaluated with two's-complement wrap on both sides (C++ leaves it undefined; where the optimiser exploits that - mean_abs - the claim is restricted to non-overflowing inputs)",
    "not covered (no verdict within the per-query cap, stated, not claimed): GeometryKernel<Vec3d> barycenter/length/normal (SAT back ends do not finish the IEEE multiplier/divider "
    "equivalence; CBMC's SMT2 back end aborts with 'map::at' on mesh-level code), normal(halfface) == -normal(opposite) for either scalar type, NormalAttrib, the vector-copying operations of VectorT<float,2>, "
    "stream operators << >> (iostream), apply()",
  ],
)
