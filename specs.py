"""Per-property job specifications for ovmbmc.py (see DESIGN.md section 2)."""
CORE = ["Core/TopologyKernel.cc", "Core/ResourceManager.cc", "Core/Iterators.cc", "Core/BaseEntities.cc", "Core/Handles.cc",
        "Core/Properties/PropertyStorageBase.cc", "Core/detail/internal_type_name.cc"]

PROPS = {}
PROPS["C08"] = dict(
  jobs=[
    dict(name="handles", harness="C08_handles.cpp", entries=["harness_handles"], units=["Core/Handles.cc"],
         unwind=4, solvers=["minisat"], timeout=300, mem_gb=2,
         bounds="every edge/face index in [0,2^30), every non-negative half-entity index (full int range)"),
  ],
  assumptions=[],
)
