"""Per-property job specifications for ovmbmc.py (see DESIGN.md section 2)."""
CORE = ["Core/TopologyKernel.cc", "Core/ResourceManager.cc", "Core/Iterators.cc", "Core/BaseEntities.cc", "Core/Handles.cc",
        "Core/Properties/PropertyStorageBase.cc", "Core/detail/internal_type_name.cc"]
CORE_PROPS = CORE + ["FileManager/TypeNames.cc"]   # harnesses that create properties need typeName<T>() for the native link

PROPS = {}
# entity counts of the base family (harness/mesh_common.h): base id -> (nV, nE, nF, nC)
B_EMPTY, B_LOWDIM, B_TET, B_TET2_FACE, B_TET2_EDGE, B_TET2_VERTEX, B_TET3_RING, B_HEX, B_HEX2, B_PRISM_PYR, B_TRI2, B_TET3_FAN, B_TWOFACE, B_TET_ODD = range(14)
BASE_COUNTS = {B_EMPTY: (0,0,0,0), B_LOWDIM: (5,5,1,0), B_TET: (4,6,4,1), B_TET2_FACE: (5,9,7,2), B_TET2_EDGE: (6,11,8,2), B_TET2_VERTEX: (7,12,8,2),
               B_TET3_RING: (5,10,9,3), B_HEX: (8,12,6,1), B_HEX2: (12,20,11,2), B_PRISM_PYR: (7,13,9,2), B_TRI2: (4,5,2,0), B_TET3_FAN: (6,12,10,3), B_TWOFACE: (6,13,11,3), B_TET_ODD: (4,6,4,1)}
(OP_NONE, OP_DEL_V, OP_DEL_E, OP_DEL_F, OP_DEL_C, OP_ADD_V, OP_ADD_E, OP_ADD_E_DUP, OP_ADD_F, OP_ADD_C, OP_SWAP_V, OP_SWAP_E, OP_SWAP_F, OP_SWAP_C,
 OP_GC, OP_CLEAR, OP_BU_TOGGLE, OP_SET_E, OP_SET_F, OP_SET_C, OP_ADD_NV, OP_SET_MODE, OP_BU_OFF, OP_READD_C) = range(24)
CASES_PER_QUERY = 8

def op_count(base, op):
    nv, ne, nf, nc = BASE_COUNTS[base]
    return {OP_DEL_V: nv, OP_DEL_E: ne, OP_DEL_F: nf, OP_DEL_C: nc, OP_ADD_V: 1, OP_ADD_NV: 1, OP_GC: 1, OP_CLEAR: 1,
            OP_ADD_E: nv*nv, OP_ADD_E_DUP: nv*nv, OP_SWAP_V: nv*nv, OP_SWAP_E: ne*ne, OP_SWAP_F: nf*nf, OP_SWAP_C: nc*nc, OP_BU_TOGGLE: 14, OP_SET_MODE: 4, OP_BU_OFF: 8, OP_SET_E: ne*nv*nv, OP_SET_F: nf*2, OP_SET_C: nc*2, OP_ADD_F: nv*nv*nv, OP_NONE: 1, OP_READD_C: 1}.get(op, 0)

def op_shards(bases, modes, ops, per=CASES_PER_QUERY):
    out = []
    for b in bases:
        for md in modes:
            for op in ops:
                n = op_count(b, op)
                for ch in range((n + per - 1) // per):
                    out.append({0: b, 1: md, 2: op, 3: ch})
    return out


def op2_shards(bases, modes, op1, op2, which, fixed_range=None, per=CASES_PER_QUERY):
    """K=2 shards for harnesses with the C01 parameter layout: the symbolic selector ranges over the arguments of op1 (which=0)
    or op2 (which=1); the other op's argument index is fixed per shard (every index in fixed_range, default: all)."""
    out = []
    for b in bases:
        for md in modes:
            n_sel = op_count(b, op1 if which == 0 else op2)
            n_fix = op_count(b, op2 if which == 0 else op1)
            for fx in (fixed_range if fixed_range is not None else range(n_fix)):
                for ch in range((n_sel + per - 1) // per):
                    out.append({0: b, 1: md, 2: op1, 3: ch, 4: op2, 5: fx, 6: which})
    return out

def _with(shards, extra):
    """copy of the shard list with extra parameters set"""
    out = []
    for sh in shards:
        d = dict(sh); d.update(extra); out.append(d)
    return out

# per-property job lists live in spec_<id>.py files (exec'd here so they share the helpers above)
import glob as _glob, os as _os
for _f in sorted(_glob.glob(_os.path.join(_os.path.dirname(_os.path.abspath(__file__)), "spec_C*.py"))):
    exec(compile(open(_f).read(), _f, "exec"), globals())

# file-level job lists written by the whole-file harness author are merged into their properties here
if "C06_FILE_JOBS" in globals() and "C06" in PROPS and not any(j["name"] == C06_FILE_JOBS[0]["name"] for j in PROPS["C06"]["jobs"]):
    PROPS["C06"]["jobs"] = PROPS["C06"]["jobs"] + C06_FILE_JOBS
if "C07_FILE_JOBS" in globals() and "C07" in PROPS and not any(j["name"] == C07_FILE_JOBS[0]["name"] for j in PROPS["C07"]["jobs"]):
    PROPS["C07"]["jobs"] = PROPS["C07"]["jobs"] + C07_FILE_JOBS
