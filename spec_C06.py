IO_CODEC = ["IO/detail/Decoder.cc", "IO/detail/Encoder.cc", "IO/detail/WriteBuffer.cc"]
PROPS["C06"] = dict(
  jobs=[
    dict(name="codec-ints", harness="C06_codec.cpp", entries=["harness_codec_ints", "harness_need"], units=IO_CODEC, unwind=40, eh=True, checks="mem",
         timeout=300, mem_gb=2, bounds="all 8/16/32/64-bit integer values, float/double as arbitrary bit patterns; Decoder::need with buffer length <= 5, arbitrary 64-bit request"),
    dict(name="codec-string", harness="C06_codec.cpp", entries=["harness_codec_string"], units=IO_CODEC, unwind=40, eh=True, checks="mem",
         timeout=300, mem_gb=4, bounds="strings of length <= 3 with arbitrary bytes"),
  ],
  assumptions=["OVM-ASCII (FileManager) is outside the claim: iostream/locale code lives in libstdc++.so and cannot be encoded"],
)
