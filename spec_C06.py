IO_CODEC = ["IO/detail/Decoder.cc", "IO/detail/Encoder.cc", "IO/detail/WriteBuffer.cc"]
_IO_HDR = ["IO/detail/Decoder.cc", "IO/detail/ovmb_codec.cc", "IO/detail/ovmb_format.cc", "IO/detail/Encoder.cc", "IO/detail/WriteBuffer.cc", "Core/Handles.cc"]
_IO_PC6 = ["IO/PropertyCodecs.cc", "IO/detail/Decoder.cc", "IO/detail/Encoder.cc", "IO/detail/WriteBuffer.cc", "Core/ResourceManager.cc",
           "Core/Properties/PropertyStorageBase.cc", "Core/detail/internal_type_name.cc", "Core/Handles.cc", "Core/BaseEntities.cc",
           "FileManager/TypeNames.cc", "FileManager/Serializers.cc"]   # the last two only satisfy the native (replay) link of PropertyStorageT<T>'s ASCII virtuals
# id, ovmb name -- must match CODEC_TABLE in harness/io_codecs.h
_CODECS6 = [(1, "u8"), (2, "u16"), (3, "u32"), (4, "u64"), (5, "i8"), (6, "i16"), (7, "i32"), (8, "i64"), (9, "f"), (10, "d"),
            (12, "vh"), (13, "eh"), (14, "heh"), (15, "fh"), (16, "hfh"), (17, "ch"),
            (18, "2d"), (19, "3d"), (20, "4d"), (21, "2f"), (22, "3f"), (23, "4f"), (24, "2u32"), (25, "3u32"), (26, "4u32"), (27, "2i32"), (28, "3i32"), (29, "4i32")]

def _c06_unit_jobs():
    J = [
        dict(name="codec-ints", harness="C06_codec.cpp", entries=["harness_codec_ints", "harness_need"], units=IO_CODEC, unwind=40, eh=True, checks="mem",
             timeout=300, mem_gb=2, bounds="all 8/16/32/64-bit integer values, float/double as arbitrary bit patterns; Decoder::need with buffer length <= 5, arbitrary 64-bit request"),
        dict(name="codec-string", harness="C06_codec.cpp", entries=["harness_codec_string"], units=IO_CODEC, unwind=40, eh=True, checks="mem",
             timeout=300, mem_gb=4, bounds="strings of length <= 3 with arbitrary bytes"),
        dict(name="headers", harness="C06_headers.cpp", units=_IO_HDR, unwind=40, eh=True, checks="mem", timeout=300, mem_gb=4,
             entries=["harness_file_header", "harness_chunk_header", "harness_span_and_prop_header", "harness_vertex_chunk_header", "harness_topo_chunk_header",
                      "harness_enums", "harness_suitable_int_encoding", "harness_handles", "harness_property_info_empty"],
             bounds="FileHeader/ChunkHeader/ArraySpan/PropChunkHeader/VertexChunkHeader/TopoChunkHeader: every field symbolic at full width (enums over their valid values; "
                    "ChunkHeader flags and padding/length also over the invalid ones): write -> bytes equal the ovmb.ksy layout -> read gives the same struct, or is refused "
                    "exactly for header_version != 1, flags > 1, padding_bytes > file_length; read_enum over all 256 byte values; suitable_int_encoding for every 32-bit value "
                    "(and 64-bit counts below 2^32) incl. 255/256/65535/65536; handle codecs for every 32-bit index"),
        dict(name="headers-property-info", harness="C06_headers.cpp", units=_IO_HDR, unwind=40, eh=True, checks="mem", timeout=300, mem_gb=4,
             entries=["harness_property_info"], shards=[{0: a, 1: b} for a in range(4) for b in range(4)],
             bounds="PropertyInfo with symbolic entity (0..6), name / data_type_name / serialized_default of length 0..3 each (one query per (name,type) length pair, "
                    "default length by selector dispatch), every content byte symbolic: write -> ovmb.ksy layout -> read identity"),
        dict(name="propcodec-b", harness="C06_propcodecs.cpp", units=_IO_PC6, unwind=64, eh=True, checks="mem", timeout=300, mem_gb=4, defines=["CODEC=0"],
             ll2c_flags=["--drop-ctor=PropertyCodecs.cc"], entries=["harness_roundtrip_bool"],
             shards={"quick": [{1: c, 2: f} for c in (1, 7, 8, 9, 15, 16, 17) for f in sorted(set([0, min(1, 17 - c), 17 - c]))],
                     "thorough": [{1: c, 2: f} for c in range(1, 18) for f in range(0, 18 - c)]},
             bounds="bool codec: 17 symbolic values, span {first,count} one query each (quick: count in {1,7,8,9,15,16,17} x first in {0,1,17-count}; thorough: all 153 spans): "
                    "serialize -> ceil(count/8) bytes, bit k of the stream = element first+k (LSB first), spare bits 0 -> deserialize writes exactly the span; default: one byte 0/1"),
        dict(name="propcodec-s32", harness="C06_propcodecs.cpp", units=_IO_PC6, unwind=64, eh=True, checks="mem", timeout=300, mem_gb=4, defines=["CODEC=11"],
             ll2c_flags=["--drop-ctor=PropertyCodecs.cc"], entries=["harness_roundtrip_strings"], shards=[{0: a} for a in range(4)],
             bounds="string codec: two elements of length 0..3 each with symbolic bytes (length of element 0 per query, of element 1 by dispatch): u32 length + bytes layout, "
                    "deserialize identity, default value through serialize_default/request_property"),
    ]
    for (cid, name) in _CODECS6:
        big = cid >= 18      # vector codecs (8..32 bytes per element): 2 elements in the quick tier, 3 in the thorough tier
        heavy = name in ("3d", "4d", "4f", "4i32", "4u32", "2d")   # measured on the loaded machine: 3d 245 s, 4d > 300 s for roundtrip_n with 2 elements -> thorough tier only
        pc = dict(harness="C06_propcodecs.cpp", units=_IO_PC6, unwind=64, eh=True, checks="mem", mem_gb=6, ll2c_flags=["--drop-ctor=PropertyCodecs.cc"])
        b = ("codec '%s': property of %d elements with symbolic values (floating point as arbitrary bit patterns incl. NaNs), symbolic span {first,count}: serialize -> "
             "count*elemsize bytes in the published little-endian layout -> deserialize restores exactly the span; symbolic default value through "
             "serialize_default -> request_property (decode_one)")
        if not big:
            J.append(dict(name="propcodec-%s" % name, entries=["harness_roundtrip_n", "harness_roundtrip_default"], defines=["CODEC=%d" % cid, "NELEM=3"], timeout=300, bounds=b % (name, 3), **pc))
            continue
        J.append(dict(name="propcodec-%s" % name, entries=(["harness_roundtrip_default"] if heavy else ["harness_roundtrip_n", "harness_roundtrip_default"]),
                      defines=["CODEC=%d" % cid, "NELEM=2"], timeout=300, tiers=["quick"],
                      bounds=(b % (name, 2)) + (" [quick tier: default value only; the n-element round trip of this codec is in the thorough tier]" if heavy else ""), **pc))
        J.append(dict(name="propcodec-%s-n3" % name, entries=["harness_roundtrip_n", "harness_roundtrip_default"], defines=["CODEC=%d" % cid, "NELEM=3"], timeout=1500, tiers=["thorough"],
                      solvers=["minisat", "cadical"], bounds=b % (name, 3), **pc))
    return J

if "C06" not in PROPS:
    PROPS["C06"] = dict(jobs=[], assumptions=[])
_c06_mine = _c06_unit_jobs()
_c06_names = set(j["name"] for j in _c06_mine)
PROPS["C06"]["jobs"] = _c06_mine + [j for j in PROPS["C06"]["jobs"] if j["name"] not in _c06_names]
PROPS["C06"]["assumptions"] = PROPS["C06"].get("assumptions", []) + [
    "OVM-ASCII (FileManager) is outside the claim: iostream/locale code lives in libstdc++.so and cannot be encoded",
    "unit level (a): property codecs are registered in a local PropertyCodecs by the repository's own register_codec<Codec>(name) and looked up by get_encoder/get_decoder; the static "
    "initialiser of g_default_property_codecs is not executed in the symbolic build (ll2c --drop-ctor), so the name->codec table of add_default_types() is mirrored by harness/io_codecs.h, not checked",
    "BinaryFileWriter::write_chunk (padding arithmetic) is private and writes to the ostream: not reachable at unit level (whole-file level only)",
    "NOT covered at unit level: decode_one of the bool codec (request_property for bool does not terminate in CBMC's symbolic execution); encode_one for bool is covered",
]
