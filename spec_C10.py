# C10 "Lookup queries are sound and complete" -- harness/C10_lookups.cpp + harness/c10_oracle.h
# shard params: 0 = base, 1 = deletion mode (bit0 deferred, bit1 fast), 2 = op kind (OP_NONE: base as built), 3 = chunk of the op's argument space
C10_B_DUPFIRST = 100
_C10_DEL = [OP_DEL_V, OP_DEL_E, OP_DEL_F, OP_DEL_C]
_C10_SYM = ("lookup arguments: find_halfedge(v1,v2) both free symbolic; find_halfedge_in_cell / find_halfface_in_cell: cell enumerated over all live cells, all vertices free symbolic; "
            "find_halfface(halfedges): first halfedge enumerated over all halfedges, 2nd/3rd free symbolic; find_halfface(vertices) (3- and 4-lists) and find_halfface_extensive (3-,4-,5-lists): "
            "(v0,v1) enumerated over all ordered vertex pairs, remaining vertices free symbolic; get_halfface_vertices x3: halfface enumerated over all live halffaces, start vertex / start halfedge free symbolic; "
            "is_incident: face enumerated, edge free symbolic; n_vertices_in_cell: all live cells. All symbolic values range over every in-range index (incl. deleted entities under deferred deletion).")

def _c10_none(bases):
    return [{0: b, 1: 0, 2: OP_NONE, 3: 0} for b in bases]

PROPS["C10"] = dict(
  jobs=[
    # base meshes as built (no operation)
    dict(name="c10-base", harness="C10_lookups.cpp", entries=["harness_c10"], units=CORE, unwind=30, checks="none", object_bits=13, defines=["C10_PER=1"],
         shards=_c10_none([B_TET, B_TET2_FACE, B_LOWDIM]), timeout=300, mem_gb=4,
         bounds="bases B_TET, B_TET2_FACE, B_LOWDIM (duplicate edge created after the face's edge), no operation; " + _C10_SYM),
    # one deletion (selector over all entities of the kind), deferred deletion: deleted entities stay stored and must never be returned
    dict(name="c10-del-tet", harness="C10_lookups.cpp", entries=["harness_c10"], units=CORE, unwind=30, checks="none", object_bits=13, defines=["C10_PER=2"],
         shards={"quick": op_shards([B_TET], [1], _C10_DEL, per=2), "thorough": op_shards([B_TET], [0, 1, 2, 3], _C10_DEL, per=2)}, timeout=300, mem_gb=4,
         bounds="B_TET after one delete_vertex/edge/face/cell of ANY entity (symbolic selector, 2 cases per query); quick: deferred deletion; thorough: all 4 (deferred x fast) modes; " + _C10_SYM),
    dict(name="c10-del-lowdim", harness="C10_lookups.cpp", entries=["harness_c10"], units=CORE, unwind=30, checks="none", object_bits=13, defines=["C10_PER=4"],
         shards={"quick": op_shards([B_LOWDIM], [1], _C10_DEL, per=4), "thorough": op_shards([B_LOWDIM], [0, 1, 2, 3], _C10_DEL, per=4)}, timeout=300, mem_gb=5,
         bounds="B_LOWDIM (triangle + dangling edge + isolated vertex + duplicate edge) after one delete_* of ANY entity (symbolic selector, 4 cases per query); quick: deferred; thorough: all 4 modes; " + _C10_SYM),
    dict(name="c10-del-tet2", harness="C10_lookups.cpp", entries=["harness_c10"], units=CORE, unwind=30, checks="none", object_bits=13, defines=["C10_PER=1"],
         shards={"quick": op_shards([B_TET2_FACE], [1], _C10_DEL, per=1), "thorough": op_shards([B_TET2_FACE], [0, 1, 2, 3], _C10_DEL, per=1)}, timeout=300, mem_gb=4,
         bounds="B_TET2_FACE (two tets sharing a face) after one delete_* of EVERY entity (one case per query); quick: deferred; thorough: all 4 modes; " + _C10_SYM),
    # duplicate edge created BEFORE the edge the face is built on: find_halfface(vertices)/find_halfface_extensive are incomplete there (notes/C10-findings.md)
    dict(name="c10-dupedge", harness="C10_lookups.cpp", entries=["harness_c10"], units=CORE, unwind=30, checks="none", object_bits=13, defines=["C10_PER=1"],
         shards=_c10_none([C10_B_DUPFIRST]), timeout=300, mem_gb=4,
         bounds="base C10_B_DUPFIRST: 3 vertices, E0=(0,1), E1=(0,1) duplicate, E2=(1,2), E3=(2,0), one face on (E1,E2,E3); no operation; " + _C10_SYM),
    # cells whose boundary is not one sphere (accepted by add_cell's topology check): n_vertices_in_cell must still count distinct vertices
    dict(name="c10-shells", harness="C10_cells.cpp", entries=["harness_c10_shells"], units=CORE, unwind=40, checks="none", object_bits=13,
         shards=[{0: 0}, {0: 1}], timeout=400, mem_gb=4,
         bounds="one cell of 8 triangles = tetrahedron shell on (0,1,2,3) + tetrahedron shell on (a,4,5,6), a in {0,1,2,3} (two shells pinched at vertex a) or 7 (two separate shells), "
                "symbolic selector over the 5 values of a; built without (p0=0) and with (p0=1) add_cell's topology check; n_vertices_in_cell == number of distinct vertices in the stored definitions"),
    # thorough: larger bases (entries split by lookup family to keep queries small), relabelling operations
    dict(name="c10-base-big", harness="C10_lookups.cpp", entries=["harness_c10_a", "harness_c10_b", "harness_c10_c"], units=CORE, unwind=30, checks="none", object_bits=13, defines=["C10_PER=1"],
         tiers=["thorough"], shards=_c10_none([B_HEX, B_PRISM_PYR, B_TET3_RING]), timeout=900, mem_gb=6,
         bounds="bases B_HEX, B_PRISM_PYR (mixed tri/quad faces), B_TET3_RING, no operation; entry a = all lookups except b, c; b = find_halfface(vertices); c = find_halfface_extensive; " + _C10_SYM),
    dict(name="c10-del-big", harness="C10_lookups.cpp", entries=["harness_c10_a", "harness_c10_b", "harness_c10_c"], units=CORE, unwind=30, checks="none", object_bits=13, defines=["C10_PER=1"],
         tiers=["thorough"], shards=op_shards([B_HEX, B_PRISM_PYR, B_TET3_RING], [1], _C10_DEL, per=1), timeout=900, mem_gb=6,
         bounds="B_HEX, B_PRISM_PYR, B_TET3_RING after one deferred delete_* of EVERY entity (one case per query); " + _C10_SYM),
    dict(name="c10-swap-tet", harness="C10_lookups.cpp", entries=["harness_c10"], units=CORE, unwind=30, checks="none", object_bits=13, defines=["C10_PER=2"],
         tiers=["thorough"], shards=op_shards([B_TET], [0], [OP_SWAP_V, OP_SWAP_E, OP_SWAP_F, OP_SWAP_C], per=2) + op_shards([B_LOWDIM], [0], [OP_SWAP_E], per=2), timeout=900, mem_gb=6,
         bounds="B_TET after one swap_{vertex,edge,face,cell}_indices of ANY ordered pair, B_LOWDIM after swap_edge_indices of any pair (symbolic selector, 2 cases per query); " + _C10_SYM),
  ],
  assumptions=[
    "C10: meshes of the stated base family after at most one operation, all three bottom-up incidence kinds enabled; cell arguments are live, closed cells (all cells of the base family are closed 2-manifold surfaces; job c10-shells adds cells bounded by two shells, separate or pinched at a vertex)",
    "C10: 'requested vertices in the requested order' is read as: find_halfface(vertices)/find_halfface_in_cell -- v0,v1,v2 are consecutive in the halfface's vertex cycle (documented: only the first three are checked); "
    "find_halfface_extensive -- the halfface's whole vertex cycle read from v0 equals the list; find_halfface(halfedges) -- the halfface lists both of the first two halfedges (documented: only the first two are checked)",
    "C10: get_halfface_vertices(hf) is required to be the halfface's vertex cycle in its orientation (any rotation); the (hf,v)/(hf,he) forms are only constrained when the requested start vertex belongs to the halfface",
    "C10: reuse of found entities by the tet/hex kernels' add_*(vertices) is asserted in C15/C16, not here",
  ],
)
