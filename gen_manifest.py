#!/usr/bin/env python3
"""Regenerates MANIFEST.json from specs.py (claimed properties) + manifest_meta.py texts."""
import json, sys, os
sys.path.insert(0, os.path.dirname(os.path.abspath(__file__)))
import specs, manifest_meta as mm
props = [json.loads(l)["id"] for l in open("properties.jsonl")]
checks = []
for pid in props:
    if pid not in specs.PROPS or pid in mm.NOT_APPLICABLE or pid not in mm.READY: continue
    m = mm.META.get(pid, {})
    checks.append({
        "property_id": pid, "quick_cmd": "./check %s --tier quick" % pid, "thorough_cmd": "./check %s --tier thorough" % pid,
        "evidence_file": "evidence/%s.json" % pid, "replay_cmd_template": "./check --replay {path}", "engine": "ovm-bmc",
        "level_claimed": {"category": "model_checking", "text": m.get("text", mm.DEFAULT_TEXT), "design_ref": "DESIGN.md section 2, " + pid},
        "level_note": m.get("note", mm.DEFAULT_NOTE),
        "technique": m.get("technique", "bounded symbolic execution of the real code (clang LLVM IR -> C via ll2c -> CBMC 6.11) decided by SAT/SMT; counterexamples replayed natively"),
    })
na = [{"property_id": p, "reason": mm.NOT_APPLICABLE.get(p, "check not yet run clean on the unchanged tree (work in progress); not claimed")} for p in props if p not in [c["property_id"] for c in checks]]
man = {
 "version": 1,
 "setup_cmd": "python3 -c \"import sys; sys.path.insert(0,'/verif'); import ovmbmc; ovmbmc.ensure_ll2c()\"",
 "hooks": mm.HOOKS,
 "engines": [{"name": "ovm-bmc", "path": "ovmbmc.py", "serves_properties": [c["property_id"] for c in checks],
   "kind_free_text": "bounded symbolic checking of the real C++ units: clang-14 LLVM IR -> C (tools/ll2c.cpp) -> CBMC 6.11 + SAT/SMT back ends; counterexamples replayed on a native ASan build of the real sources"}],
 "checks": checks, "not_applicable": na, "notes": mm.NOTES,
}
json.dump(man, open("MANIFEST.json", "w"), indent=1)
print("claimed:", [c["property_id"] for c in checks]); print("not applicable:", [n["property_id"] for n in na])
