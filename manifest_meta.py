HOOKS = {
  "guard": "OVM_VERIF",
  "enable": "ovmbmc.py compiles every repository unit it encodes with -DOVM_VERIF (clang++-14 -std=c++17 -O1 -DNDEBUG -DOVM_VERIF -emit-llvm)",
  "baseline_off_cmd": "cmake --build /repo/_build && ctest --test-dir /repo/_build -j8 --timeout 900",
  "source_commits": [],
  "add_only": True,
}
DEFAULT_TEXT = "bounded model checking of the real code: every value of the symbolic inputs within the stated bounds is decided by one solver query per shard; unwinding assertions on; reachability witnesses guard against vacuity"
DEFAULT_NOTE = "trusted: clang 14, the IR->C translator tools/ll2c.cpp, the libstdc++ models in models/, CBMC 6.11 and its back ends; bounds and assumptions are listed in the evidence file"
NOTES = "All checks are driven by ovmbmc.py from specs.py; see DESIGN.md."
META = {}
NOT_APPLICABLE = {}
