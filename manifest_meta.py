HOOKS = {
  "guard": "OVM_VERIF",
  "enable": "ovmbmc.py compiles every repository unit it encodes with -DOVM_VERIF (clang++-14 -std=c++17 -O1 -DNDEBUG -DOVM_VERIF -emit-llvm); the only hook is `friend struct ::OVMVerifAccess;` in IO/detail/BinaryFileReader.hh",
  "baseline_off_cmd": "cmake --build /repo/_build && ctest --test-dir /repo/_build -j8 --timeout 900",
  "source_commits": ["23d2f82"],
  "add_only": True,
}
DEFAULT_TEXT = ("bounded model checking of the real code (clang-14 LLVM IR of the repository's own units -> C via tools/ll2c.cpp -> CBMC 6.11): every value of the symbolic inputs "
                "within the bounds stated in the evidence file is decided by one SAT/SMT query per shard; unwinding assertions on; reachability witnesses guard against vacuity; "
                "counterexamples are replayed on a native sanitizer build of the real sources before being reported")
DEFAULT_NOTE = ("trusted: clang 14, the IR->C translator tools/ll2c.cpp (cross-checked on every run by translation validation against a g++ build of the real sources), the libstdc++ models in models/, "
                "CBMC 6.11 and its back ends; operator new never fails; nothing is claimed outside the bounds listed in evidence coverage.bounds / assumptions")
NOTES = ("All checks are driven by ovmbmc.py from specs.py + spec_C*.py; ./check <id> --tier quick|thorough; see DESIGN.md (§5-§7 as built) and HARNESS_GUIDE.md. "
         "Exit 0 = held on everything explored (queries that hit the time/memory cap are printed as NOT-COVERED and listed in evidence), 1 = VIOLATION (reproduced natively), 2 = tool error.")
T = "bounded symbolic execution of the real code (LLVM IR -> C via ll2c -> CBMC 6.11) decided by SAT/SMT"
META = {
  "C01": dict(text="mesh-level BMC: after K<=2 real operations chosen by a symbolic selector, every bottom-up query is compared with a brute-force scan of the stored definitions for symbolic target entities", technique=T + "; selector dispatch over operation arguments, symbolic probe targets"),
  "C02": dict(text="mesh-level BMC: one (or a second) deletion / garbage collection / mode switch chosen by a symbolic selector, compared at symbolic probe indices with a 120-line reference model of closure + documented renumbering; also with bottom-up incidences disabled", technique=T + "; differential against a reference model"),
  "C03": dict(text="mesh-level BMC with fully symbolic property values (int, bool) on all entity kinds and symbolic vertex positions: after the operation every value sits where the reference model's identity tracking says", technique=T + "; symbolic data, reference renumbering with identity tracking"),
  "C04": dict(text="mesh-level BMC: deferred deletions + collect_garbage vs. the same deletions done immediately on a second real mesh (compared through tag properties); StatusAttrib::garbage_collection incl. manifoldness pass and symbolic tracked handles against the reference model (thorough tier)", technique=T + "; differential (two real meshes) and reference model"),
  "C12": dict(text="differential BMC with CBMC pointer/bounds checks: mesh with a subset of bottom-up incidences disabled vs. fully enabled twin under the same operation; circulator validity; C01 oracle after re-enabling", technique=T + "; differential, memory-safety checks on"),
  "C17": dict(text="mesh-level BMC: every ordered handle pair by symbolic selector; state after the swap == transposition applied by the reference model; double swap restores state incl. cache order; memory-safety checks with incidences disabled", technique=T + "; reference model, memory-safety checks"),
  "C09": dict(text="mesh-level BMC on fan/ring bases after 0..2 operations: reported halfface sequence vs. brute-force successor relation at a symbolic position; adjacent_halfface_in_cell uniqueness and involution", technique=T),
  "C20": dict(text="sequential reduction decided by BMC: every store/memcpy/atomic/free executed by the const API after an epoch mark is instrumented (ll2c --store-hook) and asserted not to touch the mesh object or any heap block that existed before; no shared write => no data race and schedule-independent results for any number of readers", technique=T + "; store instrumentation + sequential reduction (interleavings not enumerated)"),
  "C08": dict(text="full-width BMC of the handle algebra (every index in [0,2^30) in one query) and mesh-level BMC of the mirror relations of halfedges/halffaces and their circulators", technique=T),
  "C19": dict(text="full-width BMC of the integer vector algebra against component-wise formulas (SMT back-end portfolio), bit-precise IEEE checks for float/double where the solver finishes, geometry kernel queries with symbolic integer positions", technique=T + "; back-end portfolio (cvc5/cadical/z3)"),
}
# properties whose check has been run clean on the unchanged tree (only these are claimed in MANIFEST.json)
READY = ["C01", "C02", "C03", "C04", "C06", "C08", "C09", "C12", "C17", "C20"]
NOT_APPLICABLE = {}
