_c03_common = dict(harness="C03_properties.cpp", units=CORE_PROPS, unwind=26, object_bits=13, witness_any=True, checks="none", unwindset=["strlen.0:80"],
                   timeout={"quick": 900, "thorough": 2400}, mem_gb=3)
_DELS = [OP_DEL_V, OP_DEL_E, OP_DEL_F, OP_DEL_C]
_SWAPS = [OP_SWAP_V, OP_SWAP_E, OP_SWAP_F, OP_SWAP_C]
PROPS["C03"] = dict(
  jobs=[
    dict(name="c03-props", entries=["harness_c03"], **_c03_common,
         shards={"quick": op_shards([B_TET], [0, 1, 2, 3], _DELS, per=4) + op_shards([B_TET], [1], [OP_SWAP_V, OP_SWAP_F, OP_SWAP_C, OP_ADD_V, OP_ADD_NV], per=4)
                        + op_shards([B_TET], [1], [OP_SWAP_E, OP_ADD_E, OP_ADD_E_DUP], per=4)[:9]
                        + [s for op1 in (OP_DEL_E, OP_DEL_V) for s in _with(op_shards([B_TET], [1, 3], [OP_GC], per=4), {4: op1, 5: 1})]
                        + _with(op_shards([B_TET], [1], [OP_SWAP_F], per=4), {7: 12}) + _with(op_shards([B_TET], [1], [OP_SWAP_E], per=4)[:3], {7: 10}) + _with(op_shards([B_TET], [1], [OP_SWAP_V], per=4)[:2], {7: 9})
                        + _with(op_shards([B_TET], [3], [OP_DEL_F, OP_DEL_E], per=4), {7: 15}),
                 "thorough": [d for sub in (15, 7, 9, 10, 12) for d in _with(op_shards([B_TET], [1], _SWAPS, per=4) + op_shards([B_TET], [0, 3], _DELS, per=4), {7: sub})] + op_shards([B_TET2_FACE, B_LOWDIM], [0, 1, 3], _DELS, per=4) + op_shards([B_TET2_FACE, B_LOWDIM], [1], _SWAPS, per=4) + op_shards([B_TET], [1], [OP_SWAP_E, OP_ADD_E, OP_ADD_E_DUP], per=4)
                        + [s for op1 in _DELS for idx in (0, 2, 3) for s in _with(op_shards([B_TET, B_TET2_FACE], [1, 3], [OP_GC], per=4), {4: op1, 5: idx})]
                        + [s for op1 in _DELS for s in _with(op_shards([B_TET], [0, 3], _DELS, per=4), {4: op1, 5: 0})]},
         bounds="int properties on vertices, edges, halfedges, faces, halffaces, cells and the mesh, bool (vector<bool>) properties on vertices and halffaces, one int edge property created in the middle of the history; "
                "ALL values symbolic (full width); operations: every deletion in the four modes, every swap pair, add_vertex/add_n_vertices/add_edge (defaults), deletion -> collect_garbage; symbolic selector (4 argument tuples per query) and symbolic probe indices/sides; "
                "bases quick: tetrahedron; thorough: two tets sharing a face, low-dimensional mesh"),
    dict(name="c03-geom", entries=["harness_c03_geom"], **_c03_common,
         shards={"quick": op_shards([B_TET], [0, 1, 3], [OP_DEL_V], per=4) + op_shards([B_TET], [1], [OP_SWAP_V, OP_ADD_V], per=4) + _with(op_shards([B_TET], [1, 3], [OP_GC], per=4), {4: OP_DEL_V, 5: 1}),
                 "thorough": op_shards([B_TET2_FACE, B_LOWDIM], [0, 1, 2, 3], [OP_DEL_V, OP_DEL_E], per=4) + op_shards([B_LOWDIM], [1], [OP_SWAP_V, OP_ADD_NV], per=4)},
         bounds="GeometryKernel<VectorT<int,3>> vertex positions with symbolic integer coordinates under vertex deletion (three modes), vertex swaps, growth and garbage collection"),
  ],
  assumptions=["value types double/string/vectors and the Status/Color/Normal/TexCoord attribs are outside the bound (only int and bool storage are encoded); tetrahedral edge collapse is decided in C15",
               "expected positions come from the reference model of the documented renumbering (refmodel.h), which is itself compared with the real mesh in C02/C17"],
)
