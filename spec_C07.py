# C07 (unit level): OVMB decoding units on untrusted bytes.  Whole-file / chunk-reader level jobs are appended by the
# whole-file owner (see the end of this file: jobs are only ADDED to PROPS["C07"]).
_IO_DEC = ["IO/detail/Decoder.cc", "IO/detail/ovmb_codec.cc", "IO/detail/ovmb_format.cc", "IO/detail/Encoder.cc", "IO/detail/WriteBuffer.cc"]
_IO_PC = ["IO/PropertyCodecs.cc", "IO/detail/Decoder.cc", "IO/detail/Encoder.cc", "IO/detail/WriteBuffer.cc", "Core/ResourceManager.cc",
          "Core/Properties/PropertyStorageBase.cc", "Core/detail/internal_type_name.cc", "Core/Handles.cc", "Core/BaseEntities.cc",
          "FileManager/TypeNames.cc", "FileManager/Serializers.cc"]   # the last two only satisfy the native (replay) link of PropertyStorageT<T>'s ASCII virtuals
# id, ovmb name, bytes per element (0 = variable) -- must match CODEC_TABLE in harness/C07_propcodecs.cpp
_CODECS = [(0, "b", 0), (1, "u8", 1), (2, "u16", 2), (3, "u32", 4), (4, "u64", 8), (5, "i8", 1), (6, "i16", 2), (7, "i32", 4), (8, "i64", 8),
           (9, "f", 4), (10, "d", 8), (11, "s32", 0), (12, "vh", 4), (13, "eh", 4), (14, "heh", 4), (15, "fh", 4), (16, "hfh", 4), (17, "ch", 4),
           (18, "2d", 16), (19, "3d", 24), (20, "4d", 32), (21, "2f", 8), (22, "3f", 12), (23, "4f", 16), (24, "2u32", 8), (25, "3u32", 12),
           (26, "4u32", 16), (27, "2i32", 8), (28, "3i32", 12), (29, "4i32", 16)]
_HDR_ENTRIES = ["harness_file_header_full", "harness_chunk_header", "harness_prop_chunk_header", "harness_array_span", "harness_vertex_chunk_header",
                "harness_topo_chunk_header", "harness_reserved3", "harness_reserved4", "harness_padding", "harness_readvec", "harness_string_after_need",
                "harness_property_info_short", "harness_property_info_13"]
_SYMB = ("a Decoder over a heap vector of EXACTLY len bytes (as BinaryIStream::make_decoder allocates it); every byte value symbolic (0..255); "
         "len symbolic by selector dispatch (one literal case per length)")

def _c07_jobs():
    J = []
    for tier, maxlen in (("quick", 24), ("thorough", 40)):
        sfx = "" if tier == "quick" else "-long"
        J.append(dict(name="dec-units" + sfx, harness="C07_decoder.cpp", entries=_HDR_ENTRIES, units=_IO_DEC, unwind=maxlen + 26, eh=True, checks="mem",
                      defines=["MAXLEN=%d" % maxlen], tiers=[tier], timeout=300 if tier == "quick" else 1500, mem_gb=4,
                      bounds=_SYMB + "; len 0..%d (FileHeader: len = 48; reserved<3>/<4>: len 0..8; PropertyInfo here: len 0..13); outcome must be success or parse_error, "
                             "accepted values compared with a reference little-endian decoder written from ovmb.ksy; string/readVec: declared length word fully symbolic" % maxlen))
        J.append(dict(name="dec-property-info" + sfx, harness="C07_decoder.cpp", entries=["harness_property_info"], units=_IO_DEC, unwind=maxlen + 26, eh=True, checks="mem",
                      defines=["MAXLEN=%d" % maxlen, "PI_MAX=%d" % maxlen], shards=[{0: L - 14} for L in range(14, maxlen + 1)], tiers=[tier],
                      timeout=300 if tier == "quick" else 1500, mem_gb=4,
                      bounds=_SYMB + "; read(Decoder&, PropertyInfo&) on len 14..%d bytes, one solver query per len, the three u32 length words symbolic" % maxlen))
    J.append(dict(name="dec-file-header-short", harness="C07_decoder.cpp", entries=["harness_file_header_short"], units=_IO_DEC, unwind=60, eh=True, checks="mem",
                  shards=[{0: c} for c in range(6)], timeout=300, mem_gb=4,
                  bounds=_SYMB + "; read(Decoder&, FileHeader&) on every len 0..47 (8 lengths per query): must throw parse_error without reading"))
    # --- Decoder::read(std::string&) the way the property codecs call it (no need() for the length word): GENUINE FINDING (notes/C07-findings.md F1)
    J.append(dict(name="dec-string-as-called", harness="C07_decoder.cpp", entries=["harness_string_short", "harness_string_empty"], units=_IO_DEC, unwind=40, eh=True, checks="mem",
                  timeout=300, mem_gb=4,
                  bounds="Decoder::read(std::string&) on a Decoder with 0 / 1..3 remaining bytes (all byte values symbolic), called without a preceding need() as "
                         "Primitive<std::string>::decode does; EXPECTED TO FAIL: out-of-bounds read of the length word (finding F1)"))
    # --- registered property codecs through PropertyCodecs::register_codec / get_decoder / PropertyDecoderT
    common = dict(units=_IO_PC, eh=True, checks="mem", ll2c_flags=["--drop-ctor=PropertyCodecs.cc"], mem_gb=4)
    for (cid, name, esz) in _CODECS:
        if cid == 0:
            spans_q = [(c, f) for c in (1, 7, 8, 9, 15, 16, 17) for f in sorted(set([0, min(1, 17 - c), 17 - c]))]
            spans_t = [(c, f) for c in range(1, 18) for f in range(0, 18 - c)]
            J.append(dict(name="codec-b-deserialize", harness="C07_propcodecs.cpp", entries=["harness_deser_bool"], defines=["CODEC=0"], unwind=64,
                          shards={"quick": [{1: c, 2: f} for (c, f) in spans_q], "thorough": [{1: c, 2: f} for (c, f) in spans_t]},
                          bounds="PropertyDecoderT<bool,BoolPropCodec>::deserialize on a 17-element property, span {first,count} one query each "
                                 "(quick: count in {1,7,8,9,15,16,17} x first in {0,1,17-count}; thorough: all 153 spans), payload = 0..3 symbolic bytes (exact allocation): "
                                 "parse_error iff fewer than ceil(count/8) bytes, else bits unpacked LSB-first into exactly [first,first+count)", timeout=300, **common))
            continue
        for tier, nel in (("quick", 2), ("thorough", 3)):
            if tier == "quick" and name == "s32": tier_list = ["thorough"]   # unmeasured after the last harness change (timed out before it): thorough only
            else: tier_list = [tier]
            J.append(dict(name="codec-%s%s" % (name, "" if tier == "quick" else "-n3"), harness="C07_propcodecs.cpp",
                          entries=["harness_deser_sufficient", "harness_request_sufficient"], defines=["CODEC=%d" % cid, "NELEM=%d" % nel],
                          unwind=max(64, nel * esz + 6), tiers=tier_list, timeout=300 if tier_list == ["quick"] else 1500,
                          bounds=("codec '%s': deserialize(storage of %d elements, symbolic span {first,count} within read_prop_chunk's checks) on a symbolic payload of " % (name, nel)) +
                                 ("4..7 bytes, one element (length word symbolic)" if esz == 0 else "k*%d or k*%d+1 bytes, k = 1..%d, at least count*%d (exact allocation)" % (esz, esz, nel, esz)) +
                                 "; request_property with a symbolic serialized_default of %d..%d bytes: memory-safe, success (string: or parse_error when the declared length exceeds the buffer)" %
                                 (esz or 4, (esz or 4) + 2), **common))
    # inputs too short for ONE element, as the reader hands them over: GENUINE FINDINGS (notes/C07-findings.md F2, F3); one failing CBMC property per entry
    names = [n for (_, n, _) in _CODECS if n != "b"]
    quick_short = ["harness_deser_short_u32", "harness_request_short_u32"]   # measured; the other 58 entries (all codecs, empty inputs) are in the thorough tier
    all_short = ["harness_%s_short_%s" % (k, n) for n in names for k in ("deser", "request")] + ["harness_deser_empty_u32", "harness_request_empty_u32"]
    for tier, ents in (("quick", quick_short), ("thorough", [e for e in all_short if e not in quick_short])):
        J.append(dict(name="codec-short-input" + ("" if tier == "quick" else "-all"), harness="C07_codec_short.cpp", entries=ents, unwind=64, tiers=[tier],
                      bounds="codecs reached as the reader reaches them (deserialize with span {0,1}; request_property) with an input ONE BYTE SHORTER than one element needs "
                             "(1-byte codecs and the *_empty_* entries: the empty input), every byte symbolic, exact heap allocation; "
                             "EXPECTED TO FAIL: out-of-bounds / null read in Decoder::u8/u16/u32/u64 (findings F2/F3)", timeout=300 if tier == "quick" else 1500, **common))
    return J

if "C07" not in PROPS:
    PROPS["C07"] = dict(jobs=[], assumptions=[])
PROPS["C07"]["jobs"] = _c07_jobs() + [j for j in PROPS["C07"]["jobs"] if not j["name"].startswith(("dec-", "codec-"))]
PROPS["C07"]["assumptions"] = PROPS["C07"].get("assumptions", []) + [
    "unit level: each decoding unit is driven the way IO/detail/BinaryFileReader.cc drives it (call sites quoted in the harness comments); the chunk-reader / whole-file level is separate",
    "property codecs: the codec under test is registered in a local PropertyCodecs by the repository's own register_codec<Codec>(name) and looked up by get_decoder(name); "
    "the static initialiser of g_default_property_codecs is not executed in the symbolic build (ll2c --drop-ctor), so the name->codec table of add_default_types() is mirrored by the harness table, not checked",
    "request_property needs only the entity counts of its ResourceManager argument; the harness passes a ResourceManager subclass returning constants instead of a TopologyKernel",
    "NOT covered: PropertyDecoderT<bool,BoolPropCodec>::request_property (BoolPropCodec::decode_one): CBMC's symbolic execution does not terminate on it (unresolved virtual-call fan-out in the PropertyPtr<bool,...> destructors)",
    "OVM-ASCII (FileManager) is outside the claim: iostream/locale code lives in libstdc++.so and cannot be encoded",
]
